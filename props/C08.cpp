// C08 — unit compatibility and scaling obey the algebra of units.
//
// One case = one "world": a main model with 3-12 acyclic units definitions (+ derived ones for the metamorphic
// relations), 0-2 in-memory library models (and a renamed copy of the main model as a third library for the
// import-indirection relation), resolved through Importer::addModel + resolveImports.  Oracles:
//   * reference reduction vp::reduceUnits (kit/gen.h, written from the CellML 2.0 text) over a qualified-name universe,
//   * algebraic laws on the full pair / triple matrices of Units::compatible / scalingFactor / equivalent,
//   * metamorphic relations (child permutation, wrapping {a^1}, import indirection),
//   * differential: Validator verdict + "multiplication factor" hint, Analyser AST factor, Generator C code factor,
//     Analyser units warning.
#include <libcellml>

#include <algorithm>
#include <cmath>
#include <functional>
#include <map>
#include <set>
#include <sstream>

#include <unistd.h>

#include "gen.h"
#include "prop.h"
#include "spec.h"

using namespace vp;
using namespace libcellml;

namespace {

const char *const ID = "C08";

// ------------------------------------------------------------------------------------------------ value pools

const std::vector<std::string> &paletteCandidates()
{
    static const std::vector<std::string> v = {"metre", "second", "kilogram", "litre", "gram", "newton", "volt", "ampere", "mole", "joule", "pascal",
                                               "hertz", "kelvin", "candela", "coulomb", "farad", "henry", "katal", "lumen", "lux", "ohm",
                                               "siemens", "sievert", "tesla", "watt", "weber", "becquerel", "gray", "radian", "steradian", "dimensionless"};
    return v;
}
const std::vector<double> &exponents()
{
    static const std::vector<double> v = {1.0, 2.0, -1.0, 3.0, -2.0, -3.0, 0.5, -0.5, 1.5, 2.5, 0.0};
    return v;
}
const std::vector<double> &multipliers()
{
    static const std::vector<double> v = {1.0, 1000.0, 0.001, 10.0, 0.1, 2.5, 1e-9, 1e6, 0.4, 100.0};
    return v;
}
const std::vector<std::string> &intPrefixes()
{
    static std::vector<std::string> v;
    if (v.empty()) {
        v = {"3", "-3", "+3", "1", "-1", "6", "-6", "2", "+12", "24", "-24"};
        for (int i = -23; i <= 23; ++i) {
            std::string s = std::to_string(i);
            if (i != 0 && std::find(v.begin(), v.end(), s) == v.end()) {
                v.push_back(s);
            }
        }
    }
    return v;
}
const std::map<std::string, Units::Prefix> &prefixEnum()
{
    static const std::map<std::string, Units::Prefix> m = {
        {"yotta", Units::Prefix::YOTTA}, {"zetta", Units::Prefix::ZETTA}, {"exa", Units::Prefix::EXA}, {"peta", Units::Prefix::PETA}, {"tera", Units::Prefix::TERA},
        {"giga", Units::Prefix::GIGA}, {"mega", Units::Prefix::MEGA}, {"kilo", Units::Prefix::KILO}, {"hecto", Units::Prefix::HECTO}, {"deca", Units::Prefix::DECA},
        {"deci", Units::Prefix::DECI}, {"centi", Units::Prefix::CENTI}, {"milli", Units::Prefix::MILLI}, {"micro", Units::Prefix::MICRO}, {"nano", Units::Prefix::NANO},
        {"pico", Units::Prefix::PICO}, {"femto", Units::Prefix::FEMTO}, {"atto", Units::Prefix::ATTO}, {"zepto", Units::Prefix::ZEPTO}, {"yocto", Units::Prefix::YOCTO}};
    return m;
}

// ------------------------------------------------------------------------------------------------ the world (pure data)

struct ModelU
{
    std::string id; // "M", "L0", "L1", "LX"
    std::string url; // "" for the main model
    ModelSpec spec; // units + imports only
};

struct World
{
    std::vector<ModelU> models; // [0] = main
    bool resolve = true; // false: resolveImports is never called
    const ModelU *byUrl(const std::string &url) const
    {
        for (const auto &m : models) {
            if (m.url == url) {
                return &m;
            }
        }
        return nullptr;
    }
    const ModelU *byId(const std::string &id) const
    {
        for (const auto &m : models) {
            if (m.id == id) {
                return &m;
            }
        }
        return nullptr;
    }
};

const UnitsSpec *findUnits(const ModelSpec &s, const std::string &name)
{
    for (const auto &u : s.units) {
        if (u.name == name) {
            return &u;
        }
    }
    return nullptr;
}

// Qualified-name universe for the reference reduction.
struct RefUniverse
{
    std::map<std::string, UnitsSpec> q; // "M/u1" -> spec with qualified child references
    std::map<std::string, std::string> target; // qualified import units -> qualified name it refers to
    std::map<std::string, UnitsSpec> synth; // copy semantics: an import of a base unit is a base unit of its own
    bool resolve = true;

    // Follows an import chain; returns the final definition's qualified name or "" (missing / unresolved / too long).
    std::string follow(const std::string &name) const
    {
        std::string cur = name;
        for (int hops = 0; hops < 16; ++hops) {
            auto it = q.find(cur);
            if (it == q.end()) {
                return "";
            }
            if (it->second.import < 0) {
                return cur;
            }
            if (!resolve) {
                return "";
            }
            auto t = target.find(cur);
            if (t == target.end()) {
                return "";
            }
            cur = t->second;
        }
        return "";
    }
    UnitsLookup lookup(bool copySemantics)
    {
        return [this, copySemantics](const std::string &name) -> const UnitsSpec * {
            auto it = q.find(name);
            if (it == q.end()) {
                return nullptr;
            }
            if (it->second.import < 0) {
                return &it->second;
            }
            std::string f = follow(name);
            if (f.empty()) {
                return &it->second; // import spec: reduceUnits reports it undefined
            }
            const UnitsSpec &fin = q.at(f);
            if (copySemantics && fin.units.empty()) {
                auto s = synth.find(name);
                if (s == synth.end()) {
                    UnitsSpec b;
                    b.name = name;
                    s = synth.emplace(name, b).first;
                }
                return &s->second;
            }
            return &fin;
        };
    }
};

RefUniverse buildUniverse(const World &w)
{
    RefUniverse r;
    r.resolve = w.resolve;
    for (const auto &m : w.models) {
        for (const auto &u : m.spec.units) {
            UnitsSpec s = u;
            s.name = m.id + "/" + u.name;
            for (auto &c : s.units) {
                if (findUnits(m.spec, c.ref) != nullptr) {
                    c.ref = m.id + "/" + c.ref;
                }
            }
            if (u.import >= 0) {
                const ModelU *t = w.byUrl(m.spec.imports[static_cast<size_t>(u.import)].url);
                if (t != nullptr) {
                    r.target[s.name] = t->id + "/" + u.importRef;
                }
            }
            r.q[s.name] = s;
        }
    }
    return r;
}

// Nesting depth of a definition (standard / base unit = 0).
int depthOf(const RefUniverse &r, const std::string &name, int guard = 0)
{
    if (guard > 40) {
        return 99;
    }
    auto it = r.q.find(name);
    if (it == r.q.end()) {
        return 0;
    }
    if (it->second.import >= 0) {
        std::string f = r.follow(name);
        return f.empty() ? 0 : depthOf(r, f, guard + 1);
    }
    int d = 0;
    for (const auto &c : it->second.units) {
        d = std::max(d, depthOf(r, c.ref, guard + 1));
    }
    return it->second.units.empty() ? 0 : d + 1;
}

struct Traits
{
    bool importInvolved = false; // an imported units is met on the way down
    bool importExpPath = false; // an imported (non base) units is met with accumulated exponent != 1
    bool nonTrivialExponent = false;
    bool prefixOutOfRegime = false, multiplierOutOfRegime = false; // which attribute breaks the exponent-1 regime
    bool scaledRefToMultiLeaf = false; // a child with prefix/multiplier refers to a user units that expands to != 1 leaf references
    bool fractional = false; // an exponent that is not exact in binary (a tenth) occurs
    bool importRevisit = false; // an import into model Y is met after an import located in Y was met earlier in the same walk
};

// Localisation only: the order in which Units::isDefined() meets imports. Its history of visited imports is never popped,
// so an import *into* a model is taken for a cycle when an import *out of* that model was met earlier in the walk.
bool walkImportHistory(const RefUniverse &r, const std::string &name, std::vector<std::pair<std::string, std::string>> &epochs, int guard = 0)
{
    auto it = r.q.find(name);
    if (it == r.q.end() || guard > 40) {
        return true;
    }
    if (it->second.import >= 0) {
        auto t = r.target.find(name);
        if (t == r.target.end() || r.q.count(t->second) == 0 || !r.resolve) {
            return true;
        }
        std::string dst = t->second.substr(0, t->second.find('/'));
        for (const auto &e : epochs) {
            if (e.first == dst) {
                return false;
            }
        }
        std::string src = "ORIGIN";
        for (size_t i = epochs.size(); i-- > 0;) {
            if (epochs[i].second != dst) {
                src = epochs[i].second;
                break;
            }
        }
        epochs.emplace_back(src, dst);
        return walkImportHistory(r, t->second, epochs, guard + 1);
    }
    for (const auto &c : it->second.units) {
        if (!walkImportHistory(r, c.ref, epochs, guard + 1)) {
            return false;
        }
    }
    return true;
}

// number of standard / base unit references a definition expands to
int leafCount(const RefUniverse &r, const std::string &name, int guard = 0)
{
    auto it = r.q.find(name);
    if (it == r.q.end() || guard > 40) {
        return 1;
    }
    if (it->second.import >= 0) {
        std::string f = r.follow(name);
        return f.empty() ? 1 : leafCount(r, f, guard + 1);
    }
    if (it->second.units.empty()) {
        return 1;
    }
    int n = 0;
    for (const auto &c : it->second.units) {
        n += leafCount(r, c.ref, guard + 1);
    }
    return std::min(n, 1000);
}

void walkTraits(const RefUniverse &r, const std::string &name, double acc, Traits &t, int guard = 0)
{
    if (guard > 40) {
        return;
    }
    auto it = r.q.find(name);
    if (it == r.q.end()) {
        return;
    }
    if (it->second.import >= 0) {
        t.importInvolved = true;
        std::string f = r.follow(name);
        if (f.empty()) {
            return;
        }
        if (!r.q.at(f).units.empty() && acc != 1.0) {
            t.importExpPath = true;
        }
        walkTraits(r, f, acc, t, guard + 1);
        return;
    }
    for (const auto &c : it->second.units) {
        if (c.exponent != 1.0) {
            t.nonTrivialExponent = true;
        }
        if (std::fabs(c.exponent * 2.0 - std::round(c.exponent * 2.0)) > 1e-12) {
            t.fractional = true;
        }
        if ((c.multiplier != 1.0 || (!c.prefix.empty() && prefixValue(c.prefix) != 0)) && r.q.count(c.ref) != 0 && leafCount(r, c.ref) != 1) {
            t.scaledRefToMultiLeaf = true;
        }
        walkTraits(r, c.ref, acc * c.exponent, t, guard + 1);
    }
}

// ------------------------------------------------------------------------------------------------ generator

struct GenCtx
{
    Src &src;
    World &w;
    std::vector<std::string> palette;
    bool inRegimeOnly = false;
};

std::string genPrefix(Src &src)
{
    if (src.flip(60)) {
        return namedPrefixes()[src.below(namedPrefixes().size())].first;
    }
    return src.pick(intPrefixes());
}

// scale / depth of an existing definition of model mi, by local name (standard names work too)
struct Probe
{
    RefUniverse u;
    UnitsLookup lk;
    explicit Probe(const World &w)
        : u(buildUniverse(w))
    {
        lk = u.lookup(false);
    }
    std::string qual(const ModelU &m, const std::string &name) const { return findUnits(m.spec, name) != nullptr ? m.id + "/" + name : name; }
    UnitsRed red(const ModelU &m, const std::string &name) { return reduceUnits(qual(m, name), lk); }
    int depth(const ModelU &m, const std::string &name) const { return depthOf(u, qual(m, name)); }
};

UnitSpec genChild(GenCtx &g, size_t mi, const std::vector<std::string> &prev)
{
    Src &src = g.src;
    UnitSpec c;
    unsigned k = static_cast<unsigned>(src.below(10));
    Probe p(g.w);
    const ModelU &m = g.w.models[mi];
    if (k >= 5 && k < 8 && !prev.empty()) {
        c.ref = src.pick(prev);
        if (p.depth(m, c.ref) >= 3) {
            c.ref = g.palette[0];
        }
    } else if (k >= 8) {
        c.ref = src.pick(paletteCandidates());
    } else {
        c.ref = src.pick(g.palette);
        if (findUnits(m.spec, c.ref) == nullptr && !isStandardUnit(c.ref)) {
            c.ref = paletteCandidates()[0]; // a user base unit of the main model is not visible in a library
        }
    }
    if (src.flip(40)) {
        c.exponent = exponents()[1 + src.below(exponents().size() - 1)];
    }
    if (src.flip(40)) {
        c.prefix = genPrefix(src);
    }
    if (src.flip(25)) {
        c.multiplier = multipliers()[1 + src.below(multipliers().size() - 1)];
    }
    if (g.inRegimeOnly && c.exponent != 1.0) {
        UnitsRed r = p.red(m, c.ref);
        if (!r.defined || r.log10scale != 0.0) {
            c.exponent = 1.0;
        } else {
            c.prefix.clear();
            c.multiplier = 1.0;
        }
    }
    return c;
}

// A definition with the same dimension as `of`: standard derived units replaced by their SI expansion, the scale carried
// by a separate dimensionless child (exponent 1), so that in the exponent-1 regime it is equivalent to `of`.
std::vector<UnitSpec> expansionOf(GenCtx &g, size_t mi, const std::vector<UnitSpec> &children)
{
    std::vector<UnitSpec> out;
    Probe p(g.w);
    const ModelU &m = g.w.models[mi];
    for (const auto &c : children) {
        bool std_ = isStandardUnit(c.ref) && findUnits(m.spec, c.ref) == nullptr;
        UnitsRed r = std_ ? p.red(m, c.ref) : UnitsRed();
        bool carriesScale = !c.prefix.empty() || c.multiplier != 1.0 || r.log10scale != 0.0;
        bool expandable = std_ && !(r.base.size() == 1 && r.base.begin()->first == c.ref && r.log10scale == 0.0) && !(c.exponent != 1.0 && carriesScale);
        if (!expandable || !g.src.flip(75)) {
            out.push_back(c);
            continue;
        }
        for (const auto &b : r.base) {
            UnitSpec e;
            e.ref = b.first;
            e.exponent = b.second * c.exponent;
            out.push_back(e);
        }
        if (carriesScale || r.base.empty()) {
            UnitSpec s;
            s.ref = "dimensionless";
            s.prefix = c.prefix;
            s.multiplier = c.multiplier;
            out.push_back(s);
            if (r.log10scale != 0.0) {
                UnitSpec s2;
                s2.ref = "dimensionless";
                s2.prefix = std::to_string(static_cast<int>(r.log10scale));
                out.push_back(s2);
            }
        }
    }
    if (out.empty()) {
        UnitSpec s;
        s.ref = "dimensionless";
        out.push_back(s);
    }
    return out;
}

UnitsSpec genDefinition(GenCtx &g, size_t mi, const std::string &name, const std::vector<std::string> &prev)
{
    Src &src = g.src;
    UnitsSpec u;
    u.name = name;
    unsigned strat = static_cast<unsigned>(src.below(7));
    Probe p(g.w);
    const ModelU &m = g.w.models[mi];
    std::string j = prev.empty() ? std::string() : src.pick(prev);
    bool jOk = !j.empty() && p.depth(m, j) <= 3;
    if (strat == 6) { // fractional exponents (tenths, not exact in binary) that cancel, in a tape-chosen order, next to a carrier
        static const std::vector<std::vector<double>> triples = {{0.1, 0.2, -0.3}, {0.7, -0.4, -0.3}, {0.1, 0.7, -0.8}, {1.1, -0.2, -0.9}, {0.3, 0.6, -0.9}, {0.1, 0.2, 0.7}};
        std::vector<double> t = src.pick(triples);
        size_t rot = src.below(3);
        std::rotate(t.begin(), t.begin() + static_cast<long>(rot), t.end());
        if (src.flip(50)) {
            std::swap(t[0], t[1]);
        }
        std::string x = src.pick(g.palette);
        if ((findUnits(m.spec, x) == nullptr && !isStandardUnit(x)) || p.red(m, x).log10scale != 0.0) {
            x = "metre";
        }
        UnitSpec carrier;
        carrier.ref = jOk && src.flip(50) ? j : g.palette[0];
        if (!g.inRegimeOnly && src.flip(30)) {
            carrier.prefix = genPrefix(src);
        }
        size_t at = src.below(4); // position of the carrier among the fractional children
        for (size_t k = 0; k <= 3; ++k) {
            if (k == at) {
                u.units.push_back(carrier);
            }
            if (k < 3) {
                UnitSpec c;
                c.ref = x;
                c.exponent = t[k];
                u.units.push_back(c);
            }
        }
        return u;
    }
    if (strat == 2 && jOk) { // scaled wrapper
        UnitSpec c;
        c.ref = j;
        if (src.flip(70)) {
            c.prefix = genPrefix(src);
        }
        if (c.prefix.empty() || src.flip(30)) {
            c.multiplier = multipliers()[1 + src.below(multipliers().size() - 1)];
        }
        u.units.push_back(c);
        return u;
    }
    if (strat == 3 && jOk) { // power
        UnitSpec c;
        c.ref = j;
        c.exponent = exponents()[1 + src.below(exponents().size() - 1)];
        UnitsRed r = p.red(m, j);
        if (g.inRegimeOnly) {
            if (!r.defined || r.log10scale != 0.0) {
                c.exponent = 1.0;
                c.prefix = genPrefix(src);
            }
        } else if (src.flip(30)) {
            c.prefix = genPrefix(src);
        }
        u.units.push_back(c);
        return u;
    }
    if (strat == 4) { // expansion of an earlier local compound, or of a palette unit
        const UnitsSpec *of = j.empty() ? nullptr : findUnits(m.spec, j);
        std::vector<UnitSpec> base;
        if (of != nullptr && of->import < 0 && !of->units.empty()) {
            base = of->units;
        } else {
            UnitSpec c;
            c.ref = src.pick(g.palette);
            if (findUnits(m.spec, c.ref) == nullptr && !isStandardUnit(c.ref)) {
                c.ref = paletteCandidates()[0];
            }
            if (src.flip(50)) {
                c.prefix = genPrefix(src);
            }
            base.push_back(c);
        }
        u.units = expansionOf(g, mi, base);
        return u;
    }
    if (strat == 5 && !g.inRegimeOnly) { // respelling: (p u)^e written as (p*e u).u...u - the same unit, but inside the exponent-1 regime
        const UnitsSpec *of = j.empty() ? nullptr : findUnits(m.spec, j);
        if (of != nullptr && of->import < 0) {
            bool changed = false;
            for (const auto &c : of->units) {
                int e = static_cast<int>(c.exponent);
                bool pok = true;
                int pv = prefixValue(c.prefix, &pok);
                if ((c.exponent == 2.0 || c.exponent == 3.0) && pok && pv != 0 && std::abs(pv * e) <= 72 && c.multiplier == 1.0 && p.red(m, c.ref).log10scale == 0.0) {
                    UnitSpec first;
                    first.ref = c.ref;
                    first.prefix = std::to_string(pv * e);
                    u.units.push_back(first);
                    for (int k = 1; k < e; ++k) {
                        UnitSpec plain;
                        plain.ref = c.ref;
                        u.units.push_back(plain);
                    }
                    changed = true;
                } else {
                    u.units.push_back(c);
                }
            }
            if (changed) {
                return u;
            }
            u.units.clear();
        }
        // nothing to respell yet: make a respellable definition (p x)^e over a scale-free palette unit
        UnitSpec c;
        c.ref = src.pick(g.palette);
        if ((findUnits(m.spec, c.ref) == nullptr && !isStandardUnit(c.ref)) || p.red(m, c.ref).log10scale != 0.0) {
            c.ref = "second";
        }
        c.prefix = genPrefix(src);
        c.exponent = src.flip(50) ? 3.0 : 2.0;
        u.units.push_back(c);
        if (src.flip(50)) {
            u.units.push_back(genChild(g, mi, prev));
        }
        return u;
    }
    size_t n = 1 + src.below(4);
    for (size_t i = 0; i < n; ++i) {
        u.units.push_back(genChild(g, mi, prev));
    }
    return u;
}

// ------------------------------------------------------------------------------------------------ construction through the API

struct BuiltWorld
{
    ModelPtr main;
    std::vector<ModelPtr> libs;
    ImporterPtr importer;
    std::map<std::string, UnitsPtr> units; // main model units by name
};

ModelPtr buildUnitsModel(const ModelU &mu, bool reverse, std::map<std::string, UnitsPtr> *out)
{
    auto model = Model::create(mu.id == "M" ? "main" : "lib_" + mu.id);
    std::vector<ImportSourcePtr> imps;
    for (const auto &i : mu.spec.imports) {
        auto imp = ImportSource::create();
        imp->setUrl(i.url);
        imps.push_back(imp);
    }
    std::vector<UnitsPtr> made;
    for (const auto &u : mu.spec.units) {
        auto units = Units::create(u.name);
        if (u.import >= 0) {
            units->setImportSource(imps[static_cast<size_t>(u.import)]);
            units->setImportReference(u.importRef);
        }
        size_t k = 0;
        for (const auto &c : u.units) {
            auto pe = prefixEnum().find(c.prefix);
            bool isInt = !c.prefix.empty() && pe == prefixEnum().end() && c.prefix[0] != '+';
            if (c.prefix.empty() && c.multiplier == 1.0 && c.exponent == 1.0 && k % 2 == 0) {
                units->addUnit(c.ref);
            } else if (c.prefix.empty() && c.multiplier == 1.0 && k % 2 == 1) {
                units->addUnit(c.ref, c.exponent);
            } else if (pe != prefixEnum().end() && k % 2 == 0) {
                units->addUnit(c.ref, pe->second, c.exponent, c.multiplier);
            } else if (isInt && k % 2 == 0) {
                units->addUnit(c.ref, atoi(c.prefix.c_str()), c.exponent, c.multiplier);
            } else {
                units->addUnit(c.ref, c.prefix, c.exponent, c.multiplier);
            }
            ++k;
        }
        made.push_back(units);
        if (out != nullptr) {
            (*out)[u.name] = units;
        }
    }
    if (reverse) {
        std::reverse(made.begin(), made.end());
    }
    for (const auto &u : made) {
        model->addUnits(u);
    }
    return model;
}

BuiltWorld buildWorld(const World &w, bool reverse)
{
    BuiltWorld b;
    b.main = buildUnitsModel(w.models[0], reverse, &b.units);
    b.importer = Importer::create();
    for (size_t i = 1; i < w.models.size(); ++i) {
        b.libs.push_back(buildUnitsModel(w.models[i], reverse, nullptr));
        b.importer->addModel(b.libs.back(), w.models[i].url);
    }
    if (w.resolve && !w.models[0].spec.imports.empty()) {
        // Libraries are resolved explicitly, deepest first: Importer::resolveImports on the main model alone does not
        // reach an import that sits below a *local* child of the imported units (an import-resolution matter, C07).
        for (size_t i = b.libs.size(); i >= 1; --i) {
            if (w.models[i].id != "LX" && !w.models[i].spec.imports.empty()) {
                b.importer->resolveImports(b.libs[i - 1], "/nonexistent-c08/");
            }
        }
        for (size_t i = 1; i < w.models.size(); ++i) {
            if (w.models[i].id == "LX" && !w.models[i].spec.imports.empty()) {
                b.importer->resolveImports(b.libs[i - 1], "/nonexistent-c08/");
            }
        }
        b.importer->resolveImports(b.main, "/nonexistent-c08/");
    }
    return b;
}

// ------------------------------------------------------------------------------------------------ text

std::string childText(const UnitSpec &c)
{
    std::ostringstream o;
    if (c.multiplier != 1.0) {
        o << fmtDouble(c.multiplier) << "*";
    }
    o << "(" << (c.prefix.empty() ? "" : c.prefix + " ") << c.ref << ")";
    if (c.exponent != 1.0) {
        o << "^" << fmtDouble(c.exponent);
    }
    return o.str();
}

std::string worldText(const World &w)
{
    std::ostringstream o;
    for (const auto &m : w.models) {
        o << (m.id == "M" ? std::string("main model") : "library " + m.id + " (" + m.url + ")") << (m.id == "M" ? (w.resolve ? " [imports resolved]" : " [imports NOT resolved]") : "") << "\n";
        for (const auto &u : m.spec.units) {
            o << "  units " << u.name;
            if (u.import >= 0) {
                o << " = import " << m.spec.imports[static_cast<size_t>(u.import)].url << "#" << u.importRef;
            } else if (u.units.empty()) {
                o << " (base unit)";
            } else {
                o << " =";
                for (const auto &c : u.units) {
                    o << " " << childText(c);
                }
            }
            o << "\n";
        }
    }
    return o.str();
}

// ------------------------------------------------------------------------------------------------ members of the pair universe

struct Member
{
    std::string label; // "u3", "std:metre", "null", "orphan"
    std::string qname; // name in the reference universe
    UnitsPtr obj;
    UnitsRed red, redCopy;
    Traits traits;
    int depth = 0;
    bool inMain = false; // a units of the main model (usable in consumer models)
    bool standard = false;
    bool userBase = false; // a user-defined base unit appears in the reduction
    bool residue = false; // an exponent of the reference reduction sums to zero only up to rounding
    bool parentless = false; // a units that belongs to no model
    bool undefinedBehindImport = false; // an import that resolves, to a definition with a dangling reference
    int derivedFrom = -1; // member index
    std::string derivedKind; // child-permutation | wrap | import-indirection
};

bool relClose(double a, double b, double tol)
{
    return std::fabs(a - b) <= tol * std::max(std::fabs(a), std::fabs(b));
}

// Exponents are sums of products of decimal fractions: equal means equal to 1e-9 (generated exponents are multiples
// of 0.1 or 0.5 nested at most four deep, so two different exponents differ by at least 1e-4).
const double EXP_TOL = 1e-9;

bool sameBaseT(const UnitsRed &a, const UnitsRed &b)
{
    if (!a.defined || !b.defined) {
        return false;
    }
    for (const auto &x : a.base) {
        auto it = b.base.find(x.first);
        if (std::fabs(x.second - (it == b.base.end() ? 0.0 : it->second)) > EXP_TOL) {
            return false;
        }
    }
    for (const auto &x : b.base) {
        if (a.base.find(x.first) == a.base.end() && std::fabs(x.second) > EXP_TOL) {
            return false;
        }
    }
    return true;
}

// Removes what rounding left of an exponent that sums to zero; true when there was such a residue.
bool dropResidues(UnitsRed &r)
{
    bool any = false;
    for (auto it = r.base.begin(); it != r.base.end();) {
        if (std::fabs(it->second) <= EXP_TOL) {
            any = true;
            it = r.base.erase(it);
        } else {
            ++it;
        }
    }
    return any;
}

std::string classOfPair(const Member &a, const Member &b)
{
    if (a.obj == nullptr || b.obj == nullptr) {
        return "null";
    }
    if (!a.red.defined || !b.red.defined) {
        bool behind = (!a.red.defined && a.undefinedBehindImport) || (!b.red.defined && b.undefinedBehindImport);
        bool parentless = (!a.red.defined && a.parentless) || (!b.red.defined && b.parentless);
        return behind ? "undefined-behind-resolved-import" : parentless ? "undefined-parentless" : "undefined";
    }
    if (a.residue || b.residue || a.traits.fractional || b.traits.fractional) {
        // exponents that are not exact in binary (tenths): sums that should be 0 or 3 leave 1e-17 behind, depending on
        // the order of the children and on where an outer exponent is multiplied in
        return "exponent-rounding-residue";
    }
    if ((a.standard && a.red.log10scale != 0.0) || (b.standard && b.red.log10scale != 0.0)) {
        return "standard-units-with-scale"; // a Units object that *is* gram or litre (what a variable with units="litre" holds)
    }
    if (a.traits.importRevisit || b.traits.importRevisit) {
        return "import-revisited-after-chain";
    }
    if (a.traits.importExpPath || b.traits.importExpPath) {
        return "import-child-exponent";
    }
    if (a.traits.importInvolved || b.traits.importInvolved) {
        return "imported";
    }
    if (a.userBase || b.userBase) {
        return "user-base";
    }
    return "local";
}

std::string regimeBreaker(const Member &a, const Member &b)
{
    bool p = a.traits.prefixOutOfRegime || b.traits.prefixOutOfRegime;
    bool m = a.traits.multiplierOutOfRegime || b.traits.multiplierOutOfRegime;
    return std::string("exp!=1&") + (p && m ? "prefix&multiplier" : p ? "prefix" : m ? "multiplier" : "nested-scale");
}

// which attribute takes a definition out of the exponent-1 regime (for localisation only)
void regimeTraits(const RefUniverse &r, UnitsLookup &lk, const std::string &name, Traits &t, int guard = 0)
{
    if (guard > 40) {
        return;
    }
    auto it = r.q.find(name);
    if (it == r.q.end()) {
        return;
    }
    if (it->second.import >= 0) {
        std::string f = r.follow(name);
        if (!f.empty()) {
            regimeTraits(r, lk, f, t, guard + 1);
        }
        return;
    }
    for (const auto &c : it->second.units) {
        if (c.exponent != 1.0) {
            if (!c.prefix.empty() && prefixValue(c.prefix) != 0) {
                t.prefixOutOfRegime = true;
            }
            if (c.multiplier != 1.0) {
                t.multiplierOutOfRegime = true;
            }
        }
        regimeTraits(r, lk, c.ref, t, guard + 1);
    }
}

struct Failures
{
    std::vector<std::pair<std::string, std::string>> list;
    void add(const std::string &sig, const std::string &msg)
    {
        if (list.size() < 64) {
            list.emplace_back(sig, msg);
        }
    }
};

// ------------------------------------------------------------------------------------------------ consumers


struct ConsumerPair
{
    size_t a = 0, b = 0; // member indices
};

void setVarUnits(const VariablePtr &v, const Member &m, const std::map<std::string, UnitsPtr> &units)
{
    if (m.standard) {
        v->setUnits(m.label.substr(4));
    } else {
        v->setUnits(units.at(m.label));
    }
}

std::string issuesText(const LoggerPtr &l)
{
    std::string s;
    for (size_t i = 0; i < l->issueCount() && i < 12; ++i) {
        s += "  [" + std::to_string(static_cast<int>(l->issue(i)->level())) + "] " + l->issue(i)->description() + "\n";
    }
    return s;
}

bool parseHintFactor(const std::string &d, double &k, std::string &raw)
{
    const std::string key = "multiplication factor of 10^";
    size_t p = d.find(key);
    if (p == std::string::npos) {
        return false;
    }
    raw = d.substr(p + key.size());
    if (!raw.empty() && raw.back() == '.') {
        raw.pop_back(); // the full stop that ends the message
    }
    k = strtod(raw.c_str(), nullptr);
    return true;
}

// The number as the message means to print it: six decimals, trailing zeros and a trailing point removed.
std::string sixDecimals(double v)
{
    std::string s = std::to_string(v);
    s.erase(s.find_last_not_of('0') + 1);
    if (!s.empty() && s.back() == '.') {
        s.pop_back();
    }
    return s;
}

// 0 = the hint gives want (to the six decimals it prints), 1 = it is want with its last digit cut off, 2 = something else
int hintAgreement(double kHint, const std::string &raw, double want)
{
    if (std::fabs(kHint - want) <= 2e-6 * std::max(1.0, std::fabs(want))) {
        return 0;
    }
    std::string full = sixDecimals(want);
    if (full.find('.') != std::string::npos && raw == full.substr(0, full.size() - 1)) {
        return 1;
    }
    return 2;
}

struct ConsumerEnv
{
    const World &w;
    const std::vector<Member> &members;
    const std::vector<std::vector<double>> &F; // library scaling factors
    const std::vector<std::vector<char>> &C; // library compatible
    bool probe;
    bool reverse;
    Failures &fails;
    Case &c;
};

// The worlds are acyclic by construction and every import is resolved when consumers are built: a report of a units
// cycle or of an import cycle is a wrong verdict of the Validator (and of the Analyser, which validates first) on a valid
// model. It is reported with its own signature and the rest of the consumer model is not judged.
//   history: "Cyclic units exist" for a units referenced twice that reaches an import, and for names that coincide across
//   models (repaired in /repo by 339068d); "Cyclic dependencies were found" from validateUnits' never-popped import
//   history (made worse by c498b68: every second reference to an imported units; notes/C08-fix-5.diff).
bool falseCycleReport(ConsumerEnv &e, const std::string &site, const std::string &d)
{
    if (d.find("Cyclic units exist") != std::string::npos) {
        e.fails.add("C08.consumer-verdict|" + site + "|false-units-cycle-report", d);
        return true;
    }
    if (d.find("Cyclic dependencies were found") != std::string::npos) {
        e.fails.add("C08.consumer-verdict|" + site + "|false-import-cycle-report", d);
        return true;
    }
    return false;
}

// Validator: units-mismatch issue on the connection iff incompatible; hint factor consistent.
void consumerValidator(ConsumerEnv &e, const std::vector<ConsumerPair> &pairs, bool flatten)
{
    if (pairs.empty()) {
        return;
    }
    BuiltWorld b = buildWorld(e.w, e.reverse);
    for (size_t k = 0; k < pairs.size(); ++k) {
        auto ca = Component::create("va" + std::to_string(k));
        auto cb = Component::create("vb" + std::to_string(k));
        auto x = Variable::create("x");
        auto x2 = Variable::create("x2");
        setVarUnits(x, e.members[pairs[k].a], b.units);
        setVarUnits(x2, e.members[pairs[k].b], b.units);
        x->setInterfaceType("public");
        x2->setInterfaceType("public");
        ca->addVariable(x);
        cb->addVariable(x2);
        b.main->addComponent(ca);
        b.main->addComponent(cb);
        Variable::addEquivalence(x, x2);
    }
    ModelPtr model = b.main;
    const std::string site = flatten ? "validator-flattened" : "validator";
    if (flatten) {
        model = b.importer->flattenModel(b.main);
        if (model == nullptr) {
            e.fails.add("C08.harness|flatten-null", "flattenModel returned null\n" + issuesText(b.importer));
            return;
        }
        e.c.cls("consumer:flattened");
    }
    auto v = Validator::create();
    v->validateModel(model);
    e.c.count("consumer_validator_models");
    e.c.cls("consumer:validator");
    std::vector<int> reported(pairs.size(), 0);
    std::vector<std::string> text(pairs.size());
    std::string unexpected;
    for (size_t i = 0; i < v->issueCount(); ++i) {
        auto is = v->issue(i);
        std::string d = is->description();
        size_t p = d.find("' in component 'v");
        size_t k = p == std::string::npos ? pairs.size() : static_cast<size_t>(atoi(d.c_str() + p + 18));
        if (is->referenceRule() != Issue::ReferenceRule::MAP_VARIABLES_ELEMENT || d.find("non-matching units") == std::string::npos || k >= pairs.size()) {
            if (unexpected.empty() || d.find("Cyclic") != std::string::npos) {
                unexpected = d;
            }
            continue;
        }
        ++reported[k];
        text[k] = d;
    }
    if (!unexpected.empty()) {
        if (falseCycleReport(e, site, unexpected)) {
            return;
        }
        if (flatten) {
            // the flattened model itself is not valid: a flattening matter (C06), nothing to judge here
            e.c.count("flattened_model_invalid_not_judged");
            return;
        }
        e.fails.add("C08.harness|validator-unexpected-issue", unexpected);
        return;
    }
    for (size_t k = 0; k < pairs.size(); ++k) {
        const Member &A = e.members[pairs[k].a], &B = e.members[pairs[k].b];
        std::string cls = classOfPair(A, B);
        bool imported = A.traits.importInvolved || B.traits.importInvolved;
        bool compatRef = sameBaseT(A.red, B.red);
        std::string what = "x:" + A.label + " ~ x2:" + B.label + " reference compatible=" + (compatRef ? "1" : "0") + " Units::compatible=" + (e.C[pairs[k].a][pairs[k].b] ? "1" : "0") + " issue: " + (reported[k] != 0 ? text[k] : "(none)");
        e.c.count("consumer_validator_pairs");
        std::string loc = (!flatten && imported) ? "imported-units" : cls;
        std::string scaleLoc = (A.traits.scaledRefToMultiLeaf || B.traits.scaledRefToMultiLeaf) && loc != "imported-units" ? "scaled-reference-to-multi-leaf-units" : loc;
        if ((reported[k] != 0) != !compatRef) {
            e.fails.add("C08.consumer-verdict|" + site + "|" + loc, what);
            continue;
        }
        if (reported[k] > 1) {
            e.fails.add("C08.consumer-verdict|" + site + "|reported-twice", what);
            continue;
        }
        if (reported[k] == 0) {
            continue;
        }
        if (flatten) {
            // flattenModel may replace a library units by an equivalent one of the main model with another structure
            // (e.g. metre by metre.metre^0.1.metre^0.2.metre^-0.3), so the localisation of the known once-per-leaf
            // defect of the hint cannot be read off the world: the hint is judged on unflattened models only
            e.c.count("flattened_hint_not_judged");
            continue;
        }
        // scale hint: "u1 over u2" as log10, u1 being the units named first in the message
        bool firstIsA = text[k].find("' in component 'va") < text[k].find("' in component 'vb");
        const Member &U1 = firstIsA ? A : B, &U2 = firstIsA ? B : A;
        size_t i1 = firstIsA ? pairs[k].a : pairs[k].b, i2 = firstIsA ? pairs[k].b : pairs[k].a;
        double kHint = 0.0;
        std::string raw;
        bool present = parseHintFactor(text[k], kHint, raw);
        bool regime = U1.red.exp1Regime && U2.red.exp1Regime;
        if (regime) {
            double kRef = U1.red.log10scale - U2.red.log10scale;
            e.c.count("consumer_validator_hint_judged");
            if (std::fabs(kRef) < 1e-9) {
                if (present && std::fabs(kHint) > 1e-6) {
                    e.fails.add("C08.consumer-scale|" + site + "|" + scaleLoc, what + " expected no scale mismatch");
                } else if (present) {
                    e.c.count("validator_hint_noise");
                }
            } else {
                int ag = present ? hintAgreement(kHint, raw, kRef) : 2;
                if (ag == 1) {
                    e.fails.add("C08.consumer-scale|" + site + "|hint-last-digit-cut", what + " expected multiplication factor 10^" + sixDecimals(kRef));
                } else if (ag == 2) {
                    e.fails.add("C08.consumer-scale|" + site + "|" + scaleLoc, what + " expected multiplication factor 10^" + fmtDouble(kRef));
                }
            }
        } else if (e.probe) {
            // outside the regime only mutual agreement is claimed: compare with what Units gives (compatibility check off)
            double f = Units::scalingFactor(e.members[i2].obj, e.members[i1].obj, false);
            double kUnits = f > 0.0 ? std::log10(f) : NAN;
            bool agree = (present ? hintAgreement(kHint, raw, kUnits) != 2 : std::fabs(kUnits) < 1e-6);
            if (!agree) {
                e.fails.add("C08.consumer-scale|" + site + "|" + (loc == "imported-units" ? loc : regimeBreaker(U1, U2)), what + " Units::scalingFactor (no compatibility check) gives 10^" + fmtDouble(kUnits));
            }
        } else {
            e.c.count("excluded:C08.consumer-scale|validator|exp!=1");
        }
    }
}

// Analyser / Generator: y = x2 across a connection x(a) ~ x2(b) must become y = f(b,a) * x; q = p inside one component
// draws a units warning iff a and b are not equivalent.
void consumerAnalyser(ConsumerEnv &e, const std::vector<ConsumerPair> &pairs, bool flatten)
{
    if (pairs.empty()) {
        return;
    }
    BuiltWorld b = buildWorld(e.w, e.reverse);
    std::vector<char> connected(pairs.size(), 0);
    // One component with all initialised sources, one with everything else and a single math element (the validator
    // inside the analyser parses the MathML DTD once per math element, which dominates the cost of a case).
    auto ca = Component::create("ka");
    auto cb = Component::create("kb");
    std::string math = "<math xmlns=\"http://www.w3.org/1998/Math/MathML\">";
    for (size_t k = 0; k < pairs.size(); ++k) {
        const Member &A = e.members[pairs[k].a], &B = e.members[pairs[k].b];
        bool compat = sameBaseT(A.red, B.red) && e.C[pairs[k].a][pairs[k].b] != 0;
        std::string n = std::to_string(k);
        if (compat) {
            connected[k] = 1;
            auto x = Variable::create("x" + n);
            auto x2 = Variable::create("x2_" + n);
            auto y = Variable::create("y" + n);
            setVarUnits(x, A, b.units);
            setVarUnits(x2, B, b.units);
            setVarUnits(y, B, b.units);
            x->setInitialValue(1.0);
            x->setInterfaceType("public");
            x2->setInterfaceType("public");
            ca->addVariable(x);
            cb->addVariable(x2);
            cb->addVariable(y);
            math += "<apply><eq/><ci>y" + n + "</ci><ci>x2_" + n + "</ci></apply>";
            Variable::addEquivalence(x, x2);
        }
        auto p = Variable::create("p" + n);
        auto q = Variable::create("q" + n);
        setVarUnits(p, A, b.units);
        setVarUnits(q, B, b.units);
        p->setInitialValue(1.0);
        cb->addVariable(p);
        cb->addVariable(q);
        math += "<apply><eq/><ci>q" + n + "</ci><ci>p" + n + "</ci></apply>";
    }
    cb->setMath(math + "</math>");
    b.main->addComponent(ca);
    b.main->addComponent(cb);
    ModelPtr model = b.main;
    const std::string site = flatten ? "analyser-flattened" : "analyser";
    if (flatten) {
        model = b.importer->flattenModel(b.main);
        if (model == nullptr) {
            e.fails.add("C08.harness|flatten-null", "flattenModel returned null\n" + issuesText(b.importer));
            return;
        }
    }
    auto an = Analyser::create();
    an->analyseModel(model);
    auto am = an->model();
    e.c.count("consumer_analyser_models");
    e.c.cls("consumer:analyser");
    std::vector<int> warned(pairs.size(), 0);
    std::vector<std::string> wtext(pairs.size());
    for (size_t i = 0; i < an->issueCount(); ++i) {
        if (falseCycleReport(e, site, an->issue(i)->description())) {
            return;
        }
    }
    if (flatten && am != nullptr && am->type() == AnalyserModel::Type::INVALID) {
        e.c.count("flattened_model_invalid_not_judged");
        return;
    }
    for (size_t i = 0; i < an->issueCount(); ++i) {
        auto is = an->issue(i);
        std::string d = is->description();
        size_t p = d.find("The units in 'q");
        if (is->level() == Issue::Level::WARNING && is->referenceRule() == Issue::ReferenceRule::ANALYSER_UNITS && p != std::string::npos) {
            size_t k = static_cast<size_t>(atoi(d.c_str() + p + 15));
            if (k < pairs.size()) {
                ++warned[k];
                wtext[k] = d;
                continue;
            }
        }
        e.fails.add("C08.harness|analyser-unexpected-issue", d);
    }
    if (am == nullptr || am->type() != AnalyserModel::Type::ALGEBRAIC) {
        e.fails.add("C08.harness|analyser-model-type", "analysed consumer model is not ALGEBRAIC\n" + issuesText(an));
        return;
    }
    auto gen = Generator::create();
    gen->setModel(am);
    std::string code = gen->implementationCode();
    auto varIndex = [&](const std::string &comp, const std::string &name) -> long {
        for (size_t i = 0; i < am->variableCount(); ++i) {
            auto v = am->variable(i)->variable();
            auto pc = std::dynamic_pointer_cast<Component>(v->parent());
            if (v->name() == name && pc != nullptr && pc->name() == comp) {
                return static_cast<long>(i);
            }
        }
        return -1;
    };
    for (size_t k = 0; k < pairs.size(); ++k) {
        const Member &A = e.members[pairs[k].a], &B = e.members[pairs[k].b];
        std::string cls = classOfPair(A, B);
        std::string n = std::to_string(k);
        bool regime = A.red.exp1Regime && B.red.exp1Regime;
        double fUnits = e.F[pairs[k].b][pairs[k].a]; // value in b = f(b,a) * value in a
        double fRef = std::pow(10.0, A.red.log10scale - B.red.log10scale);
        std::string what = "x:" + A.label + " ~ x2:" + B.label + ", y = x2; Units::scalingFactor(" + B.label + "," + A.label + ")=" + fmtDouble(fUnits) + (regime ? " reference " + fmtDouble(fRef) : " (outside the exponent-1 regime)");
        if (connected[k] != 0) {
            e.c.count("consumer_analyser_pairs");
            // --- AST
            AnalyserEquationAstPtr ast;
            for (size_t i = 0; i < am->equationCount(); ++i) {
                auto a = am->equation(i)->ast();
                if (a != nullptr && a->leftChild() != nullptr && a->leftChild()->variable() != nullptr) {
                    auto v = a->leftChild()->variable();
                    auto pc = std::dynamic_pointer_cast<Component>(v->parent());
                    if (v->name() == "y" + n && pc != nullptr && pc->name() == "kb") {
                        ast = a;
                    }
                }
            }
            double fAst = NAN;
            if (ast != nullptr && ast->rightChild() != nullptr) {
                auto r = ast->rightChild();
                if (r->type() == AnalyserEquationAst::Type::CI) {
                    fAst = 1.0;
                } else if (r->type() == AnalyserEquationAst::Type::TIMES && r->leftChild() != nullptr && r->leftChild()->type() == AnalyserEquationAst::Type::CN && r->rightChild() != nullptr
                           && r->rightChild()->type() == AnalyserEquationAst::Type::CI) {
                    fAst = strtod(r->leftChild()->value().c_str(), nullptr);
                }
            }
            // --- generated C code
            double fCode = NAN;
            long yi = varIndex("kb", "y" + n);
            long xi = varIndex("ka", "x" + n);
            if (xi < 0) {
                xi = varIndex("kb", "x2_" + n);
            }
            std::string lhs = "variables[" + std::to_string(yi) + "] = ";
            size_t p = code.find(lhs);
            std::string stmt;
            if (yi >= 0 && xi >= 0 && p != std::string::npos) {
                size_t q = code.find(';', p);
                stmt = code.substr(p + lhs.size(), q - p - lhs.size());
                std::string xv = "variables[" + std::to_string(xi) + "]";
                if (stmt == xv) {
                    fCode = 1.0;
                } else if (stmt.size() > xv.size() + 1 && stmt.compare(stmt.size() - xv.size() - 1, xv.size() + 1, "*" + xv) == 0) {
                    char *end = nullptr;
                    fCode = strtod(stmt.c_str(), &end);
                    if (end != stmt.c_str() + (stmt.size() - xv.size() - 1)) {
                        fCode = NAN;
                    }
                }
            }
            if (std::isnan(fAst)) {
                e.fails.add("C08.harness|analyser-ast-shape", what + "\n" + issuesText(an));
            } else if (std::isnan(fCode)) {
                e.fails.add("C08.harness|generator-statement-shape", what + " statement: " + stmt);
            } else {
                // the analyser leaves factors that are nearly 1 out
                auto agrees = [](double got, double want) { return relClose(got, want, 1e-9) || (got == 1.0 && std::fabs(want - 1.0) < 1e-9); };
                if (!agrees(fCode, fAst)) {
                    e.fails.add("C08.consumer-scale|generator|" + cls, what + " AST factor " + fmtDouble(fAst) + " code: " + stmt);
                }
                bool unitsReliable = true;
                if (unitsReliable) {
                    if (!agrees(fAst, fUnits)) {
                        e.fails.add("C08.consumer-scale|" + site + "|" + cls, what + " AST factor " + fmtDouble(fAst));
                    }
                } else {
                    e.c.count("excluded:analyser-vs-Units|import-revisited-after-chain");
                }
                if (regime) {
                    e.c.count("consumer_analyser_factor_judged");
                    if (!agrees(fAst, fRef)) {
                        e.fails.add("C08.consumer-scale|" + site + "-vs-reference|" + cls, what + " AST factor " + fmtDouble(fAst));
                    }
                }
            }
        }
        // --- units warning of the analyser's own reduction
        bool compatRef = sameBaseT(A.red, B.red);
        if (regime) {
            double dk = A.red.log10scale - B.red.log10scale;
            bool equivalentRef = compatRef && std::fabs(dk) < 1e-9;
            bool borderline = compatRef && std::fabs(dk) < 1e-9 && dk != 0.0;
            e.c.count("consumer_analyser_warning_judged");
            if ((warned[k] != 0) == equivalentRef && !borderline) {
                // the analyser's updateUnitsMultiplier shares the once-per-leaf defect of the validator's hint
                std::string wloc = (A.traits.scaledRefToMultiLeaf || B.traits.scaledRefToMultiLeaf) ? "scaled-reference-to-multi-leaf-units" : cls;
                e.fails.add("C08.consumer-verdict|analyser-units-warning|" + wloc, "p:" + A.label + ", q:" + B.label + ", q = p; reference equivalent=" + (equivalentRef ? "1" : "0") + " warning: " + (warned[k] != 0 ? wtext[k] : "(none)"));
            }
        } else if (e.probe) {
            bool equivalentUnits = Units::equivalent(A.obj, B.obj);
            if ((warned[k] != 0) == equivalentUnits) {
                e.fails.add("C08.consumer-scale|analyser-units-warning|" + regimeBreaker(A, B), "p:" + A.label + ", q:" + B.label + ", q = p; Units::equivalent=" + (equivalentUnits ? "1" : "0") + " warning: " + (warned[k] != 0 ? wtext[k] : "(none)"));
            }
        } else {
            e.c.count("excluded:C08.consumer-scale|analyser-units-warning|exp!=1");
        }
    }
}

// ------------------------------------------------------------------------------------------------ the predicate

void run(Src &src, Case &c)
{
    // ---- plan-shaping choices first
    size_t nUnits = 3 + src.below(10);
    size_t nLibs = src.below(3);
    size_t nBase = src.below(4);
    bool inRegimeOnly = src.below(3) == 0;
    bool undefinedMember = src.flip(12);
    bool unresolved = src.flip(6);
    bool probe = src.flip(6);
    bool orphan = src.flip(25);
    bool reverse = src.flip(30);
    bool collide = src.flip(30);
    size_t nDerived = src.below(4);
    size_t nConsumers = src.below(6); // half of the cases carry no consumer models (they cost 20x the pair matrices)
    nConsumers = nConsumers < 3 ? 0 : nConsumers - 2;

    World w;
    w.resolve = !unresolved;
    w.models.push_back({"M", "", ModelSpec()});
    for (size_t k = 0; k < nLibs; ++k) {
        w.models.push_back({"L" + std::to_string(k), "lib" + std::to_string(k) + ".cellml", ModelSpec()});
    }
    GenCtx g {src, w, {}, inRegimeOnly};
    // user base units of the main model
    for (size_t i = 0; i < nBase; ++i) {
        UnitsSpec b;
        b.name = "ub" + std::to_string(i);
        w.models[0].spec.units.push_back(b);
    }
    // palette
    {
        std::vector<std::string> cand = paletteCandidates();
        size_t n = 2 + src.below(3);
        for (size_t i = 0; i < n; ++i) {
            if (i < nBase && src.flip(50)) {
                g.palette.push_back("ub" + std::to_string(i));
            } else {
                g.palette.push_back(cand[src.below(cand.size())]);
            }
        }
        if (g.palette[0] == g.palette[1]) {
            g.palette[1] = cand[1];
        }
        if (!isStandardUnit(g.palette[0])) {
            std::swap(g.palette[0], g.palette[1]); // palette[0] is the fallback reference: keep it standard when possible
        }
        if (!isStandardUnit(g.palette[0])) {
            g.palette[0] = cand[0];
        }
    }
    // libraries, last first (library k may import from library k+1)
    for (size_t kk = nLibs; kk >= 1; --kk) {
        size_t mi = kk; // index into w.models
        size_t cnt = 2 + src.below(4);
        std::vector<std::string> prev;
        std::set<std::string> importedRefs;
        for (size_t j = 0; j < cnt; ++j) {
            std::string name = collide ? "u" + std::to_string(j) : "w" + std::to_string(kk - 1) + "_" + std::to_string(j);
            UnitsSpec u;
            if (j == 0 && src.flip(50)) {
                u.name = "lb" + std::to_string(kk - 1);
            } else if (kk < nLibs && src.flip(30) && importedRefs.size() < w.models[kk + 1].spec.units.size()) {
                const auto &tu = w.models[kk + 1].spec.units;
                size_t start = src.below(tu.size());
                for (size_t d = 0; d < tu.size(); ++d) {
                    const std::string &r = tu[(start + d) % tu.size()].name;
                    if (importedRefs.insert(r).second) {
                        u.importRef = r;
                        break;
                    }
                }
                u.name = name;
                if (w.models[mi].spec.imports.empty()) {
                    w.models[mi].spec.imports.push_back({w.models[kk + 1].url, ""});
                }
                u.import = 0;
            } else {
                u = genDefinition(g, mi, name, prev);
            }
            w.models[mi].spec.units.push_back(u);
            prev.push_back(u.name);
        }
    }
    // main model
    size_t undefinedAt = undefinedMember ? src.below(nUnits) : nUnits;
    {
        std::vector<std::string> prev;
        for (size_t i = 0; i < nBase; ++i) {
            prev.push_back("ub" + std::to_string(i));
        }
        std::map<size_t, std::set<std::string>> importedRefs; // lib model index -> refs used
        std::map<size_t, int> importIndex; // lib model index -> index in main's imports
        for (size_t i = 0; i < nUnits; ++i) {
            std::string name = "u" + std::to_string(i);
            UnitsSpec u;
            bool made = false;
            if (nLibs > 0 && src.flip(30)) {
                size_t li = 1 + src.below(nLibs);
                const auto &tu = w.models[li].spec.units;
                size_t start = src.below(tu.size());
                for (size_t d = 0; d < tu.size() && !made; ++d) {
                    const std::string &r = tu[(start + d) % tu.size()].name;
                    if (importedRefs[li].insert(r).second) {
                        u.name = name;
                        u.importRef = r;
                        made = true;
                    }
                }
                if (made) {
                    if (importIndex.count(li) == 0) {
                        importIndex[li] = static_cast<int>(w.models[0].spec.imports.size());
                        w.models[0].spec.imports.push_back({w.models[li].url, ""});
                    }
                    u.import = importIndex[li];
                    if (i == undefinedAt) {
                        u.importRef = "missing_ref";
                    }
                }
            }
            if (!made) {
                u = genDefinition(g, 0, name, prev);
                if (i == undefinedAt) {
                    u.units[src.below(u.units.size())].ref = "nope";
                }
            }
            w.models[0].spec.units.push_back(u);
            prev.push_back(name);
        }
    }
    // derived definitions for the metamorphic relations
    struct Derived
    {
        std::string name, of, kind;
    };
    std::vector<Derived> derived;
    {
        std::vector<std::string> compounds;
        for (const auto &u : w.models[0].spec.units) {
            if (u.import >= 0 || !u.units.empty()) {
                compounds.push_back(u.name);
            }
        }
        bool libx = false;
        ModelU lx {"LX", "libx.cellml", ModelSpec()};
        for (size_t d = 0; d < nDerived && !compounds.empty(); ++d) {
            std::string of = src.pick(compounds);
            unsigned kind = static_cast<unsigned>(src.below(3));
            const UnitsSpec *ofs = findUnits(w.models[0].spec, of);
            bool dup = false;
            for (const auto &x : derived) {
                dup = dup || (x.of == of);
            }
            if (dup) {
                continue;
            }
            UnitsSpec u;
            if (kind == 0 && ofs->import < 0 && ofs->units.size() >= 2) {
                u.name = of + "_perm";
                u.units = ofs->units;
                size_t rot = 1 + src.below(u.units.size() - 1);
                std::rotate(u.units.begin(), u.units.begin() + static_cast<long>(rot), u.units.end());
                if (u.units.size() >= 3 && src.flip(50)) {
                    std::swap(u.units[0], u.units[1]);
                }
                derived.push_back({u.name, of, "child-permutation"});
            } else if (kind == 2) {
                if (!libx) {
                    // library LX: a copy of the main model as it is now, every local name prefixed with "x_"
                    libx = true;
                    lx.spec = w.models[0].spec;
                    for (auto &xu : lx.spec.units) {
                        for (auto &ch : xu.units) {
                            if (findUnits(w.models[0].spec, ch.ref) != nullptr) {
                                ch.ref = "x_" + ch.ref;
                            }
                        }
                        xu.name = "x_" + xu.name;
                    }
                }
                u.name = of + "_imp";
                u.importRef = "x_" + of;
                u.import = -2; // patched below
                derived.push_back({u.name, of, "import-indirection"});
            } else {
                u.name = of + "_wrap";
                UnitSpec ch;
                ch.ref = of;
                u.units.push_back(ch);
                derived.push_back({u.name, of, "wrap"});
            }
            w.models[0].spec.units.push_back(u);
        }
        if (libx) {
            // LX must not contain the derived definitions (no import of itself): it was copied before they were added,
            // but later non-import derived ones were added to the main model only. Fine: LX is a snapshot.
            int idx = static_cast<int>(w.models[0].spec.imports.size());
            w.models[0].spec.imports.push_back({lx.url, ""});
            for (auto &u : w.models[0].spec.units) {
                if (u.import == -2) {
                    u.import = idx;
                }
            }
            // the snapshot may have been taken after some derived units were added; drop import-indirection ones from it
            auto &xs = lx.spec.units;
            xs.erase(std::remove_if(xs.begin(), xs.end(), [](const UnitsSpec &x) { return x.import == -2; }), xs.end());
            w.models.push_back(lx);
        }
    }

    // ---- reference
    RefUniverse uni = buildUniverse(w);
    UnitsLookup lkResolve = uni.lookup(false);
    UnitsLookup lkCopy = uni.lookup(true);

    // ---- build through the API
    BuiltWorld built = buildWorld(w, reverse);

    std::vector<Member> members;
    for (const auto &u : w.models[0].spec.units) {
        Member m;
        m.label = u.name;
        m.qname = "M/" + u.name;
        m.obj = built.units.at(u.name);
        m.inMain = true;
        members.push_back(m);
    }
    {
        // two standard units as free-standing Units objects
        std::set<std::string> picked;
        for (int i = 0; i < 2; ++i) {
            std::string n = i == 0 ? g.palette[0] : src.pick(paletteCandidates());
            if (!isStandardUnit(n) || !picked.insert(n).second) {
                continue;
            }
            Member m;
            m.label = "std:" + n;
            m.qname = n;
            m.obj = Units::create(n);
            m.standard = true;
            members.push_back(m);
        }
    }
    UnitsSpec orphanSpec;
    if (orphan) {
        // a units that belongs to no model: defined iff all its references are standard units
        orphanSpec.name = "orphan";
        UnitSpec ch;
        ch.ref = src.flip(50) ? g.palette[0] : std::string("u0");
        ch.prefix = src.flip(50) ? genPrefix(src) : std::string();
        orphanSpec.units.push_back(ch);
        if (src.flip(40)) {
            UnitSpec ch2;
            ch2.ref = src.pick(paletteCandidates());
            ch2.exponent = exponents()[src.below(exponents().size())];
            orphanSpec.units.push_back(ch2);
        }
        UnitsSpec q = orphanSpec;
        q.name = "O/orphan";
        uni.q[q.name] = q; // child reference stays unqualified: only standard names resolve
        Member m;
        m.label = "orphan";
        m.qname = "O/orphan";
        m.obj = Units::create("orphan");
        for (const auto &oc : orphanSpec.units) {
            m.obj->addUnit(oc.ref, oc.prefix, oc.exponent, oc.multiplier);
        }
        m.parentless = true;
        members.push_back(m);
    }
    {
        Member m;
        m.label = "null";
        members.push_back(m);
    }
    const size_t N = members.size();
    for (auto &m : members) {
        if (m.obj == nullptr) {
            m.red.defined = false;
            m.redCopy.defined = false;
            continue;
        }
        if (m.qname == "O/orphan" && !isStandardUnit(orphanSpec.units[0].ref)) {
            m.red.defined = false; // a reference to "u0" from outside any model
            m.redCopy.defined = false;
        } else {
            m.red = reduceUnits(m.qname, lkResolve);
            m.redCopy = reduceUnits(m.qname, lkCopy);
            m.residue = dropResidues(m.red);
            dropResidues(m.redCopy);
        }
        {
            auto qi = uni.q.find(m.qname);
            m.undefinedBehindImport = !m.red.defined && qi != uni.q.end() && qi->second.import >= 0 && !uni.follow(m.qname).empty();
        }
        walkTraits(uni, m.qname, 1.0, m.traits);
        regimeTraits(uni, lkResolve, m.qname, m.traits);
        {
            std::vector<std::pair<std::string, std::string>> epochs;
            m.traits.importRevisit = !walkImportHistory(uni, m.qname, epochs);
        }
        m.depth = depthOf(uni, m.qname);
        for (const auto &b : m.red.base) {
            if (!isStandardUnit(b.first)) {
                m.userBase = true;
            }
        }
    }
    for (const auto &d : derived) {
        for (size_t i = 0; i < N; ++i) {
            if (members[i].label == d.name) {
                for (size_t j = 0; j < N; ++j) {
                    if (members[j].label == d.of) {
                        members[i].derivedFrom = static_cast<int>(j);
                        members[i].derivedKind = d.kind;
                    }
                }
            }
        }
    }

    // ---- text, hash
    {
        std::ostringstream o;
        o << worldText(w);
        if (orphan) {
            o << "free-standing units orphan =";
            for (const auto &oc : orphanSpec.units) {
                o << " " << childText(oc);
            }
            o << "\n";
        }
        o << "pair universe:";
        for (const auto &m : members) {
            o << " " << m.label;
        }
        o << "\nunits added in " << (reverse ? "reverse" : "spec") << " order" << (probe ? "; probe mode (known-finding regimes are compared, not excluded)" : "") << "\n";
        c.text = o.str();
    }
    c.hash = hashStr(c.text);
    c.weight = c.text.size();

    Failures fails;
    // importer sanity (a missing import reference is the only expected complaint)
    if (w.resolve && built.importer->issueCount() != 0 && !undefinedMember) {
        fails.add("C08.harness|importer-issue", issuesText(built.importer));
    }

    // ---- library matrices
    std::vector<std::vector<char>> C(N, std::vector<char>(N, 0)), E(N, std::vector<char>(N, 0));
    std::vector<std::vector<double>> F(N, std::vector<double>(N, 0.0));
    for (size_t i = 0; i < N; ++i) {
        for (size_t j = 0; j < N; ++j) {
            C[i][j] = Units::compatible(members[i].obj, members[j].obj) ? 1 : 0;
            F[i][j] = Units::scalingFactor(members[i].obj, members[j].obj);
            E[i][j] = Units::equivalent(members[i].obj, members[j].obj) ? 1 : 0;
        }
    }
    c.count("pairs", static_cast<long>(N * N));
    // scalingFactor(a, b, false): "ignore base units" - still 0 for undefined / null units, and the same number as with
    // the check for compatible ones. A parentless units with a dangling reference goes through a forked child first:
    // a crash there must not take the worker (and the other findings of the case) with it.
    std::vector<std::vector<double>> F0(N, std::vector<double>(N, 0.0));
    {
        bool safe = true;
        for (size_t i = 0; i < N && safe; ++i) {
            if (members[i].parentless && !members[i].red.defined) {
                struct Arg
                {
                    const std::vector<Member> *members;
                    size_t i;
                } arg {&members, i};
                std::string diag;
                int rc = runIsolated(
                    [](void *pv) {
                        auto *a = static_cast<Arg *>(pv);
                        for (const auto &m : *a->members) {
                            double x = Units::scalingFactor((*a->members)[a->i].obj, m.obj, false);
                            double y = Units::scalingFactor(m.obj, (*a->members)[a->i].obj, false);
                            if (x != 0.0 || y != 0.0) {
                                _exit(3);
                            }
                        }
                    },
                    &arg, 20, &diag);
                if (rc != 0) {
                    safe = false;
                    std::string kind = rc == 3 ? "nonzero" : "crash";
                    fails.add("C08.factor-nocheck|" + kind + "|undefined-parentless", members[i].label + ": scalingFactor(a, x, false) with a units that belongs to no model and refers to a non-standard units: child status " + std::to_string(rc) + "\n" + diag.substr(0, 1500));
                }
            }
        }
        if (safe) {
            for (size_t i = 0; i < N; ++i) {
                for (size_t j = 0; j < N; ++j) {
                    F0[i][j] = Units::scalingFactor(members[i].obj, members[j].obj, false);
                    bool bothDef = members[i].obj != nullptr && members[j].obj != nullptr && members[i].red.defined && members[j].red.defined;
                    std::string cls0 = classOfPair(members[i], members[j]);
                    if (!bothDef && F0[i][j] != 0.0) {
                        fails.add("C08.factor-nocheck|undefined|" + cls0, members[i].label + " vs " + members[j].label + ": scalingFactor(a,b,false)=" + fmtDouble(F0[i][j]) + " for an undefined / null units");
                    } else if (C[i][j] != 0 && F0[i][j] != F[i][j]) {
                        fails.add("C08.factor-nocheck|vs-checked|" + cls0, members[i].label + " vs " + members[j].label + ": scalingFactor(a,b,false)=" + fmtDouble(F0[i][j]) + " scalingFactor(a,b)=" + fmtDouble(F[i][j]));
                    }
                }
            }
            c.count("nocheck_pairs", static_cast<long>(N * N));
        }
    }

    // ---- pair oracles
    bool anyNonTrivial = false;
    long ambiguous = 0;
    for (size_t i = 0; i < N; ++i) {
        for (size_t j = 0; j < N; ++j) {
            const Member &A = members[i], &B = members[j];
            std::string cls = classOfPair(A, B);
            std::string what = A.label + " vs " + B.label;
            bool bothDefined = A.obj != nullptr && B.obj != nullptr && A.red.defined && B.red.defined;
            bool compatRef = bothDefined && sameBaseT(A.red, B.red);
            bool compatCopy = bothDefined && sameBaseT(A.redCopy, B.redCopy);
            double f = F[i][j];
            if (bothDefined && C[i][j] != 0 && ((f == 0.0 && std::isinf(F[j][i])) || (std::isinf(f) && F[j][i] == 0.0))) {
                // 10^(+-308 and more) in the library's own accumulation: pow() underflows one way and overflows the other;
                // the laws are about representable factors
                c.count("factor_overflow_not_judged");
                continue;
            }
            // internal coherence of the three functions (claimed for every input)
            if ((f > 0.0) != (C[i][j] != 0) || (C[i][j] == 0 && f != 0.0) || std::isnan(f)) {
                fails.add("C08.factor-sign|" + cls, what + ": compatible=" + std::to_string(C[i][j]) + " scalingFactor=" + fmtDouble(f));
            }
            if ((E[i][j] != 0) != (C[i][j] != 0 && f == 1.0)) {
                fails.add("C08.equivalent|vs-compatible-and-factor|" + cls, what + ": equivalent=" + std::to_string(E[i][j]) + " compatible=" + std::to_string(C[i][j]) + " scalingFactor=" + fmtDouble(f));
            }
            if (C[i][j] != C[j][i]) {
                fails.add("C08.compatible-symmetry|" + cls, what + ": " + std::to_string(C[i][j]) + " vs " + std::to_string(C[j][i]));
            }
            if (C[i][j] != 0 && !relClose(f * F[j][i], 1.0, 1e-9)) {
                fails.add("C08.factor-inverse|" + cls, what + ": f(a,b)=" + fmtDouble(f) + " f(b,a)=" + fmtDouble(F[j][i]));
            }
            if (!bothDefined) {
                // undefined or null: not compatible with anything, factor 0, not equivalent
                if (C[i][j] != 0 || f != 0.0 || E[i][j] != 0) {
                    fails.add("C08.undefined|" + cls, what + ": compatible=" + std::to_string(C[i][j]) + " scalingFactor=" + fmtDouble(f) + " equivalent=" + std::to_string(E[i][j]));
                }
                continue;
            }
            if (compatRef != compatCopy) {
                // A library's user base unit reached through two import paths, one of them an import of the base unit
                // itself under another name: an import *is* the units it imports (CellML 2.0 import semantics, and what
                // Units does for every non-base units), so the reference that follows imports decides.
                ++ambiguous;
                cls = "imported-base-unit-alias";
                c.cls("has:imported-base-unit-alias-pair");
            }
            if (i != j && std::max(A.depth, B.depth) >= 2 && (A.red.log10scale != 0.0 || B.red.log10scale != 0.0 || A.traits.nonTrivialExponent || B.traits.nonTrivialExponent)) {
                anyNonTrivial = true;
                c.count("nontrivial_pairs");
            }
            if ((C[i][j] != 0) != compatRef) {
                std::ostringstream o;
                o << what << ": Units::compatible=" << int(C[i][j]) << " reference=" << compatRef << " (reference base exponents:";
                for (const auto &b : A.red.base) {
                    o << " " << b.first << "^" << fmtDouble(b.second);
                }
                o << " |";
                for (const auto &b : B.red.base) {
                    o << " " << b.first << "^" << fmtDouble(b.second);
                }
                o << ")";
                fails.add("C08.compatible|" + cls, o.str());
                continue; // values below depend on the verdict
            }
            if (!compatRef) {
                c.cls("has:incompatible-pair");
                continue;
            }
            if (i != j) {
                c.cls("has:compatible-distinct-pair");
            }
            bool regime = A.red.exp1Regime && B.red.exp1Regime;
            double dk = B.red.log10scale - A.red.log10scale; // log10 of scale(b)/scale(a)
            if (regime) {
                c.count("factor_value_judged");
                if (i != j && std::fabs(dk) > 1e-9) {
                    c.cls("has:compatible-scaled-pair-in-regime");
                }
                double want = std::pow(10.0, dk);
                if (!relClose(f, want, 1e-9)) {
                    fails.add("C08.factor-value|" + cls, what + ": scalingFactor(a,b)=" + fmtDouble(f) + " reference scale(b)/scale(a)=" + fmtDouble(want));
                    continue;
                }
                bool eqRef = std::fabs(dk) < 1e-9;
                if ((E[i][j] != 0) != eqRef) {
                    if (f != 1.0 && std::fabs(f - 1.0) < 1e-12) {
                        c.count("equivalent_floating_noise_not_judged");
                    } else {
                        fails.add("C08.equivalent|vs-reference|" + cls, what + ": equivalent=" + std::to_string(E[i][j]) + " reference log10 ratio=" + fmtDouble(dk) + " scalingFactor=" + fmtDouble(f));
                    }
                }
            } else {
                c.count("factor_value_not_claimed_outside_regime");
                c.cls("has:pair-outside-exp1-regime");
            }
        }
    }
    if (ambiguous != 0) {
        c.count("imported_base_unit_alias_pairs", ambiguous);
    }
    // reflexivity
    for (size_t i = 0; i < N; ++i) {
        bool def = members[i].obj != nullptr && members[i].red.defined;
        if ((C[i][i] != 0) != def) {
            fails.add("C08.compatible-reflexive|" + classOfPair(members[i], members[i]), members[i].label + ": compatible(a,a)=" + std::to_string(C[i][i]) + " reference defined=" + std::to_string(def));
        }
    }
    // triples: transitivity and the cocycle law, on the library's own matrices
    long triples = 0;
    for (size_t i = 0; i < N; ++i) {
        for (size_t j = 0; j < N; ++j) {
            if (C[i][j] == 0) {
                continue;
            }
            for (size_t k = 0; k < N; ++k) {
                if (C[j][k] == 0) {
                    continue;
                }
                ++triples;
                if (C[i][k] == 0) {
                    fails.add("C08.compatible-transitive|" + classOfPair(members[i], members[k]), members[i].label + " ~ " + members[j].label + " ~ " + members[k].label + " but not " + members[i].label + " ~ " + members[k].label);
                } else if (std::isfinite(F[i][j] * F[j][k]) && F[i][j] * F[j][k] != 0.0 && std::isfinite(F[i][k]) && F[i][k] != 0.0 && !relClose(F[i][k], F[i][j] * F[j][k], 1e-9)) {
                    fails.add("C08.factor-cocycle|" + classOfPair(members[i], members[k]),
                              members[i].label + "," + members[j].label + "," + members[k].label + ": f(a,c)=" + fmtDouble(F[i][k]) + " f(a,b)*f(b,c)=" + fmtDouble(F[i][j] * F[j][k]));
                }
            }
        }
    }
    c.count("compatible_triples", triples);
    // metamorphic relations
    for (size_t d = 0; d < N; ++d) {
        if (members[d].derivedFrom < 0) {
            continue;
        }
        size_t s = static_cast<size_t>(members[d].derivedFrom);
        const Member &D = members[d], &S = members[s];
        c.cls("metamorphic:" + D.derivedKind);
        if (D.derivedKind == "import-indirection" && (S.userBase || !w.resolve)) {
            // the copy of the main model has base units of its own; an unresolved import is undefined
            c.count("metamorphic_import_not_applicable");
            continue;
        }
        std::string loc = D.derivedKind + ((S.residue || D.residue || S.traits.fractional) ? "|exponent-rounding-residue" : (S.traits.importRevisit || D.traits.importRevisit) ? "|import-revisited-after-chain" : (S.traits.importExpPath || D.traits.importExpPath) ? "|import-child-exponent" : "");
        bool bad = false;
        for (size_t x = 0; x < N && !bad; ++x) {
            if (x == d || x == s) {
                continue;
            }
            if (C[d][x] != C[s][x]) {
                fails.add("C08.metamorphic|" + loc, D.label + " vs " + members[x].label + ": compatible=" + std::to_string(C[d][x]) + " but " + S.label + " vs " + members[x].label + ": " + std::to_string(C[s][x]));
                bad = true;
            }
        }
        bool def = S.red.defined;
        if (!bad && (C[d][s] != 0) != def) {
            fails.add("C08.metamorphic|" + loc, D.label + " vs its source " + S.label + ": compatible=" + std::to_string(C[d][s]) + " (source defined=" + std::to_string(def) + ")");
            bad = true;
        }
        if (!bad && def && S.red.exp1Regime) {
            if (!relClose(F[s][d], 1.0, 1e-9)) {
                fails.add("C08.metamorphic-factor|" + loc, D.label + " vs its source " + S.label + ": scalingFactor=" + fmtDouble(F[s][d]));
            }
        }
        c.count("metamorphic_relations");
    }

    // ---- consumers
    bool anyUndefinedInMain = false, hasImports = !w.models[0].spec.imports.empty();
    for (const auto &m : members) {
        if (m.inMain && !m.red.defined) {
            anyUndefinedInMain = true;
        }
    }
    if (anyUndefinedInMain) {
        c.count("consumers_skipped_undefined_member");
        c.cls("has:undefined");
    } else if (nConsumers == 0) {
        c.cls("consumer:none");
    } else {
        // candidates: members usable as variable units
        std::vector<size_t> usable;
        for (size_t i = 0; i < N; ++i) {
            if (members[i].inMain || members[i].standard) {
                usable.push_back(i);
            }
        }
        std::vector<ConsumerPair> compatiblePairs;
        for (size_t i : usable) {
            for (size_t j : usable) {
                if (i != j && sameBaseT(members[i].red, members[j].red) && sameBaseT(members[i].redCopy, members[j].redCopy)) {
                    compatiblePairs.push_back({i, j});
                }
            }
        }
        // probe mode looks at the known disagreement outside the exponent-1 regime: prefer compatible pairs with one side in it
        std::vector<ConsumerPair> straddling;
        if (probe) {
            for (const auto &p : compatiblePairs) {
                if (members[p.a].red.exp1Regime != members[p.b].red.exp1Regime) {
                    straddling.push_back(p);
                }
            }
        }
        std::vector<ConsumerPair> pairs;
        for (size_t k = 0; k < nConsumers; ++k) {
            ConsumerPair p;
            if (!straddling.empty() && src.below(10) < 7) {
                p = src.pick(straddling);
            } else if (!compatiblePairs.empty() && src.below(10) < 6) {
                p = src.pick(compatiblePairs);
            } else {
                p.a = src.pick(usable);
                p.b = src.pick(usable);
            }
            if (sameBaseT(members[p.a].red, members[p.b].red) != sameBaseT(members[p.a].redCopy, members[p.b].redCopy)) {
                continue;
            }
            pairs.push_back(p);
        }
        // name collisions between the main model and what flattening would pull in are C06's business
        bool collisionFree = true;
        {
            std::set<std::string> names;
            for (const auto &m : w.models) {
                for (const auto &u : m.spec.units) {
                    if (!names.insert(u.name).second) {
                        collisionFree = false;
                    }
                }
            }
        }
        // flattenModel maps a library base unit onto an alias the main model imports for it in some definitions and
        // adds it under its own name for others (order dependent; a flattening matter, C06): pairs over a user base unit
        // stay out of the flattened consumer models when the main model imports a base unit directly
        bool baseAliasInMain = false;
        for (const auto &u : w.models[0].spec.units) {
            if (u.import >= 0) {
                std::string f = uni.follow("M/" + u.name);
                if (!f.empty() && uni.q.at(f).units.empty()) {
                    baseAliasInMain = true;
                }
            }
        }
        std::vector<ConsumerPair> local, imported;
        for (const auto &p : pairs) {
            bool imp = members[p.a].traits.importInvolved || members[p.b].traits.importInvolved;
            if (imp && baseAliasInMain && (members[p.a].userBase || members[p.b].userBase)) {
                c.count("consumers_skipped_flatten_base_unit_alias");
                continue;
            }
            (imp ? imported : local).push_back(p);
        }
        ConsumerEnv env {w, members, F, C, probe, reverse, fails, c};
        std::string ptxt;
        for (const auto &p : pairs) {
            ptxt += " (" + members[p.a].label + "," + members[p.b].label + ")";
        }
        c.text += "consumer pairs:" + ptxt + "\n";
        consumerValidator(env, local, false);
        consumerAnalyser(env, local, false);
        if (!imported.empty()) {
            c.cls("consumer:imported-units");
            if (probe) {
                consumerValidator(env, imported, false);
            } else {
                c.count("excluded:C08.consumer-verdict|validator|imported-units", static_cast<long>(imported.size()));
            }
            if (hasImports && w.resolve && collisionFree) {
                consumerValidator(env, imported, true);
                consumerAnalyser(env, imported, true);
            } else {
                c.count("consumers_skipped_flatten_name_collision", static_cast<long>(imported.size()));
            }
        }
    }

    // ---- classes
    c.nontrivial = anyNonTrivial;
    c.cls("libs=" + std::to_string(nLibs));
    c.cls(inRegimeOnly ? "generator:in-regime-only" : "generator:mixed");
    bool anyImport = false, anyUserBase = false, anyOut = false, anyExpPath = false, anyFractional = false, anyParentlessUndefined = false;
    int maxDepth = 0;
    for (const auto &m : members) {
        anyImport = anyImport || m.traits.importInvolved;
        anyUserBase = anyUserBase || m.userBase;
        anyOut = anyOut || (m.red.defined && !m.red.exp1Regime);
        anyExpPath = anyExpPath || m.traits.importExpPath;
        anyFractional = anyFractional || m.traits.fractional;
        anyParentlessUndefined = anyParentlessUndefined || (m.parentless && !m.red.defined);
        maxDepth = std::max(maxDepth, m.depth);
    }
    if (anyImport) c.cls("imported-units");
    if (anyUserBase) c.cls("user-base-unit");
    if (anyExpPath) c.cls("imported-child-with-exponent");
    if (anyFractional) c.cls("fractional-exponents");
    if (anyParentlessUndefined) c.cls("parentless-undefined-units");
    if (maxDepth >= 3) c.cls("depth>=3");
    if (maxDepth >= 4) c.cls("depth>=4");
    if (unresolved && hasImports) c.cls("imports-unresolved");
    if (probe) c.cls("probe-mode");
    if (orphan) c.cls("free-standing-units");
    c.cls("null");

    // ---- verdict: an unlisted failure takes precedence over listed (known) ones
    if (!fails.list.empty()) {
        c.count("failed_checks_in_case", static_cast<long>(fails.list.size()));
        const std::pair<std::string, std::string> *chosen = nullptr;
        for (const auto &f : fails.list) {
            if (knownFindingIndex(ID, f.first) < 0) {
                chosen = &f;
                break;
            }
        }
        if (chosen == nullptr) {
            chosen = &fails.list.front();
        }
        c.fail(chosen->first, chosen->second);
    }
}

} // namespace

namespace vp {
Property property = {
    "C08",
    "exploration",
    "rapidcheck tapes generate a main model with 3-12 acyclic units definitions (31 standard units, 0-3 user base units, children with named/integer prefixes, exponents from {0,+-0.5,+-1,1.5,+-2,2.5,+-3} plus triples of tenths (0.1,0.2,-0.3 ...) in tape-chosen order that cancel only up to rounding, "
    "positive multipliers, nesting depth <= 4; strategies: fresh / scaled wrapper / power / SI expansion / respelling (p u)^e = (p*e u).u / cancelling fractional exponents), 0-2 in-memory library models (chained imports) resolved through Importer::addModel+resolveImports, "
    "derived definitions (child permutation, {a^1}, import of a renamed copy), two free-standing standard units, in a quarter of the cases a units that belongs to no model (half of them with a dangling reference), an undefined member, unresolved imports, and nullptr. "
    "All ordered pairs and all triples of this universe are judged: reference base-exponent maps (vp::reduceUnits over a qualified-name universe) decide compatible; laws (reflexive/symmetric/transitive, f>0 iff compatible, "
    "f(a,b)f(b,a)=1, f(a,c)=f(a,b)f(b,c), equivalent iff compatible and f==1; scalingFactor(a,b,false) equal to scalingFactor(a,b) for compatible units and 0 for undefined / null ones) on the library's own matrices; in the exponent-1 regime f(a,b)=scale(b)/scale(a) of the reference; 1-3 sampled pairs per case go through "
    "Validator (connection verdict + multiplication-factor hint), Analyser (AST factor, units warning) and Generator (C statement). "
    "Non-trivial: the case has a judged pair of distinct defined units with a definition of depth >= 2 and a non-unit scale or a non-trivial exponent. Distinct = hash of the world text.",
    run,
    nullptr,
    {"exponents are halves (exact in binary) or tenths nested at most four deep: two different exponents differ by >= 1e-4, equal ones by <= 1e-13, and the reference compares them to 1e-9", "multipliers are positive (log10 of the scale exists)",
     "cyclic units are not generated (C01/C07)", "relative tolerance 1e-9 on factors; 0<|f-1|<1e-12 is floating noise of log10/pow and is counted, not judged",
     "an import is the units it imports, also for a base unit imported under another name (the reference follows imports); such pairs are kept out of the *flattened* consumer models, because flattening turns the alias into a base unit of its own; base-unit names never collide across models",
     "consumer checks on flattened models only when no units name occurs in two models (flattening name collisions belong to C06)"},
};
}

// VP-BUILD: flavour=plain
// C18 (domain 2) — the answers of the equivalence queries do not depend on where the Variable objects live.
//
// AnalyserModel::areEquivalentVariables() memoises its answers in a map whose key is computed from the addresses of
// the two Variable objects (variable.get(), i.e. the block returned by `new Variable{...}` in Variable::create()).
// This harness OWNS THE ALLOCATOR: it replaces the global operator new/delete, maps pages at constructed addresses
// with mmap(MAP_FIXED_NOREPLACE) and serves the one allocation of sizeof(libcellml::Variable) made by
// Variable::create() from a chosen 16-byte-aligned address. Address quadruples (a,b),(c,d) come from families that
// defeat lossy pair keys (equal sums, equal xors, equal differences, equal low 32 bits, equal linear combinations,
// same pages, and wrap-around collisions of the Cantor pairing evaluated in 64-bit arithmetic). The model built on
// those objects is valid by construction and really analysed; every ordered pair is then asked in tape-chosen orders.
// Oracle: union-find over the equivalences the harness added. No sanitizer (the allocator is ours), no repo hook.
#include <libcellml>

#include <sys/mman.h>

#include <algorithm>
#include <cerrno>
#include <cstdint>
#include <cstdio>
#include <cstdlib>
#include <cstring>
#include <new>
#include <numeric>
#include <set>
#include <sstream>

#include "prop.h"
#include "spec.h"

// ------------------------------------------------------------------------------------------------ the allocator
namespace c18alloc {
struct Range
{
    uintptr_t lo, hi;
};
static Range gRanges[32];
static int gNRanges = 0;
static uintptr_t gArmedAddr = 0; // next allocation of gArmedSize bytes is served from here
static size_t gArmedSize = 0;
static long gServed = 0;

static inline bool inRanges(const void *p)
{
    auto x = reinterpret_cast<uintptr_t>(p);
    for (int i = 0; i < gNRanges; ++i) {
        if (x >= gRanges[i].lo && x < gRanges[i].hi) {
            return true;
        }
    }
    return false;
}

static inline void *get(std::size_t n)
{
    if (gArmedAddr != 0 && n == gArmedSize) {
        void *p = reinterpret_cast<void *>(gArmedAddr);
        gArmedAddr = 0;
        ++gServed;
        return p;
    }
    return std::malloc(n != 0 ? n : 1);
}

static inline void put(void *p)
{
    if (p == nullptr || inRanges(p)) {
        return; // placed objects live in pages of ours that are unmapped at the end of the case
    }
    std::free(p);
}

static inline void *getAligned(std::size_t n, std::size_t al)
{
    void *p = nullptr;
    if (posix_memalign(&p, al < sizeof(void *) ? sizeof(void *) : al, n != 0 ? n : 1) != 0) {
        return nullptr;
    }
    return p;
}
} // namespace c18alloc

void *operator new(std::size_t n)
{
    void *p = c18alloc::get(n);
    if (p == nullptr) {
        throw std::bad_alloc();
    }
    return p;
}
void *operator new[](std::size_t n)
{
    void *p = std::malloc(n != 0 ? n : 1);
    if (p == nullptr) {
        throw std::bad_alloc();
    }
    return p;
}
void *operator new(std::size_t n, const std::nothrow_t &) noexcept { return c18alloc::get(n); }
void *operator new[](std::size_t n, const std::nothrow_t &) noexcept { return std::malloc(n != 0 ? n : 1); }
void *operator new(std::size_t n, std::align_val_t al)
{
    void *p = c18alloc::getAligned(n, static_cast<std::size_t>(al));
    if (p == nullptr) {
        throw std::bad_alloc();
    }
    return p;
}
void *operator new[](std::size_t n, std::align_val_t al)
{
    void *p = c18alloc::getAligned(n, static_cast<std::size_t>(al));
    if (p == nullptr) {
        throw std::bad_alloc();
    }
    return p;
}
void *operator new(std::size_t n, std::align_val_t al, const std::nothrow_t &) noexcept { return c18alloc::getAligned(n, static_cast<std::size_t>(al)); }
void *operator new[](std::size_t n, std::align_val_t al, const std::nothrow_t &) noexcept { return c18alloc::getAligned(n, static_cast<std::size_t>(al)); }
void operator delete(void *p) noexcept { c18alloc::put(p); }
void operator delete[](void *p) noexcept { c18alloc::put(p); }
void operator delete(void *p, std::size_t) noexcept { c18alloc::put(p); }
void operator delete[](void *p, std::size_t) noexcept { c18alloc::put(p); }
void operator delete(void *p, const std::nothrow_t &) noexcept { c18alloc::put(p); }
void operator delete[](void *p, const std::nothrow_t &) noexcept { c18alloc::put(p); }
void operator delete(void *p, std::align_val_t) noexcept { c18alloc::put(p); }
void operator delete[](void *p, std::align_val_t) noexcept { c18alloc::put(p); }
void operator delete(void *p, std::size_t, std::align_val_t) noexcept { c18alloc::put(p); }
void operator delete[](void *p, std::size_t, std::align_val_t) noexcept { c18alloc::put(p); }
void operator delete(void *p, std::align_val_t, const std::nothrow_t &) noexcept { c18alloc::put(p); }
void operator delete[](void *p, std::align_val_t, const std::nothrow_t &) noexcept { c18alloc::put(p); }

using namespace vp;
using namespace libcellml;

namespace {

using u64 = uint64_t;
using i64 = int64_t;

constexpr u64 kObject = sizeof(libcellml::Variable); // the allocation whose address becomes the cache key
constexpr u64 kMinGap = 48; // distinct objects are at least one glibc chunk (32 + 8, rounded to 16) apart
constexpr u64 kPage = 4096;

// Address windows a Linux x86-64 process really gets objects in: the brk heap of a PIE binary
// (ELF_ET_DYN_BASE 0x555555554000 + up to 2^40 of ASLR) and the mmap area below the stack (thread arenas, large chunks).
// The bottom of the heap window stays clear of where this very binary sits when ASLR is off.
struct Window
{
    const char *name;
    u64 lo, hi;
};
const Window kHeap = {"heap", 0x555600000000ULL, 0x565500000000ULL};
const Window kMmap = {"mmap", 0x7e0000000000ULL, 0x7ffb00000000ULL};

// ---- the key the cache is suspected to use (src/analysermodel.cpp), modelled only to AIM the generator and to label
// cases; the verdict never uses it.
u64 modelledKey(u64 x, u64 y)
{
    u64 v1 = std::min(x, y), v2 = std::max(x, y);
    u64 s = v1 + v2;
    return ((s * (s + 1)) >> 1U) + v2;
}

u64 inverseOdd(u64 a)
{
    u64 x = a; // correct to 3 bits
    for (int i = 0; i < 6; ++i) {
        x *= 2 - a * x;
    }
    return x;
}

// Wrap-around collisions of the Cantor pairing in 64-bit arithmetic.
// key(v1,v2) = (tri(v1+v2) mod 2^63) + v2 with tri(s) = s(s+1)/2. For pairs (a,b), (c,d) with a<b, c<d put
// s1 = a+b, s2 = c+d = s1 + delta, e = b - d. Equal keys <=> delta*s1 + tri(delta) == e (mod 2^63).
// With 16-byte alignment: delta = 32n, s1 = 16q, e = 16f and the condition becomes n(32q + 32n + 1) == f (mod 2^59).
// Write n = 2^v n' (n' odd): f = 2^v f', f' == n' (mod 32), and q is determined modulo 2^(54-v):
//   q == (f' * n'^-1 mod 2^(59-v) - 1)/32 - n.
// So for every (n, f') the sums s1 that collide form the progression s0 + j * 2^(58-v).
struct Progression
{
    u64 s0 = 0, step = 0; // step == 0: none
};
Progression solveCantor(u64 n, i64 fPrime)
{
    Progression r;
    if (n == 0) {
        return r;
    }
    int v = __builtin_ctzll(n);
    u64 nOdd = n >> v;
    if (((static_cast<u64>(fPrime) - nOdd) & 31U) != 0 || v > 40) {
        return r;
    }
    int bits = 59 - v;
    u64 mask = (u64(1) << bits) - 1;
    u64 rhs = (static_cast<u64>(fPrime) * inverseOdd(nOdd)) & mask; // == 1 (mod 32)
    u64 qMask = (u64(1) << (bits - 5)) - 1;
    u64 q = (((rhs - 1) >> 5) - n) & qMask;
    r.s0 = q << 4;
    r.step = u64(1) << (bits - 1); // 16 * 2^(54-v)
    return r;
}

struct Quad
{
    u64 a = 0, b = 0, c = 0, d = 0;
    std::string family, detail;
    bool ok = false;
};

bool apart(u64 x, u64 y)
{
    return x == y || (x > y ? x - y : y - x) >= kMinGap;
}

bool wellFormed(const Quad &q)
{
    const u64 v[4] = {q.a, q.b, q.c, q.d};
    for (u64 x : v) {
        if ((x & 15U) != 0 || x < 0x10000 || x >= 0x7fff00000000ULL) {
            return false;
        }
    }
    for (int i = 0; i < 4; ++i) {
        for (int j = i + 1; j < 4; ++j) {
            if (!apart(v[i], v[j])) {
                return false;
            }
        }
    }
    if (q.a == q.b || q.c == q.d) {
        return false;
    }
    // the two unordered pairs must differ
    return !(std::min(q.a, q.b) == std::min(q.c, q.d) && std::max(q.a, q.b) == std::max(q.c, q.d));
}

// From a colliding sum s1, delta and e: a = h - t, b = h + t (h = s1/2), d = b - e, c = a + delta + e, with t chosen so
// that a < b, c < d and all four blocks are disjoint. tSel picks among the admissible t (0 = tightest).
Quad quadFromSolution(u64 s1, u64 delta, i64 e, u64 tSel, u64 tFloor = 0)
{
    Quad q;
    u64 h = s1 / 2;
    i64 need = static_cast<i64>(delta) + 2 * e; // c < d <=> 2t > delta + 2e
    i64 tMin = std::max<i64>(need / 2 + static_cast<i64>(kMinGap), static_cast<i64>(kMinGap));
    u64 t = std::max(static_cast<u64>(tMin), tFloor);
    // a, b multiples of 16: t == h (mod 16)
    t += ((h & 15U) + 16 - (t & 15U)) & 15U;
    for (int guard = 0; guard < 64; ++guard) {
        u64 tt = t + 16 * (tSel + static_cast<u64>(guard));
        q.a = h - tt;
        q.b = h + tt;
        q.d = static_cast<u64>(static_cast<i64>(q.b) - e);
        q.c = static_cast<u64>(static_cast<i64>(q.a) + static_cast<i64>(delta) + e);
        if (q.a < q.b && q.c < q.d && wellFormed(q)) {
            q.ok = true;
            return q;
        }
    }
    return q;
}

u64 spanOf(const Quad &q)
{
    return std::max({q.a, q.b, q.c, q.d}) - std::min({q.a, q.b, q.c, q.d}) + kObject;
}

// Table of small-span solutions inside the two windows: delta < 512 KiB, |e| <= 512 KiB. Pure function (no input).
struct Solution
{
    u64 s1, delta;
    i64 e;
    u64 span; // of the tightest quadruple
};
std::vector<Solution> gTable;

void buildTable()
{
    if (!gTable.empty()) {
        return;
    }
    const u64 nMax = u64(1) << 14; // delta = 32n < 512 KiB
    const i64 eMax = i64(1) << 19;
    for (u64 n = 1; n < nMax; ++n) {
        int v = __builtin_ctzll(n);
        u64 nOdd = n >> v;
        i64 unit = i64(16) << v; // e = unit * f'
        i64 iMax = eMax / (unit * 32);
        for (i64 i = -iMax - 1; i <= iMax; ++i) {
            i64 fPrime = static_cast<i64>(nOdd & 31U) + 32 * i;
            i64 e = unit * fPrime;
            if (e > eMax || e < -eMax) {
                continue;
            }
            Progression pr = solveCantor(n, fPrime);
            if (pr.step == 0) {
                continue;
            }
            for (const Window *w : {&kHeap, &kMmap}) {
                u64 lo = 2 * w->lo + (u64(1) << 22), hi = 2 * w->hi - (u64(1) << 22);
                u64 s = pr.s0;
                if (s < lo) {
                    s += ((lo - s + pr.step - 1) / pr.step) * pr.step;
                }
                if (s < hi) {
                    Quad q = quadFromSolution(s, 32 * n, e, 0);
                    if (q.ok && modelledKey(q.a, q.b) == modelledKey(q.c, q.d)) {
                        gTable.push_back({s, 32 * n, e, spanOf(q)});
                    }
                }
            }
        }
    }
    std::sort(gTable.begin(), gTable.end(), [](const Solution &x, const Solution &y) {
        return x.span != y.span ? x.span < y.span : x.s1 < y.s1;
    });
}

std::string hex(u64 x)
{
    char b[32];
    snprintf(b, sizeof b, "0x%llx", static_cast<unsigned long long>(x));
    return b;
}

u64 genBase(Src &src, const Window &w)
{
    u64 base = w.lo + (src.below(1u << 15) << 25) + (src.below(1u << 12) << 12);
    return base < w.hi - (u64(1) << 30) ? base : w.lo;
}

Quad genQuad(Src &src, Case &c)
{
    Quad q;
    u64 fam = src.below(12);
    const Window &w = src.flip(50) ? kMmap : kHeap;
    if (fam >= 9) {
        // ---- Cantor wrap-around, solved for a tape-chosen delta = 2^(v+5) * n' (n' odd, steps of 4 MiB and more).
        // For fixed delta the colliding sums are s1 = j*2^(58-v) - delta/2 + 16*i/n' (e = delta/2 + 2^(v+9)*i): they
        // meet every window at least once when 2^(58-v) <= 2^41, i.e. v >= 17; smaller steps are the table's business.
        q.family = "cantor-wrap";
        int v = 17 + static_cast<int>(src.below(8));
        u64 nOdd = 1 + 2 * src.below(4);
        i64 i0 = static_cast<i64>(src.below(5)) - 2;
        u64 jSel = src.below(64);
        u64 tSel = src.below(256);
        int wsel = static_cast<int>(src.below(3)); // 0/1: both objects of a pair in one window, 2: a,c in the heap and b,d in the mmap area
        u64 lo = wsel == 2 ? kHeap.lo + kMmap.lo : 2 * w.lo, hi = wsel == 2 ? kHeap.hi + kMmap.hi : 2 * w.hi;
        lo += u64(1) << 27;
        hi -= u64(1) << 27;
        for (int attempt = 0; attempt < 256 && !q.ok; ++attempt) {
            // deterministic walk over neighbouring parameters until the progression meets the window
            i64 i = i0 + (attempt % 2 == 0 ? attempt / 2 : -(attempt / 2) - 1);
            u64 n = nOdd << v;
            i64 fPrime = static_cast<i64>(nOdd & 31U) + 32 * i;
            Progression pr = solveCantor(n, fPrime);
            if (pr.step == 0) {
                continue;
            }
            u64 s = pr.s0;
            if (s < lo) {
                s += ((lo - s + pr.step - 1) / pr.step) * pr.step;
            }
            if (s >= hi) {
                continue;
            }
            u64 count = (hi - 1 - s) / pr.step + 1;
            s += (jSel % count) * pr.step;
            i64 e = (i64(16) << v) * fPrime;
            u64 tFloor = 0;
            if (wsel == 2) {
                // a = h - t in the heap window and b = h + t in the mmap window
                u64 h = s / 2;
                tFloor = std::max(h > kHeap.hi ? h - kHeap.hi : 0, kMmap.lo > h ? kMmap.lo - h : 0) + (u64(1) << 26);
            }
            q = quadFromSolution(s, 32 * n, e, tSel, tFloor);
            q.family = "cantor-wrap";
            q.detail = "solved: delta=" + hex(32 * n) + " e=" + std::to_string(e) + " s1=" + hex(s) + " step=" + hex(pr.step) + (wsel == 2 ? " (heap+mmap)" : "");
        }
        if (q.ok) {
            c.cls("cantor:solved");
            return q;
        }
        c.count("cantor_solve_fell_back_to_table");
        if (getenv("C18_DEBUG") != nullptr) {
            fprintf(stderr, "fallback v=%d nOdd=%llu i0=%lld wsel=%d jSel=%llu tSel=%llu\n", v, (unsigned long long)nOdd, (long long)i0, wsel, (unsigned long long)jSel, (unsigned long long)tSel);
        }
        fam = 6;
    }
    if (fam >= 6) {
        // ---- Cantor wrap-around, small spans from the table (index 0 = tightest)
        buildTable();
        q.family = "cantor-wrap";
        if (!gTable.empty()) {
            u64 idx = src.below(2) == 0 ? src.below(std::min<u64>(gTable.size(), 32)) : src.below(gTable.size());
            const Solution &s = gTable[idx];
            q = quadFromSolution(s.s1, s.delta, s.e, src.below(8));
            q.family = "cantor-wrap";
            q.detail = "table[" + std::to_string(idx) + "/" + std::to_string(gTable.size()) + "]: delta=" + hex(s.delta) + " e=" + std::to_string(s.e) + " s1=" + hex(s.s1);
            c.cls("cantor:table");
            if (q.ok) {
                return q;
            }
        }
        fam = 0;
    }
    u64 base = genBase(src, w);
    u64 x = 16 * src.below(1u << 12);
    switch (fam) {
    case 0: { // a + b == c + d
        u64 t = 16 * (3 + src.below(1u << 10)), gap = 16 * (3 + src.below(1u << 12));
        q.a = base + x;
        q.c = q.a + t;
        q.d = q.c + gap;
        q.b = q.d + t;
        q.family = "equal-sum";
        break;
    }
    case 1: { // a ^ b == c ^ d
        q.a = base + x;
        q.b = q.a + 16 * (3 + src.below(1u << 14));
        u64 m = 16 * (1 + src.below(1u << 16));
        for (int g = 0; g < 4096; ++g, m += 16) {
            q.c = q.a ^ m;
            q.d = q.b ^ m;
            if (wellFormed(q)) {
                break;
            }
        }
        q.family = "equal-xor";
        break;
    }
    case 2: { // b - a == d - c
        q.a = base + x;
        q.b = q.a + 16 * (3 + src.below(1u << 14));
        u64 t = 16 * (3 + src.below(1u << 16));
        q.c = q.a + t;
        q.d = q.b + t;
        // t may equal b - a: then C is B itself (a shared object, pairs (a,b) and (b,d))
        q.family = "equal-difference";
        break;
    }
    case 3: { // equal low 32 bits (two arenas a multiple of 4 GiB apart)
        q.a = base + x;
        q.b = q.a + 16 * (3 + src.below(1u << 14));
        u64 k1 = src.below(4), k2 = src.below(4);
        if (k1 == 0 && k2 == 0) {
            k1 = 1;
        }
        q.c = q.a + (k1 << 32);
        q.d = q.b + (k2 << 32);
        q.family = "equal-low32";
        break;
    }
    case 4: { // m*a + b == m*c + d  (hash-combine style keys), also with the roles swapped
        static const u64 ms[] = {2, 3, 5, 7, 31, 33, 37, 131, 65599};
        u64 m = ms[src.below(sizeof ms / sizeof ms[0])];
        u64 u = 16 * (3 + src.below(61));
        u64 gap = 16 * (3 + src.below(1u << 12));
        bool onSecond = src.flip(50);
        if (!onSecond) { // m*a + b == m*c + d
            q.a = base + x;
            q.c = q.a + u;
            q.d = q.c + gap;
            q.b = q.d + u * m;
        } else { // a + m*b == c + m*d
            q.c = base + x;
            q.a = q.c + u * m;
            q.b = q.a + gap;
            q.d = q.b + u;
        }
        q.family = "equal-linear";
        q.detail = "m=" + std::to_string(m) + (onSecond ? " (a + m*b)" : " (m*a + b)");
        break;
    }
    default: { // same pages: a,c share a page and b,d share a page
        u64 pa = base, pb = base + kPage * (1 + src.below(1u << 10));
        q.a = pa + 16 * src.below(120);
        q.c = pa + 16 * (125 + src.below(120));
        q.b = pb + 16 * src.below(120);
        q.d = pb + 16 * (125 + src.below(120));
        q.family = "same-page";
        break;
    }
    }
    q.ok = wellFormed(q);
    return q;
}

// ---- pages of ours
struct Pages
{
    std::vector<u64> mapped;
    ~Pages() { release(); }
    bool map(const std::vector<u64> &addrs)
    {
        std::set<u64> pages;
        for (u64 a : addrs) {
            for (u64 p = a & ~(kPage - 1); p < a + kObject; p += kPage) {
                pages.insert(p);
            }
        }
        for (u64 p : pages) {
            void *r = mmap(reinterpret_cast<void *>(p), kPage, PROT_READ | PROT_WRITE, MAP_PRIVATE | MAP_ANONYMOUS | MAP_FIXED_NOREPLACE, -1, 0);
            if (r == MAP_FAILED || reinterpret_cast<u64>(r) != p) {
                if (r != MAP_FAILED) {
                    munmap(r, kPage); // a kernel without MAP_FIXED_NOREPLACE treated the address as a hint
                }
                release();
                return false;
            }
            mapped.push_back(p);
            if (c18alloc::gNRanges < 32) {
                c18alloc::gRanges[c18alloc::gNRanges++] = {p, p + kPage};
            }
        }
        return true;
    }
    void release()
    {
        for (u64 p : mapped) {
            munmap(reinterpret_cast<void *>(p), kPage);
        }
        mapped.clear();
        c18alloc::gNRanges = 0;
        c18alloc::gArmedAddr = 0;
    }
};

VariablePtr createAt(u64 addr, const std::string &name)
{
    c18alloc::gArmedSize = kObject;
    c18alloc::gArmedAddr = addr;
    VariablePtr v = Variable::create(name);
    c18alloc::gArmedAddr = 0;
    return v;
}

struct Affine
{
    u64 n = 1, a = 1, b = 0;
    u64 at(u64 i) const { return (a * i + b) % n; }
};
Affine genAffine(Src &src, u64 n)
{
    Affine f;
    f.n = n == 0 ? 1 : n;
    u64 a = 1 + src.below(std::min<u64>(f.n, 97));
    while (std::gcd(a, f.n) != 1) {
        ++a;
    }
    f.a = a % f.n == 0 ? 1 : a;
    f.b = src.below(f.n);
    return f;
}

void run(Src &src, Case &c)
{
    // ---- plan (all choices first)
    Quad q = genQuad(src, c);
    int scenario = static_cast<int>(src.below(6));
    bool viaPadding = src.flip(30);
    int nPad = static_cast<int>(src.below(3));
    int firstPair = static_cast<int>(src.below(4));
    bool twoModels = src.flip(40);
    u64 coA = src.below(97), coB = src.below(64);
    u64 interleave = src.below(1u << 16);
    // history (read last so that older tapes keep their meaning): after the first model is released, new Variable
    // objects are placed at the SAME addresses with another scenario and analysed by the SAME Analyser. 7 = no recycling.
    int recycleSel = static_cast<int>(src.below(8));
    int scenario2 = recycleSel == 7 ? -1 : (scenario + 1 + recycleSel % 5) % 6;
    // second history (read after it): short-lived variables that are NOT of the analysed model are asked, destroyed, and
    // unrelated variables created at the same two addresses are asked again. bit0/bit1: which sequences; bit2: the
    // short-lived ones belong to another model; 7 = none.
    int foreignSel = static_cast<int>(src.below(8));

    // distinct objects (a pair may share one object with the other pair)
    std::vector<u64> addrs;
    std::vector<std::string> names;
    int ia, ib, ic, id;
    auto slot = [&](u64 addr, const char *name) {
        for (size_t i = 0; i < addrs.size(); ++i) {
            if (addrs[i] == addr) {
                names[i] += std::string("=") + name;
                return static_cast<int>(i);
            }
        }
        addrs.push_back(addr);
        names.emplace_back(name);
        return static_cast<int>(addrs.size() - 1);
    };
    ia = slot(q.a, "A");
    ib = slot(q.b, "B");
    ic = slot(q.c, "C");
    id = slot(q.d, "D");
    const int nPlaced = static_cast<int>(addrs.size());
    int nAll = nPlaced + nPad + (viaPadding ? 1 : 0);
    int via = viaPadding ? nAll - 1 : -1;
    Affine compOrder; // order in which the components (one per variable) are added to the model
    compOrder.n = static_cast<u64>(nAll);
    compOrder.a = 1 + coA % compOrder.n;
    while (std::gcd(compOrder.a, compOrder.n) != 1) {
        ++compOrder.a;
    }
    compOrder.b = coB % compOrder.n;

    static const char *scenarioNames[] = {"A~B only", "C~D only", "A~B and C~D", "no equivalence", "A~C and B~D", "A~B~C"};
    std::vector<std::pair<int, int>> edges;
    std::vector<int> cls;
    // edges and reference classes of a scenario
    auto setScenario = [&](int sc) {
        edges.clear();
        auto link = [&](int x, int y) {
            if (x == y) {
                return;
            }
            if (via >= 0 && edges.empty()) {
                edges.emplace_back(x, via); // the first equivalence is realised through a third variable (indirect)
                edges.emplace_back(via, y);
            } else {
                edges.emplace_back(x, y);
            }
        };
        switch (sc) {
        case 0: link(ia, ib); break;
        case 1: link(ic, id); break;
        case 2: link(ia, ib); link(ic, id); break;
        case 3: break;
        case 4: link(ia, ic); link(ib, id); break;
        default: link(ia, ib); link(ib, ic); break;
        }
        cls.assign(static_cast<size_t>(nAll), 0);
        std::iota(cls.begin(), cls.end(), 0);
        for (bool changed = true; changed;) {
            changed = false;
            for (const auto &e : edges) {
                int m = std::min(cls[static_cast<size_t>(e.first)], cls[static_cast<size_t>(e.second)]);
                if (cls[static_cast<size_t>(e.first)] != m || cls[static_cast<size_t>(e.second)] != m) {
                    cls[static_cast<size_t>(e.first)] = cls[static_cast<size_t>(e.second)] = m;
                    changed = true;
                }
            }
        }
    };
    setScenario(scenario);
    auto direct = [&](int x, int y) {
        for (const auto &e : edges) {
            if ((e.first == x && e.second == y) || (e.first == y && e.second == x)) {
                return true;
            }
        }
        return false;
    };

    bool modelled = q.ok && modelledKey(q.a, q.b) == modelledKey(q.c, q.d);
    std::ostringstream text;
    text << "family=" << q.family << (q.detail.empty() ? "" : " [" + q.detail + "]") << "\nA=" << hex(q.a) << " B=" << hex(q.b) << " C=" << hex(q.c) << " D=" << hex(q.d) << " span=" << (q.ok ? spanOf(q) : 0)
         << " bytes, sizeof(Variable)=" << kObject << "\nmodelled 64-bit Cantor keys: key(A,B)=" << hex(modelledKey(q.a, q.b)) << " key(C,D)=" << hex(modelledKey(q.c, q.d)) << (modelled ? " (equal)" : "")
         << "\nscenario: " << scenarioNames[scenario] << (viaPadding ? " (first equivalence through a third variable)" : "") << ", extra variables=" << nPad << ", component order=affine(" << compOrder.a << "," << compOrder.b
         << "), first asked pair #" << firstPair << ", analyser models=" << (twoModels ? 2 : 1) << ", interleave=" << interleave;
    if (foreignSel != 7) {
        text << "\nforeign variables: sequences=" << ((foreignSel & 3) == 0 ? 3 : (foreignSel & 3)) << ((foreignSel & 4) != 0 ? " (variables of another model)" : " (never added to a model)");
    }
    if (scenario2 >= 0) {
        text << "\nthen: model released, new Variable objects at the same addresses, scenario: " << scenarioNames[scenario2] << ", analysed by the first Analyser again";
    }
    c.text = text.str();
    c.hash = hashStr(c.text);
    c.weight = c.text.size();
    c.cls("family:" + q.family);
    c.cls(std::string("scenario:") + scenarioNames[scenario]);
    if (viaPadding) c.cls("indirect-equivalence");
    if (scenario2 >= 0) c.cls("history:addresses-recycled");
    if (foreignSel != 7) c.cls("history:foreign-variables");
    if (nPlaced < 4) c.cls("shared-object");
    if (modelled) c.cls("modelled-key-collision");
    if (!q.ok) {
        c.count("excluded:ill-formed-quadruple");
        return;
    }
    {
        u64 sp = spanOf(q);
        c.cls(sp < (u64(1) << 16) ? "span<64KiB" : (sp < (u64(1) << 20) ? "span<1MiB" : (sp < (u64(1) << 24) ? "span<16MiB" : "span>=16MiB")));
    }

    Pages pages; // declared first: released after every object placed in it has been destroyed
    // two more slots (below every placed object) for the short-lived variables
    const u64 slot1 = ((*std::min_element(addrs.begin(), addrs.end())) & ~(kPage - 1)) - 2 * kPage + 0x100, slot2 = slot1 + 0x40;
    std::vector<u64> toMap = addrs;
    if (foreignSel != 7) {
        toMap.push_back(slot1);
        toMap.push_back(slot2);
    }
    if (!pages.map(toMap)) {
        c.count("excluded:address-not-mappable");
        c.cls("not-mappable");
        return;
    }
    c.nontrivial = true;

    {
        // ---- build: every variable in a component of its own (siblings, public interface), one initial value per class
        ModelPtr model;
        std::vector<VariablePtr> vars;
        auto build = [&]() -> bool {
            model = Model::create("m");
            vars.assign(static_cast<size_t>(nAll), nullptr);
            for (int i = 0; i < nAll; ++i) {
                std::string name = "x" + std::to_string(i);
                VariablePtr v;
                if (i < nPlaced) {
                    long before = c18alloc::gServed;
                    v = createAt(addrs[static_cast<size_t>(i)], name);
                    if (c18alloc::gServed != before + 1 || reinterpret_cast<u64>(v.get()) != addrs[static_cast<size_t>(i)]) {
                        c.fail("C18.harness|placement", "Variable::create() did not take its object from the armed address " + hex(addrs[static_cast<size_t>(i)]) + " (got " + hex(reinterpret_cast<u64>(v.get())) + ")");
                        return false;
                    }
                } else {
                    v = Variable::create(name);
                }
                v->setUnits("dimensionless");
                v->setInterfaceType("public");
                vars[static_cast<size_t>(i)] = v;
            }
            for (int i = 0; i < nAll; ++i) {
                if (cls[static_cast<size_t>(i)] == i) {
                    vars[static_cast<size_t>(i)]->setInitialValue(static_cast<double>(i + 1));
                }
            }
            for (int k = 0; k < nAll; ++k) {
                int i = static_cast<int>(compOrder.at(static_cast<u64>(k)));
                auto comp = Component::create("c" + std::to_string(i));
                comp->addVariable(vars[static_cast<size_t>(i)]);
                model->addComponent(comp);
            }
            for (size_t k = 0; k < edges.size(); ++k) {
                bool sw = ((interleave >> k) & 1) != 0;
                Variable::addEquivalence(vars[static_cast<size_t>(sw ? edges[k].second : edges[k].first)], vars[static_cast<size_t>(sw ? edges[k].first : edges[k].second)]);
            }
            return true;
        };
        if (!build()) {
            return;
        }

        auto nameOf = [&](int i) { return i < nPlaced ? names[static_cast<size_t>(i)] + "@" + hex(addrs[static_cast<size_t>(i)]) : "x" + std::to_string(i) + "(malloc)"; };
        auto kind = [&](int i, int j, bool expected) -> std::string {
            if (i == j) {
                return "same-variable";
            }
            return expected ? (direct(i, j) ? "false-negative:direct" : "false-negative:indirect") : "false-positive";
        };
        auto checkHas = [&](int i, int j) -> bool {
            if (i == j) {
                return true;
            }
            bool expected = cls[static_cast<size_t>(i)] == cls[static_cast<size_t>(j)];
            bool got = vars[static_cast<size_t>(i)]->hasEquivalentVariable(vars[static_cast<size_t>(j)], true);
            if (got != expected) {
                c.fail("C18.addr-has|" + q.family + "|" + kind(i, j, expected), nameOf(i) + "->hasEquivalentVariable(" + nameOf(j) + ", true) = " + std::to_string(got) + ", expected " + std::to_string(expected));
                return false;
            }
            return true;
        };
        for (int i = 0; i < nAll; ++i) {
            for (int j = 0; j < nAll; ++j) {
                if (!checkHas(i, j)) {
                    return;
                }
            }
        }

        // ---- real analyses
        std::vector<AnalyserPtr> analysers;
        std::vector<AnalyserModelPtr> ams;
        std::string analysisNote;
        bool anyInvalid = false;
        for (int k = 0; k < (twoModels ? 2 : 1); ++k) {
            auto an = Analyser::create();
            an->analyseModel(model);
            auto am = an->model();
            VP_CHECK(c, am != nullptr, "C18.harness|no-analyser-model", "Analyser::model() returned null");
            if (!am->isValid()) {
                anyInvalid = true;
                analysisNote += "analyser model " + std::to_string(k) + " of this valid-by-construction model is " + AnalyserModel::typeAsString(am->type()) + ": " + dumpIssues(an).substr(0, 600) + "\n";
            }
            analysers.push_back(an);
            ams.push_back(am);
        }
        if (anyInvalid) {
            c.cls("analysis-of-valid-model-failed");
        }

        long asked = 0;
        auto checkAm = [&](size_t mIdx, int i, int j) -> bool {
            bool expected = i == j || cls[static_cast<size_t>(i)] == cls[static_cast<size_t>(j)];
            bool got = ams[mIdx]->areEquivalentVariables(vars[static_cast<size_t>(i)], vars[static_cast<size_t>(j)]);
            ++asked;
            if (got != expected) {
                std::ostringstream m;
                m << "AnalyserModel::areEquivalentVariables(" << nameOf(i) << ", " << nameOf(j) << ") = " << got << ", expected " << expected << " (query #" << asked << " on analyser model " << mIdx << ")\n"
                  << c.text << "\n"
                  << analysisNote;
                c.fail("C18.addr|" + q.family + "|" + kind(i, j, expected), m.str());
                return false;
            }
            return true;
        };
        // the two pairs first, in a tape-chosen order and argument order; on a second analyser model the other way round
        const int pairs[4][2] = {{ia, ib}, {ib, ia}, {ic, id}, {id, ic}};
        for (size_t mIdx = 0; mIdx < ams.size(); ++mIdx) {
            for (int k = 0; k < 4; ++k) {
                // firstPair, then the rest cyclically; the second analyser model starts with the other pair
                int sel = (firstPair + k + (mIdx == 0 ? 0 : 2)) % 4;
                if (!checkAm(mIdx, pairs[sel][0], pairs[sel][1])) {
                    return;
                }
            }
        }
        // then every ordered pair, twice, in two affine orders, interleaved with the variable-level query
        u64 total = static_cast<u64>(nAll) * static_cast<u64>(nAll);
        Affine o1 = {total, 1, 0}, o2 = {total, 1, 0};
        {
            u64 a1 = 1 + (interleave % 7), a2 = 1 + ((interleave >> 3) % 11);
            while (std::gcd(a1, total) != 1) {
                ++a1;
            }
            while (std::gcd(a2, total) != 1) {
                ++a2;
            }
            o1.a = a1 % total == 0 ? 1 : a1;
            o2.a = a2 % total == 0 ? 1 : a2;
            o1.b = (interleave >> 5) % total;
            o2.b = (interleave >> 9) % total;
        }
        for (int pass = 0; pass < 2; ++pass) {
            for (u64 k = 0; k < total; ++k) {
                u64 idx = (pass == 0 ? o1 : o2).at(k);
                int i = static_cast<int>(idx / static_cast<u64>(nAll)), j = static_cast<int>(idx % static_cast<u64>(nAll));
                size_t mIdx = ams.size() == 2 ? static_cast<size_t>((k + static_cast<u64>(pass)) & 1U) : 0;
                if (((interleave >> (k % 16)) & 1U) != 0 && !checkHas(i, j)) {
                    return;
                }
                if (!checkAm(mIdx, i, j)) {
                    return;
                }
            }
        }
        c.count("queries:areEquivalentVariables", asked);
        VP_CHECK(c, !anyInvalid, "C18.harness|valid-model-not-analysable", "every query answered correctly but the analysis failed:\n" << analysisNote << c.text);

        // ---- history: variables that are not of the analysed model. The analyser model keeps only its own model alive;
        // a pair of other variables may die and unrelated variables may be born at the same addresses.
        if (foreignSel != 7) {
            int seqs = (foreignSel & 3) == 0 ? 3 : (foreignSel & 3);
            bool otherModel = (foreignSel & 4) != 0;
            // one round: two variables at slot1/slot2, equivalent or not, asked in both argument orders, then destroyed
            auto round = [&](bool equivalent, const char *label) -> bool {
                ModelPtr other;
                VariablePtr g1 = createAt(slot1, "g1"), g2 = createAt(slot2, "g2");
                if (reinterpret_cast<u64>(g1.get()) != slot1 || reinterpret_cast<u64>(g2.get()) != slot2) {
                    c.fail("C18.harness|placement", "short-lived variable not placed at its slot");
                    return false;
                }
                if (otherModel) {
                    other = Model::create("other");
                    auto oc1 = Component::create("oc1"), oc2 = Component::create("oc2");
                    oc1->addVariable(g1);
                    oc2->addVariable(g2);
                    other->addComponent(oc1);
                    other->addComponent(oc2);
                }
                if (equivalent) {
                    Variable::addEquivalence(g1, g2);
                }
                for (size_t mIdx = 0; mIdx < ams.size(); ++mIdx) {
                    for (int rep = 0; rep < 2; ++rep) {
                        for (int dir = 0; dir < 2; ++dir) {
                            bool got = ams[mIdx]->areEquivalentVariables(dir == 0 ? g1 : g2, dir == 0 ? g2 : g1);
                            ++asked;
                            if (got != equivalent) {
                                c.fail(std::string("C18.addr-foreign|") + label + "|" + (equivalent ? "false-negative:direct" : "false-positive"),
                                       std::string("AnalyserModel::areEquivalentVariables on two variables that are ") + (otherModel ? "of another model" : "in no model") + " (" + label + ") at " + hex(slot1) + ", " + hex(slot2) + " = "
                                           + std::to_string(got) + ", expected " + std::to_string(equivalent) + "\n" + c.text);
                                return false;
                            }
                        }
                    }
                }
                bool has = g1->hasEquivalentVariable(g2, true);
                if (has != equivalent) {
                    c.fail(std::string("C18.addr-has|foreign|") + label, "hasEquivalentVariable on the short-lived pair = " + std::to_string(has));
                    return false;
                }
                std::weak_ptr<Variable> w1 = g1, w2 = g2;
                g1.reset();
                g2.reset();
                other.reset();
                if (!w1.expired() || !w2.expired()) {
                    c.fail("C18.harness|not-released", "a short-lived variable is still alive");
                    return false;
                }
                return true;
            };
            if ((seqs & 1) != 0 && !(round(true, "first:equivalent") && round(false, "reborn:unrelated-after-equivalent"))) {
                return;
            }
            if ((seqs & 2) != 0 && !(round(false, "first:unrelated") && round(true, "reborn:equivalent-after-unrelated"))) {
                return;
            }
            // the model's own answers are unaffected
            for (int i = 0; i < nAll; ++i) {
                for (int j = 0; j < nAll; ++j) {
                    if (!checkAm(static_cast<size_t>((i + j) % static_cast<int>(ams.size())), i, j)) {
                        return;
                    }
                }
            }
        }

        // ---- history: release the model, put new objects at the same addresses, analyse with the first Analyser again
        if (scenario2 >= 0) {
            AnalyserPtr reused = analysers[0];
            std::vector<std::weak_ptr<Variable>> old(vars.begin(), vars.end());
            {
                // the analyser lets go of its analyser model (which holds the model) only at its next analysis
                auto dm = Model::create("d");
                auto dc = Component::create("dc");
                auto dv = Variable::create("dv");
                dv->setUnits("dimensionless");
                dv->setInitialValue(1.0);
                dc->addVariable(dv);
                dm->addComponent(dc);
                reused->analyseModel(dm);
            }
            ams.clear();
            analysers.clear();
            vars.clear();
            model.reset();
            for (const auto &w : old) {
                VP_CHECK(c, w.expired(), "C18.harness|not-released", "a Variable of the first model is still alive after the model, the analyser models and the second analyser were released");
            }
            setScenario(scenario2);
            if (!build()) {
                return;
            }
            reused->analyseModel(model);
            AnalyserModelPtr am = reused->model();
            auto fresh = Analyser::create();
            fresh->analyseModel(model);
            AnalyserModelPtr fam = fresh->model();
            VP_CHECK(c, am != nullptr && fam != nullptr, "C18.harness|no-analyser-model", "Analyser::model() returned null");
            for (u64 k = 0; k < total; ++k) {
                u64 idx = o2.at(k);
                int i = static_cast<int>(idx / static_cast<u64>(nAll)), j = static_cast<int>(idx % static_cast<u64>(nAll));
                bool expected = i == j || cls[static_cast<size_t>(i)] == cls[static_cast<size_t>(j)];
                for (int which = 0; which < 2; ++which) {
                    bool got = (which == 0 ? am : fam)->areEquivalentVariables(vars[static_cast<size_t>(i)], vars[static_cast<size_t>(j)]);
                    ++asked;
                    if (got != expected) {
                        c.fail(std::string("C18.addr-recycled") + (which == 0 ? "" : "-fresh") + "|" + q.family + "|" + kind(i, j, expected),
                               "after recycling the addresses: AnalyserModel::areEquivalentVariables(" + nameOf(i) + ", " + nameOf(j) + ") of the " + (which == 0 ? "re-used" : "fresh") + " Analyser's model = " + std::to_string(got)
                                   + ", expected " + std::to_string(expected) + "\n" + c.text);
                        return;
                    }
                }
                if (!checkHas(i, j)) {
                    return;
                }
            }
            VP_CHECK(c, am->type() == fam->type(), "C18.addr-verdict|recycled|type",
                     "re-used Analyser: " << AnalyserModel::typeAsString(am->type()) << " " << dumpIssues(reused).substr(0, 800) << "\nfresh Analyser: " << AnalyserModel::typeAsString(fam->type()) << " " << dumpIssues(fresh).substr(0, 800) << "\n"
                                          << c.text);
            VP_CHECK(c, dumpIssues(reused) == dumpIssues(fresh), "C18.addr-verdict|recycled|issues", firstDiff(dumpIssues(fresh), dumpIssues(reused)) << "\n" << c.text);
            VP_CHECK(c, am->isValid(), "C18.harness|valid-model-not-analysable", "second (recycled) model: " << dumpIssues(reused).substr(0, 800) << "\n" << c.text);
            c.count("queries:areEquivalentVariables-after-recycling", static_cast<long>(2 * total));
        }
    }
}

void init()
{
    buildTable();
    if (getenv("C18_DUMP_TABLE") != nullptr) {
        fprintf(stderr, "%zu wrap-around solutions with delta < 512 KiB, |e| <= 512 KiB in the heap and mmap windows\n", gTable.size());
        for (size_t i = 0; i < gTable.size(); ++i) {
            Quad q = quadFromSolution(gTable[i].s1, gTable[i].delta, gTable[i].e, 0);
            fprintf(stderr, "%4zu span=%8llu A=%s B=%s C=%s D=%s key=%s\n", i, static_cast<unsigned long long>(gTable[i].span), hex(q.a).c_str(), hex(q.b).c_str(), hex(q.c).c_str(), hex(q.d).c_str(), hex(modelledKey(q.a, q.b)).c_str());
        }
    }
}

} // namespace

namespace vp {
Property property = {
    "C18",
    "exploration",
    "domain 2 of C18 (plain build that owns global operator new/delete): the Variable objects of two pairs (A,B), (C,D) are placed at constructed 16-byte-aligned addresses inside pages mapped with MAP_FIXED_NOREPLACE in the "
    "address ranges Linux gives a PIE heap and the mmap area; families: equal sums, equal xors, equal differences, equal low 32 bits, equal linear combinations, same pages, and 64-bit wrap-around collisions of the Cantor pairing "
    "(solved from n(32q+32n+1) == f mod 2^59, both a table of spans below 1 MiB and tape-chosen larger steps, also with one object of each pair in the heap and one in the mmap area). A valid model (one variable per component, "
    "one initial value per class; scenarios A~B, C~D, both, none, crosswise, A~B~C, optionally through a third variable) is analysed for real and all ordered pairs are asked on one or two analyser models, the two pairs first in "
    "a tape-chosen order. History: the model is then released (the analyser first analyses a dummy model so that it lets go), new Variable objects are placed at the same addresses with a different scenario, "
    "analysed by the first Analyser again and by a fresh one (before that, pairs of short-lived variables that are in no model / in another model are asked on the analyser models, destroyed, "
    "and unrelated variables born at the same two addresses are asked again: equivalent then unrelated, unrelated then equivalent); all pairs are asked on both models and the verdicts must agree. Oracle: the harness's union-find. Every mappable quadruple is non-trivial. Distinct = hash of family, addresses and scenario.",
    run,
    nullptr,
    {"no sanitizer in this harness (the allocator is replaced)", "addresses outside the constructed families are not covered: an arbitrary lossy key would need luck of order 2^-64 per pair",
     "x86-64 Linux address-space layout (47-bit user space, MAP_FIXED_NOREPLACE available)"},
    init,
};
}

// C07 — import resolution terminates, succeeds exactly when possible, reports failures (fault enumeration).
//
// An import graph is pure data (files f0..fn; f0 is the importing model). A reference model written for this harness
// (depth-first search over entity-level dependency edges) decides for every import element of f0 whether it can be
// satisfied. One fault from a catalogue is applied to the data, the files are written to a run-private directory (or
// registered in the importer's library), the library is driven through resolve / flatten / repair / resolve again
// inside a forked child with a per-call time limit, and every observation is compared with the reference verdict.
#include <libcellml>

#include <algorithm>
#include <csignal>
#include <cstdio>
#include <cstdlib>
#include <cstring>
#include <fstream>
#include <functional>
#include <map>
#include <set>
#include <sstream>
#include <sys/resource.h>
#include <sys/stat.h>
#include <unistd.h>

#include "prop.h"
#include "spec.h"

using namespace vp;
using namespace libcellml;

namespace {

// props/C07_ext.cpp includes this file with C07_EXT defined: a second binary with further generator dimensions (added after
// the independent exploration). They live in their own binary so that the saved tapes of props/C07.cpp keep their meaning.
#ifdef C07_EXT
constexpr bool kExt = true;
#else
constexpr bool kExt = false;
#endif

// ================================================================================================ known defects
// Defects of the tree this harness was written against that would otherwise cost a crashed or hung child in a large share
// of the scenarios, or blur every verdict. Whether each is present in the library under test is *probed* once per process
// (probeDefects(), forked children); while present, the generator keeps the trigger out of the routine cases (counted as
// excluded:…) and a sample of cases still lets it through, matched by known_findings.json. When a defect is fixed the probe
// says so and the exclusion disappears by itself; the entry in known_findings.json then has to go.
struct Defects
{
    bool fetchSkipsUnitChildOfLocalUnitChild = true; // resolveImports(): u imported, u = {v}, v = {w}, w imported: w never fetched
    bool fetchSkipsUnitChildOfComponentUnits = true; // c imported, variable of c in v, v = {w}, w imported: w never fetched
    bool fetchSkipsUnitsOfChildComponent = true; // c imported, child d of c with a variable in w, w imported: w never fetched
    bool falseFlattenCycle = true; // flattenModel(): sibling unit imports through the same files are reported as a cycle
    bool unitCycleOverflow = true; // flattenModel(): checkUnitsForCycles() recurses without bound on cyclic ordinary units
    bool flattenAfterCycle = true; // flattenModel() after a failed resolution misses cycles through child components / component units
    bool fetchSkipsChildrenOfNestedImportElement = true; // resolveImports(): in a library file, what is encapsulated below an import element that is itself a child is never fetched
    bool flattenNullChildUnits = true; // flattenModel(): child of an imported component of f0 using imported units of f0: null dereference
    bool shallowFetch() const { return fetchSkipsUnitChildOfLocalUnitChild || fetchSkipsUnitChildOfComponentUnits || fetchSkipsUnitsOfChildComponent || (kExt && fetchSkipsChildrenOfNestedImportElement); }
};
Defects gDef;

// ================================================================================================ graph as data

struct UEnt
{
    std::string name;
    bool imp = false;
    int file = -1; // target file of the import (index into Graph::files), -1 with a non-empty href: a file that never exists
    std::string ref;
    std::string href; // only for imports whose target is not a file of the graph
    std::vector<std::string> kids; // unit children: standard unit names or names of units of the same file
    bool bad = false; // an unknown child element inside the units element: a parser error *related* to these units
};

struct CEnt
{
    std::string name;
    bool imp = false;
    int file = -1;
    std::string ref;
    std::string href;
    std::vector<std::string> varUnits; // one variable per entry
    std::vector<std::string> cnUnits; // one <cn cellml:units=…> per entry
    std::vector<CEnt> kids; // encapsulated children (allowed below imported components too)
    bool bad = false; // an unknown child element inside the component element: a parser error related to this component
};

enum FState
{
    FS_OK,
    FS_MISSING,
    FS_TRUNC,
    FS_NONCELLML,
    FS_NULLENTRY // the file is fine, but after a first resolution its library entry is replaced by a null model (replaceModel(nullptr, key))
};

struct FSpec
{
    std::string dir; // "" or "sub/"
    std::string fname;
    std::string modelName; // "" = m<i>
    int version = 20; // 20 or 11
    bool group = false; // one <import> element per target file instead of one per imported entity
    bool junk = false; // an unknown element below <model>: a parser error that is unrelated to any imported entity
    std::vector<UEnt> units;
    std::vector<CEnt> comps;
    FState state = FS_OK;
    int truncClass = 0; // 0: 0 bytes, 1: inside the XML declaration, 2: inside a start tag, 3: before the closing tag
    unsigned pick = 0; // which start tag (~0u: the last one) / where in the declaration
    unsigned pick2 = 0; // where inside the start tag
    int variant = 0; // which non-CellML document
};

struct Graph
{
    std::vector<FSpec> files;
    bool parserSeesFiles = true; // false: the files are parsed by the harness and registered with addModel(): the importer never sees parser errors
};

bool isStd(const std::string &n)
{
    return n == "second" || n == "metre" || n == "kilogram" || n == "ampere" || n == "dimensionless";
}

const UEnt *findU(const FSpec &f, const std::string &n)
{
    for (const auto &u : f.units) {
        if (u.name == n) {
            return &u;
        }
    }
    return nullptr;
}
UEnt *findU(FSpec &f, const std::string &n)
{
    return const_cast<UEnt *>(findU(static_cast<const FSpec &>(f), n));
}

const CEnt *findC(const std::vector<CEnt> &v, const std::string &n)
{
    for (const auto &c : v) {
        if (c.name == n) {
            return &c;
        }
        if (const CEnt *k = findC(c.kids, n)) {
            return k;
        }
    }
    return nullptr;
}
CEnt *findC(std::vector<CEnt> &v, const std::string &n)
{
    return const_cast<CEnt *>(findC(static_cast<const std::vector<CEnt> &>(v), n));
}

bool eraseC(std::vector<CEnt> &v, const std::string &n)
{
    for (size_t i = 0; i < v.size(); ++i) {
        if (v[i].name == n) {
            v.erase(v.begin() + static_cast<long>(i));
            return true;
        }
        if (eraseC(v[i].kids, n)) {
            return true;
        }
    }
    return false;
}

void allComps(const std::vector<CEnt> &v, std::vector<const CEnt *> &out)
{
    for (const auto &c : v) {
        out.push_back(&c);
        allComps(c.kids, out);
    }
}

// ================================================================================================ serialisation

std::string hrefFromTo(const Graph &g, int from, int to)
{
    const FSpec &a = g.files[static_cast<size_t>(from)];
    const FSpec &b = g.files[static_cast<size_t>(to)];
    // relative path from directory a.dir to b.dir + b.fname (directories are "" or "x/y/")
    auto split = [](const std::string &d) {
        std::vector<std::string> out;
        size_t p = 0;
        while (p < d.size()) {
            size_t q = d.find('/', p);
            out.push_back(d.substr(p, q - p));
            p = q + 1;
        }
        return out;
    };
    std::vector<std::string> da = split(a.dir), db = split(b.dir);
    size_t common = 0;
    while (common < da.size() && common < db.size() && da[common] == db[common]) {
        ++common;
    }
    std::string r;
    for (size_t i = common; i < da.size(); ++i) {
        r += "../";
    }
    for (size_t i = common; i < db.size(); ++i) {
        r += db[i] + "/";
    }
    return r + b.fname;
}

std::string hrefOf(const Graph &g, int from, int file, const std::string &href)
{
    return file >= 0 ? hrefFromTo(g, from, file) : href;
}

// The healthy text of file i (the file-level fault state is applied by fileBytes()).
std::string serialise(const Graph &g, int i)
{
    const FSpec &f = g.files[static_cast<size_t>(i)];
    const bool v11 = f.version == 11;
    const std::string ns = v11 ? "http://www.cellml.org/cellml/1.1#" : "http://www.cellml.org/cellml/2.0#";
    std::ostringstream o;
    o << "<?xml version=\"1.0\" encoding=\"UTF-8\"?>\n";
    o << "<model xmlns=\"" << ns << "\" xmlns:cellml=\"" << ns << "\" xmlns:xlink=\"http://www.w3.org/1999/xlink\" name=\"" << (f.modelName.empty() ? "m" + std::to_string(i) : f.modelName) << "\">\n";
    std::vector<const CEnt *> comps;
    allComps(f.comps, comps);
    // imports
    struct Imp
    {
        std::string href, line;
    };
    std::vector<Imp> imps;
    for (const auto &u : f.units) {
        if (u.imp) {
            imps.push_back({hrefOf(g, i, u.file, u.href), "<units name=\"" + u.name + "\" units_ref=\"" + u.ref + "\"/>"});
        }
    }
    for (const CEnt *c : comps) {
        if (c->imp) {
            imps.push_back({hrefOf(g, i, c->file, c->href), "<component name=\"" + c->name + "\" component_ref=\"" + c->ref + "\"/>"});
        }
    }
    if (f.group) {
        std::vector<std::string> order;
        for (const auto &im : imps) {
            if (std::find(order.begin(), order.end(), im.href) == order.end()) {
                order.push_back(im.href);
            }
        }
        for (const auto &h : order) {
            o << "  <import xlink:href=\"" << h << "\">";
            for (const auto &im : imps) {
                if (im.href == h) {
                    o << im.line;
                }
            }
            o << "</import>\n";
        }
    } else {
        for (const auto &im : imps) {
            o << "  <import xlink:href=\"" << im.href << "\">" << im.line << "</import>\n";
        }
    }
    for (const auto &u : f.units) {
        if (!u.imp) {
            o << "  <units name=\"" << u.name << "\">" << (u.bad ? "<junk/>" : "");
            for (const auto &k : u.kids) {
                o << "<unit units=\"" << k << "\"/>";
            }
            o << "</units>\n";
        }
    }
    bool anyKids = false;
    for (const CEnt *c : comps) {
        anyKids = anyKids || !c->kids.empty();
        if (c->imp) {
            continue;
        }
        o << "  <component name=\"" << c->name << "\">" << (c->bad ? "<junk/>" : "");
        size_t k = 0;
        for (const auto &vu : c->varUnits) {
            o << "<variable name=\"a" << k++ << "\" units=\"" << vu << "\"/>";
        }
        if (c->varUnits.empty()) {
            o << "<variable name=\"a0\" units=\"second\"/>";
        }
        if (!c->cnUnits.empty()) {
            o << "<math xmlns=\"http://www.w3.org/1998/Math/MathML\">";
            for (const auto &cu : c->cnUnits) {
                o << "<apply><eq/><ci>a0</ci><cn cellml:units=\"" << cu << "\">1</cn></apply>";
            }
            o << "</math>";
        }
        o << "</component>\n";
    }
    if (anyKids) {
        std::function<void(const CEnt &)> ref = [&](const CEnt &c) {
            if (c.kids.empty()) {
                o << "<component_ref component=\"" << c.name << "\"/>";
                return;
            }
            o << "<component_ref component=\"" << c.name << "\">";
            for (const auto &k : c.kids) {
                ref(k);
            }
            o << "</component_ref>";
        };
        o << (v11 ? "  <group><relationship_ref relationship=\"encapsulation\"/>" : "  <encapsulation>");
        for (const auto &c : f.comps) {
            if (!c.kids.empty()) {
                ref(c);
            }
        }
        o << (v11 ? "</group>\n" : "</encapsulation>\n");
    }
    if (f.junk) {
        o << "  <junk/>\n";
    }
    o << "</model>\n";
    return o.str();
}

const char *const kNonCellml[] = {
    "<?xml version=\"1.0\" encoding=\"UTF-8\"?>\n<html xmlns=\"http://www.w3.org/1999/xhtml\"><head><title>t</title></head><body><p>not a model</p></body></html>\n",
    "<?xml version=\"1.0\" encoding=\"UTF-8\"?>\n<model name=\"no_namespace\"><units name=\"u\"/><component name=\"c\"/></model>\n",
    "<?xml version=\"1.0\" encoding=\"UTF-8\"?>\n<svg xmlns=\"http://www.w3.org/2000/svg\" width=\"1\" height=\"1\"><rect width=\"1\" height=\"1\"/></svg>\n",
};

// Bytes on disk of file i under its fault state (FS_MISSING: the caller removes the file).
std::string fileBytes(const Graph &g, int i)
{
    const FSpec &f = g.files[static_cast<size_t>(i)];
    std::string t = serialise(g, i);
    if (f.state == FS_NONCELLML) {
        return kNonCellml[static_cast<size_t>(f.variant) % 3];
    }
    if (f.state != FS_TRUNC) {
        return t;
    }
    switch (f.truncClass) {
    case 0:
        return "";
    case 1: {
        size_t declEnd = t.find("?>");
        size_t cut = 1 + f.pick % (declEnd); // 1 .. declEnd: somewhere inside "<?xml … ?" (never the complete declaration)
        return t.substr(0, cut);
    }
    case 2: {
        std::vector<size_t> tags;
        for (size_t p = t.find("?>") + 2; p + 1 < t.size(); ++p) {
            if (t[p] == '<' && isalpha(static_cast<unsigned char>(t[p + 1]))) {
                tags.push_back(p);
            }
        }
        size_t p = f.pick == ~0u ? tags.back() : tags[f.pick % tags.size()];
        size_t e = t.find('>', p);
        size_t inside = 1 + f.pick2 % (e - p - 1); // at least "<", never the closing '>' (nor the '/' before it alone)
        return t.substr(0, p + inside);
    }
    default:
        return t.substr(0, t.rfind("</model>"));
    }
}

// ================================================================================================ reference model

// Edge kinds of the entity-level dependency graph: I import, k unit child, v variable units, n cn units, c child component.
struct Failure
{
    bool hard = true; // false: a dangling *local* reference (unit child / variable units naming units that do not exist);
                      // whether that makes an import "unsatisfiable" is not decided by the statement
    std::string reason; // file-missing | file-truncated | file-not-cellml | file-nonexistent | entity-missing | import-cycle | dangling-local-ref
    std::string path; // edge kinds from the importing element of f0 to the failure
    std::string blindAt; // first pattern of the path the importer's fetch does not follow ("" = fetch reaches the failure)
    int depth = 0; // number of import edges between f0 and the failure
    int cycleLen = 0;
};

struct TopVerdict
{
    char kind; // 'U' | 'C'
    std::string name;
    std::vector<Failure> fails;
    bool unitCycle = false; // meets a cycle of ordinary (non-imported) units
    bool hardVisible() const
    {
        return std::any_of(fails.begin(), fails.end(), [](const Failure &f) { return f.hard && f.blindAt.empty(); });
    }
    bool hardAny() const
    {
        return std::any_of(fails.begin(), fails.end(), [](const Failure &f) { return f.hard; });
    }
    bool softAny() const
    {
        return std::any_of(fails.begin(), fails.end(), [](const Failure &f) { return !f.hard; });
    }
};

struct Eval
{
    std::vector<TopVerdict> tops;
    std::set<std::string> importsFetched, importsBlind; // import entities of files >= 1 reached on a fetched / only on unfetched paths
    std::string firstBlind; // pattern in front of the first import that is only reached on unfetched paths
    int maxDepth = 0;
    bool usesU = false, usesC = false, diamond = false;
    bool siblingUnitImports = false; // some reached local units have two or more children that need an import
    bool nestedUnitsChainWithLocalChild = false; // … -(v|n|k)-> imported units = {imported units = {local units}}: see known_findings.json (flattening regression)
    std::map<int, int> fileVisits;
    long steps = 0;

    bool sat() const
    {
        return std::none_of(tops.begin(), tops.end(), [](const TopVerdict &t) { return !t.fails.empty(); });
    }
    bool unsat() const
    {
        return std::any_of(tops.begin(), tops.end(), [](const TopVerdict &t) { return t.hardAny(); });
    }
    bool unsatVisible() const
    {
        return std::any_of(tops.begin(), tops.end(), [](const TopVerdict &t) { return t.hardVisible(); });
    }
    bool unitCycle() const
    {
        return std::any_of(tops.begin(), tops.end(), [](const TopVerdict &t) { return t.unitCycle; });
    }
    const Failure *firstHard() const
    {
        const Failure *blind = nullptr;
        for (const auto &t : tops) {
            for (const auto &f : t.fails) {
                if (f.hard && f.blindAt.empty()) {
                    return &f;
                }
                if (f.hard && blind == nullptr) {
                    blind = &f;
                }
            }
        }
        return blind;
    }
    std::string blindToken() const
    {
        // localisation of a "library says resolved, reference says not" disagreement
        if (unsat() && !unsatVisible()) {
            return firstHard()->blindAt;
        }
        if (!firstBlind.empty()) {
            return firstBlind;
        }
        return "nothing";
    }
    std::string verdict() const
    {
        if (unsatVisible()) {
            return "UNSAT";
        }
        if (unsat()) {
            return "UNSAT-beyond-fetch";
        }
        if (!sat()) {
            return "AMBIGUOUS";
        }
        return unitCycle() ? "SAT+unit-cycle" : "SAT";
    }
};

// The patterns of edges the importer's fetch does not follow inside an imported file (found by reading fetchUnits /
// fetchComponent; used only to *localise* disagreements and to keep the known ones out of the way, never as the oracle).
std::string blindPattern(const std::string &path)
{
    // kk: unit child of a local unit child; vk / nk: unit child of the (local) units of a variable / cn;
    // cv / cn: units of a variable / cn of a (local) child component
    struct Pat
    {
        const char *p;
        const bool *on;
        const char *tok;
    };
    static const Pat pats[] = {{"kk", &gDef.fetchSkipsUnitChildOfLocalUnitChild, "unit-child-of-local-unit-child"},
                               {"vk", &gDef.fetchSkipsUnitChildOfComponentUnits, "unit-child-of-component-units"},
                               {"nk", &gDef.fetchSkipsUnitChildOfComponentUnits, "unit-child-of-component-units"},
                               {"cv", &gDef.fetchSkipsUnitsOfChildComponent, "units-of-child-component"},
                               {"cn", &gDef.fetchSkipsUnitsOfChildComponent, "units-of-child-component"},
                               {"ce", &gDef.fetchSkipsChildrenOfNestedImportElement, "children-of-nested-import-element"},
                               {"ee", &gDef.fetchSkipsChildrenOfNestedImportElement, "children-of-nested-import-element"}};
    size_t best = std::string::npos;
    std::string tok;
    for (const auto &p : pats) {
        size_t at = *p.on ? path.find(p.p) : std::string::npos;
        if (at != std::string::npos && at < best) {
            best = at;
            tok = p.tok;
        }
    }
    return tok;
}

struct Walker
{
    const Graph &g;
    Eval &ev;
    TopVerdict *top = nullptr;
    struct Frame
    {
        std::string id;
        char edge;
        int file;
        char kind;
        std::string name;
    };
    std::vector<Frame> stack;
    std::function<void(int, char, const std::string &, const std::string &)> onEntity; // (file, kind, name, path) hook for fault enumeration

    static std::string nodeId(int f, char k, const std::string &n) { return std::to_string(f) + k + n; }

    void failure(bool hard, const std::string &reason, const std::string &path, int cycleLen = 0)
    {
        Failure f;
        f.hard = hard;
        f.reason = reason;
        f.path = path;
        f.blindAt = blindPattern(path);
        f.depth = static_cast<int>(std::count(path.begin(), path.end(), 'I'));
        f.cycleLen = cycleLen;
        for (const auto &x : top->fails) {
            if (x.hard == f.hard && x.reason == f.reason && x.path == f.path) {
                return;
            }
        }
        if (top->fails.size() < 64) {
            top->fails.push_back(f);
        }
    }

    // returns false when the node closes a cycle (already handled)
    bool enter(int f, char kind, const std::string &name, char edge, const std::string &path)
    {
        std::string id = nodeId(f, kind, name);
        for (size_t i = 0; i < stack.size(); ++i) {
            if (stack[i].id == id) {
                int imports = edge == 'I' ? 1 : 0;
                for (size_t j = i + 1; j < stack.size(); ++j) {
                    imports += stack[j].edge == 'I' ? 1 : 0;
                }
                if (imports > 0) {
                    failure(true, "import-cycle", path, imports);
                } else {
                    top->unitCycle = true;
                }
                return false;
            }
        }
        stack.push_back({id, edge, f, kind, name});
        ++ev.steps;
        return true;
    }

    // follows an import edge into file `file`; returns false (and records the failure) when it cannot be satisfied
    bool importTarget(int file, const std::string &path)
    {
        ev.maxDepth = std::max(ev.maxDepth, static_cast<int>(std::count(path.begin(), path.end(), 'I')));
        if (file < 0) {
            failure(true, "file-nonexistent", path);
            return false;
        }
        const FSpec &f = g.files[static_cast<size_t>(file)];
        ++ev.fileVisits[file];
        switch (f.state) {
        case FS_MISSING: failure(true, "file-missing", path); return false;
        case FS_TRUNC: failure(true, "file-truncated", path); return false;
        case FS_NONCELLML: failure(true, "file-not-cellml", path); return false;
        case FS_NULLENTRY: failure(true, "library-entry-null", path); return false;
        default: return true;
        }
    }

    void noteImport(int file, char kind, const std::string &name, const std::string &pathBefore)
    {
        if (file == 0) {
            return;
        }
        std::string id = nodeId(file, kind, name);
        std::string b = blindPattern(pathBefore);
        if (b.empty()) {
            ev.importsFetched.insert(id);
        } else {
            blindSeen.emplace(id, b);
        }
    }
    std::map<std::string, std::string> blindSeen;
    size_t importVisits = 0;

    void units(int file, const std::string &name, char edge, const std::string &path)
    {
        if (ev.steps > 200000) {
            return;
        }
        const FSpec &f = g.files[static_cast<size_t>(file)];
        const UEnt *u = findU(f, name);
        if (u == nullptr) {
            failure(edge == 'I', edge == 'I' ? "entity-missing" : "dangling-local-ref", path);
            return;
        }
        if (!enter(file, 'U', name, edge, path)) {
            return;
        }
        if (onEntity) {
            onEntity(file, 'U', name, path);
        }
        if (u->bad && g.parserSeesFiles && f.version != 20) {
            failure(false, "parser-error-in-1.x-file", path);
        } else if (u->bad && g.parserSeesFiles) {
            failure(edge == 'I', edge == 'I' ? "entity-has-parser-error" : "parser-error-in-dependency", path);
        }
        if (!u->imp && path.size() >= 5 && path.compare(path.size() - 4, 4, "IkIk") == 0 && std::strchr("vnk", path[path.size() - 5]) != nullptr) {
            ev.nestedUnitsChainWithLocalChild = true;
        }
        if (u->imp) {
            ++importVisits;
            ev.usesU = true;
            noteImport(file, 'U', name, path);
            if (importTarget(u->file, path + "I")) {
                units(u->file, u->ref, 'I', path + "I");
            }
        } else {
            int needing = 0;
            for (const auto &k : u->kids) {
                if (!isStd(k)) {
                    size_t before = importVisits;
                    units(file, k, 'k', path + "k");
                    needing += importVisits > before ? 1 : 0;
                }
            }
            ev.siblingUnitImports = ev.siblingUnitImports || needing >= 2;
        }
        stack.pop_back();
    }

    void comp(int file, const std::string &name, char edge, const std::string &path)
    {
        if (ev.steps > 200000) {
            return;
        }
        const FSpec &f = g.files[static_cast<size_t>(file)];
        const CEnt *c = findC(f.comps, name);
        if (c == nullptr) {
            failure(true, "entity-missing", path); // components are only ever referenced by imports or by their parent
            return;
        }
        if (!enter(file, 'C', name, edge, path)) {
            return;
        }
        if (onEntity) {
            onEntity(file, 'C', name, path);
        }
        if (c->bad && g.parserSeesFiles && f.version != 20) {
            failure(false, "parser-error-in-1.x-file", path); // what the permissive parser makes of it is not the importer's business
        } else if (c->bad && g.parserSeesFiles) {
            // the importer refuses an import whose referenced entity has a parser error; below that it does not look
            failure(edge == 'I', edge == 'I' ? "entity-has-parser-error" : "parser-error-in-dependency", path);
        }
        if (c->imp) {
            ev.usesC = true;
            noteImport(file, 'C', name, path);
            if (importTarget(c->file, path + "I")) {
                comp(c->file, c->ref, 'I', path + "I");
            }
        } else {
            for (const auto &vu : c->varUnits) {
                if (!isStd(vu)) {
                    units(file, vu, 'v', path + "v");
                }
            }
            for (const auto &cu : c->cnUnits) {
                if (!isStd(cu)) {
                    units(file, cu, 'n', path + "n");
                }
            }
        }
        if (file != 0) { // children of components of f0 that matter are import elements of f0 themselves
            // e: encapsulated below an import element (those components belong to this file, not to the imported one)
            const char kidEdge = c->imp ? 'e' : 'c';
            for (const auto &k : c->kids) {
                comp(file, k.name, kidEdge, path + std::string(1, kidEdge));
            }
        }
        stack.pop_back();
    }
};

Eval evaluate(const Graph &g, const std::function<void(int, char, const std::string &, const std::string &, const std::vector<Walker::Frame> &)> &hook = nullptr)
{
    Eval ev;
    Walker w {g, ev};
    if (hook) {
        w.onEntity = [&](int f, char k, const std::string &n, const std::string &p) { hook(f, k, n, p, w.stack); };
    }
    const FSpec &f0 = g.files[0];
    for (const auto &u : f0.units) {
        if (u.imp) {
            ev.tops.push_back({'U', u.name, {}, false});
        }
    }
    std::vector<const CEnt *> comps;
    allComps(f0.comps, comps);
    for (const CEnt *c : comps) {
        if (c->imp) {
            ev.tops.push_back({'C', c->name, {}, false});
        }
    }
    for (auto &t : ev.tops) {
        w.top = &t;
        w.stack.clear();
        if (t.kind == 'U') {
            w.units(0, t.name, 'T', "");
        } else {
            w.comp(0, t.name, 'T', "");
        }
    }
    for (const auto &b : w.blindSeen) {
        if (ev.importsFetched.count(b.first) == 0) {
            ev.importsBlind.insert(b.first);
            if (ev.firstBlind.empty()) {
                ev.firstBlind = b.second;
            }
        }
    }
    for (const auto &fv : ev.fileVisits) {
        ev.diamond = ev.diamond || fv.second >= 2;
    }
    return ev;
}


// ================================================================================================ fault catalogue

enum FaultKind
{
    K_NONE,
    K_MISSING,
    K_TRUNC0,
    K_TRUNC_DECL,
    K_TRUNC_TAG,
    K_TRUNC_END,
    K_NONCELLML,
    K_REMOVED,
    K_RENAMED,
    K_BACKEDGE,
    K_UNITCYCLE,
    K_BADENTITY, // (C07_ext) a parser error inside the definition of an entity
    K_NULLENTRY, // (C07_ext) after a first resolution the library entry of a file is replaced by a null model
    K_COUNT
};
const char *const kKindName[] = {"none", "file-missing", "truncated-0-bytes", "truncated-in-declaration", "truncated-in-start-tag", "truncated-before-closing-tag",
                                 "not-cellml", "entity-removed", "entity-renamed", "back-edge", "units-cycle", "entity-has-parser-error", "library-entry-null"};

struct Fault
{
    int kind = K_NONE;
    int file = -1;
    char ek = 0; // 'U' | 'C'
    std::string name;
    int toFile = -1; // back-edge target
    std::string toName;
    int len = 0; // cycle length
    unsigned pick = 0, pick2 = 0;
    int variant = 0;
    bool needed = true; // the faulted file / entity is reached from an import element of f0
    bool fetched = true; // ... on a path the importer's fetch follows

    std::string describe() const
    {
        std::ostringstream o;
        o << kKindName[kind];
        if (file >= 0) {
            o << " f" << file;
        }
        if (ek != 0) {
            o << " " << (ek == 'U' ? "units" : "component") << " '" << name << "'";
        }
        if (kind == K_BACKEDGE) {
            o << " now imports '" << toName << "' from f" << toFile << " (cycle of " << len << " import" << (len == 1 ? "" : "s") << ")";
        }
        if (kind == K_UNITCYCLE) {
            o << " put on a cycle of " << len << " ordinary units";
        }
        if (kind == K_TRUNC_DECL || kind == K_TRUNC_TAG) {
            o << " pick=" << pick << "/" << pick2;
        }
        if (kind == K_NONCELLML) {
            o << " variant " << variant;
        }
        if (!needed) {
            o << " [not needed by f0]";
        }
        return o.str();
    }
};

std::vector<Fault> applicableFaults(const Graph &g, bool fileRoute, bool bounded, bool allowBlind)
{
    std::vector<Fault> out;
    out.push_back(Fault());
    std::set<std::string> neededEnt, fetchedEnt;
    struct BE
    {
        int file;
        char k;
        std::string name;
        int toFile;
        std::string toName;
        int len;
        bool fetched;
    };
    std::vector<BE> bes;
    std::set<std::string> beSeen;
    Eval ev = evaluate(g, [&](int f, char k, const std::string &n, const std::string &path, const std::vector<Walker::Frame> &stack) {
        std::string id = Walker::nodeId(f, k, n);
        neededEnt.insert(id);
        bool fetched = blindPattern(path).empty();
        if (fetched) {
            fetchedEnt.insert(id);
        }
        // the entity that gets the back-edge: an import element (redirected) or a leaf definition (becomes an import)
        bool source;
        if (k == 'U') {
            const UEnt *u = findU(g.files[static_cast<size_t>(f)], n);
            source = u->imp || std::all_of(u->kids.begin(), u->kids.end(), isStd);
        } else {
            const CEnt *c = findC(g.files[static_cast<size_t>(f)].comps, n);
            source = c->imp || (c->kids.empty() && std::all_of(c->varUnits.begin(), c->varUnits.end(), isStd) && std::all_of(c->cnUnits.begin(), c->cnUnits.end(), isStd));
        }
        for (size_t i = 0; source && i < stack.size(); ++i) {
            if (stack[i].kind != k) {
                continue;
            }
            int len = 1;
            for (size_t j = i + 1; j < stack.size(); ++j) {
                len += stack[j].edge == 'I' ? 1 : 0;
            }
            std::string key = id + ">" + stack[i].id;
            if (beSeen.insert(key).second) {
                bes.push_back({f, k, n, stack[i].file, stack[i].name, len, fetched});
            } else if (fetched) {
                for (auto &b : bes) {
                    if (b.file == f && b.k == k && b.name == n && b.toFile == stack[i].file && b.toName == stack[i].name) {
                        b.fetched = true;
                    }
                }
            }
        }
    });
    for (size_t j = 1; j < g.files.size(); ++j) {
        int fj = static_cast<int>(j);
        bool needed = ev.fileVisits.count(fj) != 0;
        auto add = [&](int kind, unsigned pick, unsigned pick2, int variant) {
            Fault f;
            f.kind = kind;
            f.file = fj;
            f.pick = pick;
            f.pick2 = pick2;
            f.variant = variant;
            f.needed = needed;
            out.push_back(f);
        };
        add(K_MISSING, 0, 0, 0);
        if (fileRoute) {
            add(K_TRUNC0, 0, 0, 0);
            add(K_TRUNC_DECL, 17, 0, 0);
            add(K_TRUNC_TAG, 0, 2, 0); // "<mod"
            add(K_TRUNC_TAG, ~0u, 5, 0); // inside the last start tag of the document
            add(K_TRUNC_END, 0, 0, 0);
            add(K_NONCELLML, 0, 0, 0);
            add(K_NONCELLML, 0, 0, 1);
            if (!bounded) {
                add(K_NONCELLML, 0, 0, 2);
            }
        }
        const FSpec &f = g.files[j];
        for (const auto &u : f.units) {
            for (int kind : {K_REMOVED, K_RENAMED}) {
                Fault x;
                x.kind = kind;
                x.file = fj;
                x.ek = 'U';
                x.name = u.name;
                x.needed = neededEnt.count(Walker::nodeId(fj, 'U', u.name)) != 0;
                out.push_back(x);
            }
            if (!u.imp) {
                for (int len = 1; len <= 3; ++len) {
                    Fault x;
                    x.kind = K_UNITCYCLE;
                    x.file = fj;
                    x.ek = 'U';
                    x.name = u.name;
                    x.len = len;
                    x.needed = neededEnt.count(Walker::nodeId(fj, 'U', u.name)) != 0;
                    out.push_back(x);
                }
            }
        }
        std::vector<const CEnt *> comps;
        allComps(f.comps, comps);
        for (const CEnt *c : comps) {
            for (int kind : {K_REMOVED, K_RENAMED}) {
                Fault x;
                x.kind = kind;
                x.file = fj;
                x.ek = 'C';
                x.name = c->name;
                x.needed = neededEnt.count(Walker::nodeId(fj, 'C', c->name)) != 0;
                out.push_back(x);
            }
        }
    }
    if (kExt) {
        for (size_t j = 1; j < g.files.size(); ++j) {
            int fj = static_cast<int>(j);
            const FSpec &f = g.files[j];
            if (fileRoute) {
                for (const auto &u : f.units) {
                    if (!u.imp) {
                        Fault x;
                        x.kind = K_BADENTITY;
                        x.file = fj;
                        x.ek = 'U';
                        x.name = u.name;
                        x.needed = neededEnt.count(Walker::nodeId(fj, 'U', u.name)) != 0;
                        out.push_back(x);
                    }
                }
                std::vector<const CEnt *> comps;
                allComps(f.comps, comps);
                for (const CEnt *c : comps) {
                    if (!c->imp) {
                        Fault x;
                        x.kind = K_BADENTITY;
                        x.file = fj;
                        x.ek = 'C';
                        x.name = c->name;
                        x.needed = neededEnt.count(Walker::nodeId(fj, 'C', c->name)) != 0;
                        out.push_back(x);
                    }
                }
            }
            if (ev.fileVisits.count(fj) != 0) {
                Fault x;
                x.kind = K_NULLENTRY;
                x.file = fj;
                out.push_back(x);
            }
        }
    }
    for (const auto &b : bes) {
        if (!allowBlind && !b.fetched) {
            continue;
        }
        Fault x;
        x.kind = K_BACKEDGE;
        x.file = b.file;
        x.ek = b.k;
        x.name = b.name;
        x.toFile = b.toFile;
        x.toName = b.toName;
        x.len = b.len;
        x.fetched = b.fetched;
        out.push_back(x);
    }
    return out;
}

void applyFault(Graph &g, const Fault &f)
{
    if (f.kind == K_NONE) {
        return;
    }
    FSpec &fs = g.files[static_cast<size_t>(f.file)];
    switch (f.kind) {
    case K_MISSING: fs.state = FS_MISSING; break;
    case K_TRUNC0:
    case K_TRUNC_DECL:
    case K_TRUNC_TAG:
    case K_TRUNC_END:
        fs.state = FS_TRUNC;
        fs.truncClass = f.kind - K_TRUNC0;
        fs.pick = f.pick;
        fs.pick2 = f.pick2;
        break;
    case K_NONCELLML:
        fs.state = FS_NONCELLML;
        fs.variant = f.variant;
        break;
    case K_REMOVED:
        if (f.ek == 'U') {
            fs.units.erase(std::remove_if(fs.units.begin(), fs.units.end(), [&](const UEnt &u) { return u.name == f.name; }), fs.units.end());
        } else {
            eraseC(fs.comps, f.name);
        }
        break;
    case K_RENAMED:
        if (f.ek == 'U') {
            findU(fs, f.name)->name += "_renamed";
        } else {
            findC(fs.comps, f.name)->name += "_renamed";
        }
        break;
    case K_BACKEDGE:
        if (f.ek == 'U') {
            UEnt *u = findU(fs, f.name);
            u->imp = true;
            u->file = f.toFile;
            u->ref = f.toName;
            u->href.clear();
            u->kids.clear();
        } else {
            CEnt *c = findC(fs.comps, f.name);
            c->imp = true;
            c->file = f.toFile;
            c->ref = f.toName;
            c->href.clear();
            c->varUnits.clear();
            c->cnUnits.clear();
            c->kids.clear();
        }
        break;
    case K_BADENTITY:
        if (f.ek == 'U') {
            findU(fs, f.name)->bad = true;
        } else {
            findC(fs.comps, f.name)->bad = true;
        }
        break;
    case K_NULLENTRY: fs.state = FS_NULLENTRY; break;
    case K_UNITCYCLE: {
        UEnt *u = findU(fs, f.name);
        if (f.len == 1) {
            u->kids.push_back(f.name);
        } else {
            u->kids.push_back("cya");
            UEnt a;
            a.name = "cya";
            UEnt b;
            b.name = "cyb";
            if (f.len == 2) {
                a.kids = {"metre", f.name};
                fs.units.push_back(a);
            } else {
                a.kids = {"cyb"};
                b.kids = {f.name, "second"};
                fs.units.push_back(a);
                fs.units.push_back(b);
            }
        }
        break;
    }
    default: break;
    }
}

// ================================================================================================ generators

FSpec newFile(int i)
{
    FSpec f;
    f.fname = "f" + std::to_string(i) + ".cellml";
    return f;
}

UEnt uLocal(const std::string &n, std::vector<std::string> kids)
{
    UEnt u;
    u.name = n;
    u.kids = std::move(kids);
    return u;
}
UEnt uImport(const std::string &n, int file, const std::string &ref)
{
    UEnt u;
    u.name = n;
    u.imp = true;
    u.file = file;
    u.ref = ref;
    return u;
}
CEnt cLocal(const std::string &n, std::vector<std::string> varUnits)
{
    CEnt c;
    c.name = n;
    c.varUnits = std::move(varUnits);
    return c;
}
CEnt cImport(const std::string &n, int file, const std::string &ref)
{
    CEnt c;
    c.name = n;
    c.imp = true;
    c.file = file;
    c.ref = ref;
    return c;
}

// Shapes of the exported entity of a library file ("u" or "c") and of what it needs from the next file.
// units:     0 leaf | 1 imported | 2 {w}, w imported | 3 {v}, v = {w}, w imported | 4 {w, w2}, both imported
// component: 0 leaf | 1 imported | 2 variable in w, w imported | 3 variable in v = {w}, w imported | 4 child d imported |
//            5 child d (local) with a variable in w, w imported | 6 cn in w, w imported | 7 imported, with a local child |
//            8 cn in v = {w}, w imported | 9 child d (local) with an imported child e
// Returns what the next file has to export: 'U', 'C' or 0.
char buildShape(Src &src, FSpec &f, char kind, int shape, int next, const std::string &sfx)
{
    // Helper entities carry the file index in their name (sfx) unless the scenario asks for colliding names: an import
    // alias that equals the name of a unit child of the imported definition sends flattenModel into unbounded recursion.
    const std::string w = "w" + sfx, w2 = "wb" + sfx, v = "v" + sfx, d = "d" + sfx, e = "e" + sfx;
    if (kind == 'U') {
        switch (shape) {
        case 0: f.units.push_back(uLocal("u", {"second"})); return 0;
        case 1: f.units.push_back(uImport("u", next, "u")); return 'U';
        case 2:
            f.units.push_back(uLocal("u", {w, "second"}));
            f.units.push_back(uImport(w, next, "u"));
            return 'U';
        case 3:
            f.units.push_back(uLocal("u", {v}));
            f.units.push_back(uLocal(v, {w, "metre"}));
            f.units.push_back(uImport(w, next, "u"));
            return 'U';
        default:
            f.units.push_back(uLocal("u", {w, w2}));
            f.units.push_back(uImport(w, next, "u"));
            f.units.push_back(uImport(w2, next, "u"));
            f.group = src.below(2) == 1;
            return 'U';
        }
    }
    switch (shape) {
    case 0: f.comps.push_back(cLocal("c", {"second"})); return 0;
    case 1: f.comps.push_back(cImport("c", next, "c")); return 'C';
    case 2:
        f.comps.push_back(cLocal("c", {w}));
        f.units.push_back(uImport(w, next, "u"));
        return 'U';
    case 3:
        f.comps.push_back(cLocal("c", {v}));
        f.units.push_back(uLocal(v, {w}));
        f.units.push_back(uImport(w, next, "u"));
        return 'U';
    case 4: {
        CEnt c = cLocal("c", {"second"});
        c.kids.push_back(cImport(d, next, "c"));
        f.comps.push_back(c);
        return 'C';
    }
    case 5: {
        CEnt c = cLocal("c", {"second"});
        c.kids.push_back(cLocal(d, {w}));
        f.comps.push_back(c);
        f.units.push_back(uImport(w, next, "u"));
        return 'U';
    }
    case 6: {
        CEnt c = cLocal("c", {"second"});
        c.cnUnits = {w};
        f.comps.push_back(c);
        f.units.push_back(uImport(w, next, "u"));
        return 'U';
    }
    case 7: {
        CEnt c = cImport("c", next, "c");
        c.kids.push_back(cLocal(d, {"second"}));
        f.comps.push_back(c);
        return 'C';
    }
    case 8: {
        CEnt c = cLocal("c", {"second"});
        c.cnUnits = {v};
        f.comps.push_back(c);
        f.units.push_back(uLocal(v, {w, "kilogram"}));
        f.units.push_back(uImport(w, next, "u"));
        return 'U';
    }
    case 10: { // (C07_ext) child d imported, and d (an import element of this file) encapsulates m, imported as well
        CEnt c = cLocal("c", {"second"});
        CEnt dd = cImport(d, next, "c");
        dd.kids.push_back(cImport(e, next, "c"));
        c.kids.push_back(dd);
        f.comps.push_back(c);
        return 'C';
    }
    default: {
        CEnt c = cLocal("c", {"second"});
        CEnt dd = cLocal(d, {"metre"});
        dd.kids.push_back(cImport(e, next, "c"));
        c.kids.push_back(dd);
        f.comps.push_back(c);
        return 'C';
    }
    }
}

// A chain f0 -> f1 -> … -> fn of exactly n library files. `universe` 0: the bounded catalogue (shapes 0-4 / 0-6).
// shard: called with the first combined choice (main kind x shape of f1); returns false when the case belongs to another shard.
bool genChain(Src &src, int n, bool bounded, bool allowBlind, bool collide, const std::function<bool(size_t)> &mine, Graph &g)
{
    std::vector<int> us, cs;
    for (int s : {1, 2, 3, 4}) {
        if (allowBlind || s != 3) {
            us.push_back(s);
        }
    }
    for (int s : {1, 2, 3, 4, 5, 6, 7, 8, 9, 10}) {
        bool blind = s == 3 || s == 5 || s == 8 || (s == 10 && gDef.fetchSkipsChildrenOfNestedImportElement);
        if ((allowBlind || !blind) && (!bounded || s <= 6 || s == 10) && (s != 10 || kExt)) {
            cs.push_back(s);
        }
    }
    // first choice: main kind (0 units, 1 component, 2 units + a leaf component, 3 component + leaf units) x shape of f1
    size_t nu = n > 1 ? us.size() : 1, nc = n > 1 ? cs.size() : 1;
    size_t idx = src.below(2 * (nu + nc));
    if (mine && !mine(idx)) {
        return false;
    }
    int mainKind;
    int shape1;
    if (idx < nu) {
        mainKind = 0;
        shape1 = n > 1 ? us[idx] : 0;
    } else if (idx < nu + nc) {
        mainKind = 1;
        shape1 = n > 1 ? cs[idx - nu] : 0;
    } else if (idx < 2 * nu + nc) {
        mainKind = 2;
        shape1 = n > 1 ? us[idx - nu - nc] : 0;
    } else {
        mainKind = 3;
        shape1 = n > 1 ? cs[idx - 2 * nu - nc] : 0;
    }
    g.files.clear();
    g.files.push_back(newFile(0));
    char need = (mainKind == 0 || mainKind == 2) ? 'U' : 'C';
    if (need == 'U') {
        g.files[0].units.push_back(uImport("u", 1, "u"));
    } else {
        g.files[0].comps.push_back(cImport("c", 1, "c"));
    }
    if (mainKind == 2) {
        g.files[0].comps.push_back(cImport("cl", 1, "cl"));
    } else if (mainKind == 3) {
        g.files[0].units.push_back(uImport("ul", 1, "ul"));
    }
    for (int i = 1; i <= n; ++i) {
        FSpec f = newFile(i);
        int shape = 0;
        if (i < n) {
            shape = i == 1 ? shape1 : (need == 'U' ? us[src.below(us.size())] : cs[src.below(cs.size())]);
        }
        need = buildShape(src, f, need, shape, i + 1, collide ? std::string() : std::to_string(i));
        if (i == 1 && mainKind == 2) {
            f.comps.push_back(cLocal("cl", {"second"}));
        } else if (i == 1 && mainKind == 3) {
            f.units.push_back(uLocal("ul", {"kilogram"}));
        }
        g.files.push_back(f);
    }
    return true;
}

bool unitsNeedImport(const FSpec &f, const std::string &name, int depth)
{
    const UEnt *u = isStd(name) ? nullptr : findU(f, name);
    if (u == nullptr || depth > 8) {
        return false;
    }
    if (u->imp) {
        return true;
    }
    return std::any_of(u->kids.begin(), u->kids.end(), [&](const std::string &k) { return unitsNeedImport(f, k, depth + 1); });
}

// Known (flattening, outside C07): when units X of file i import units R of file j and the definition of R (through
// local units) refers to units that are *also* called X in file j, flattening renames R to X, which then refers to itself:
// transferUnitsRenamingIfRequired() recurses without bound.
bool aliasCollision(const Graph &g)
{
    for (const auto &f : g.files) {
        for (const auto &x : f.units) {
            if (!x.imp || x.file < 0) {
                continue;
            }
            const FSpec &t = g.files[static_cast<size_t>(x.file)];
            std::vector<std::string> todo = {x.ref}, seen;
            while (!todo.empty()) {
                std::string n = todo.back();
                todo.pop_back();
                if (std::find(seen.begin(), seen.end(), n) != seen.end()) {
                    continue;
                }
                seen.push_back(n);
                const UEnt *u = findU(t, n);
                if (u == nullptr || u->imp) {
                    continue;
                }
                for (const auto &k : u->kids) {
                    if (k == x.name && k != x.ref) {
                        return true;
                    }
                    if (!isStd(k)) {
                        todo.push_back(k);
                    }
                }
            }
        }
    }
    return false;
}

// A random layered graph: imports only point to files with a larger index (no file-level cycle), any number of
// entities per file, diamonds, repeated imports, entities nothing depends on.
void genDag(Src &src, int n, bool collide, bool allowKnownIn, Graph &g, int &excluded)
{
    const bool allowKnown = allowKnownIn || !gDef.flattenNullChildUnits;
    static const char *const un[] = {"ua", "ub", "uc"};
    static const char *const cn[] = {"ca", "cb", "cc"};
    static const char *const stdu[] = {"second", "metre", "kilogram"};
    g.files.assign(static_cast<size_t>(n) + 1, FSpec());
    for (int i = n; i >= 0; --i) {
        FSpec f = newFile(i);
        const std::string sfx = collide ? std::string() : std::to_string(i);
        int nu = i == 0 ? static_cast<int>(src.below(3)) : 1 + static_cast<int>(src.below(3));
        int nc = static_cast<int>(src.below(3));
        auto pickUnitsTarget = [&](int &file, std::string &ref) {
            file = i + 1 + static_cast<int>(src.below(static_cast<uint64_t>(n - i)));
            const FSpec &t = g.files[static_cast<size_t>(file)];
            ref = t.units[src.below(t.units.size())].name;
        };
        auto pickCompTarget = [&](int &file, std::string &ref) -> bool {
            std::vector<int> cands;
            for (int j = i + 1; j <= n; ++j) {
                if (!g.files[static_cast<size_t>(j)].comps.empty()) {
                    cands.push_back(j);
                }
            }
            if (cands.empty()) {
                return false;
            }
            file = cands[src.below(cands.size())];
            std::vector<const CEnt *> all;
            allComps(g.files[static_cast<size_t>(file)].comps, all);
            ref = all[src.below(all.size())]->name;
            return true;
        };
        std::vector<UEnt> units(static_cast<size_t>(nu));
        for (int k = nu - 1; k >= 0; --k) {
            UEnt u;
            u.name = un[k] + sfx;
            uint64_t t = src.below(3);
            if (t == 1 && i < n) {
                u.imp = true;
                pickUnitsTarget(u.file, u.ref);
            } else if (t == 2) {
                int kids = 1 + static_cast<int>(src.below(2));
                for (int q = 0; q < kids; ++q) {
                    if (k + 1 < nu && src.below(3) != 0) {
                        u.kids.push_back(un[k + 1 + static_cast<int>(src.below(static_cast<uint64_t>(nu - k - 1)))] + sfx);
                    } else {
                        u.kids.push_back(stdu[src.below(3)]);
                    }
                }
            } else {
                u.kids.push_back(stdu[src.below(3)]);
            }
            units[static_cast<size_t>(k)] = u;
        }
        f.units = units;
        auto someUnits = [&]() -> std::string {
            if (!f.units.empty() && src.below(4) != 0) {
                return f.units[src.below(f.units.size())].name;
            }
            return stdu[src.below(3)];
        };
        int kidSerial = 0;
        for (int k = 0; k < nc; ++k) {
            CEnt c;
            c.name = cn[k] + sfx;
            uint64_t t = src.below(4);
            if (t == 1 && i < n && pickCompTarget(c.file, c.ref)) {
                c.imp = true;
                if (src.flip(15)) {
                    // Known (flattening, outside C07): a child of an imported component that uses imported units makes
                    // flattenComponent() dereference null; such a child gets standard units unless known defects are let through.
                    std::string ku = someUnits();
                    if (!allowKnown && unitsNeedImport(f, ku, 0)) {
                        ku = "second";
                        ++excluded;
                    }
                    c.kids.push_back(cLocal("d" + std::to_string(kidSerial++) + "_" + sfx, {ku}));
                }
            } else if (t == 2) {
                c.varUnits.push_back(someUnits());
                if (src.flip(40)) {
                    c.varUnits.push_back(someUnits());
                }
                if (src.flip(25)) {
                    c.cnUnits.push_back(someUnits());
                }
            } else if (t == 3) {
                c.varUnits.push_back(stdu[src.below(3)]);
                int kids = 1 + static_cast<int>(src.below(2));
                for (int q = 0; q < kids; ++q) {
                    CEnt d;
                    d.name = "d" + std::to_string(kidSerial++) + "_" + sfx;
                    uint64_t t2 = src.below(3);
                    if (t2 == 1 && i < n && pickCompTarget(d.file, d.ref)) {
                        d.imp = true;
                        if (kExt && src.flip(35)) { // something encapsulated below an import element that is itself a child
                            CEnt m = cLocal("m" + std::to_string(kidSerial++) + "_" + sfx, {someUnits()});
                            if (src.flip(40) && pickCompTarget(m.file, m.ref)) {
                                m.imp = true;
                                m.varUnits.clear();
                            }
                            d.kids.push_back(m);
                        }
                    } else if (t2 == 2) {
                        d.varUnits.push_back(someUnits());
                    } else {
                        d.varUnits.push_back("second");
                    }
                    c.kids.push_back(d);
                }
            } else {
                c.varUnits.push_back(stdu[src.below(3)]);
            }
            f.comps.push_back(c);
        }
        g.files[static_cast<size_t>(i)] = f;
    }
    // f0 must import something
    FSpec &f0 = g.files[0];
    bool any = std::any_of(f0.units.begin(), f0.units.end(), [](const UEnt &u) { return u.imp; });
    std::vector<const CEnt *> all;
    allComps(f0.comps, all);
    any = any || std::any_of(all.begin(), all.end(), [](const CEnt *c) { return c->imp; });
    if (!any) {
        f0.units.push_back(uImport("ux", 1, g.files[1].units[0].name));
    }
}

// (C07_ext) Chains in nested directories. variant 0: every non-terminal file, f0 included, has the same text (same model name,
// same relative href "impl/model.cellml", which names a different file at every depth); variant 1: two file names alternate
// and the directory gets deeper every second step, so the same relative href recurs along one acyclic chain.
void genNested(int variant, int n, char kind, Graph &g)
{
    g.files.clear();
    for (int i = 0; i <= n; ++i) {
        FSpec f = newFile(i);
        if (variant == 0) {
            f.modelName = "m";
            for (int k = 0; k < i; ++k) {
                f.dir += "impl/";
            }
            if (i > 0) {
                f.fname = "model.cellml";
            }
        } else if (i > 0) {
            for (int k = 0; k < (i + 1) / 2; ++k) {
                f.dir += "sub/";
            }
            f.fname = i % 2 == 1 ? "f.cellml" : "g.cellml";
        }
        if (i < n) {
            if (kind == 'U') {
                f.units.push_back(uImport("u", i + 1, "u"));
            } else {
                f.comps.push_back(cImport("c", i + 1, "c"));
            }
        } else if (kind == 'U') {
            f.units.push_back(uLocal("u", {"second"}));
        } else {
            f.comps.push_back(cLocal("c", {"second"}));
        }
        g.files.push_back(f);
    }
}

// Exclusion by construction of the known "fetch does not follow local units / child components" family: every import
// that is only reached on an unfetched path is turned into a local definition. Returns the number of conversions.
int sanitizeBlind(Graph &g)
{
    int cuts = 0;
    for (int round = 0; round < 64; ++round) {
        Eval ev = evaluate(g);
        if (ev.importsBlind.empty()) {
            break;
        }
        const std::string id = *ev.importsBlind.begin();
        size_t p = 0;
        while (isdigit(static_cast<unsigned char>(id[p]))) {
            ++p;
        }
        int file = atoi(id.substr(0, p).c_str());
        char kind = id[p];
        std::string name = id.substr(p + 1);
        FSpec &f = g.files[static_cast<size_t>(file)];
        if (kind == 'U') {
            UEnt *u = findU(f, name);
            u->imp = false;
            u->file = -1;
            u->ref.clear();
            u->href.clear();
            u->kids = {"second"};
        } else {
            CEnt *c = findC(f.comps, name);
            c->imp = false;
            c->file = -1;
            c->ref.clear();
            c->href.clear();
            c->varUnits = {"second"};
        }
        ++cuts;
    }
    return cuts;
}

// ================================================================================================ scenario (runs in a forked child)

enum Phase
{
    P_RES_H,
    P_FLAT_H,
    P_RES_F,
    P_FLAT_F,
    P_RES_RS,
    P_FLAT_RS,
    P_RES_RN,
    P_FLAT_RN,
    P_RES_F2, // the same call once more, nothing changed in between: the answer is a function of the graph
    P_FLAT_F2,
    P_COUNT
};
const char *const kPhaseName[] = {"resolve@healthy", "flatten@healthy", "resolve@fault", "flatten@fault", "resolve@repaired-same-importer", "flatten@repaired-same-importer",
                                  "resolve@repaired-new-importer", "flatten@repaired-new-importer", "resolve@fault-second-call", "flatten@fault-second-call"};
const char *const kStateName[] = {"healthy", "healthy", "fault", "fault", "repaired-same-importer", "repaired-same-importer", "repaired-new-importer", "repaired-new-importer", "fault-second-call", "fault-second-call"};

struct Scenario
{
    Graph healthy, faulted;
    Eval evH, evF;
    std::string faultKind;
    bool fileRoute = true, seqB = false, strict = true;
    std::string dir; // absolute, with trailing '/'
    unsigned skipMask = 0;
    int limit[P_COUNT];
    bool secondCall = false; // repeat the resolve / flatten of the fault state once
    std::string hint; // localisation of the generator dimension (C07_ext: "repeated-relative-href", "same-text-as-f0")
    bool cycleThroughComponent = false; // the import cycle made by the fault passes through a child component or the units of a component
    bool deepRecursionExpected = false; // import cycle across directories: the importer only stops when the growing path can no longer be opened
};

std::string oneLine(std::string s)
{
    for (char &ch : s) {
        if (ch == '\n') {
            ch = '\x1f';
        } else if (ch == '\t') {
            ch = ' ';
        }
    }
    return s;
}

void emit(const std::string &s)
{
    std::string l = "\nVPR\t" + s + "\n";
    ssize_t r = write(2, l.data(), l.size());
    (void)r;
}

std::string issueClass(const std::string &d)
{
    if (d.find("Cyclic dependencies") != std::string::npos) {
        return "cyclic";
    }
    if (d.find("could not be opened") != std::string::npos) {
        return "cannot-open";
    }
    if (d.find("not valid XML") != std::string::npos) {
        return "not-xml";
    }
    if (d.find("Encountered an error") != std::string::npos) {
        return "related-error";
    }
    if (d.find("not available in the importer") != std::string::npos) {
        return "null-model";
    }
    if (d.find("could not be found") != std::string::npos || d.find("cannot be found") != std::string::npos) {
        return "not-found";
    }
    if (d.find("unresolved imports") != std::string::npos) {
        return "unresolved";
    }
    if (d.find("not fully defined") != std::string::npos) {
        return "undefined-model";
    }
    return "other";
}

void makeDirs(const std::string &path)
{
    for (size_t p = 1; p <= path.size(); ++p) {
        if (p == path.size() || path[p] == '/') {
            mkdir(path.substr(0, p).c_str(), 0777);
        }
    }
}

struct ChildRun
{
    const Scenario &s;
    ImporterPtr imp;
    ModelPtr main;
    std::string mainText;
    std::string base;

    explicit ChildRun(const Scenario &sc)
        : s(sc)
    {
        base = s.fileRoute ? s.dir : s.dir + "no-such-directory/";
    }

    void fail(const std::string &sig, const std::string &msg) { emit("FAIL\t" + sig + "\t" + oneLine(msg)); }

    std::string issues(const LoggerPtr &lg)
    {
        std::string o;
        for (size_t i = 0; i < lg->issueCount() && i < 8; ++i) {
            auto is = lg->issue(i);
            o += "\n  [" + std::to_string(i) + "] level " + std::to_string(static_cast<int>(is->level())) + " item " + cellmlElementTypeAsString(is->item()->type()) + ": " + is->description();
        }
        return o.empty() ? " (no issues)" : o;
    }

    void install(const Graph &g, const ImporterPtr &im)
    {
        if (s.fileRoute) {
            for (size_t i = 0; i < g.files.size(); ++i) {
                const FSpec &f = g.files[i];
                std::string path = s.dir + f.dir + f.fname;
                if (!f.dir.empty()) {
                    makeDirs(s.dir + f.dir);
                }
                if (f.state == FS_MISSING) {
                    unlink(path.c_str());
                    continue;
                }
                std::ofstream o(path, std::ios::binary | std::ios::trunc);
                o << fileBytes(g, static_cast<int>(i));
                o.close();
                if (!o) {
                    fail("C07.harness|cannot-write", path);
                }
            }
            return;
        }
        // is f0 itself an import target?
        bool f0Target = false;
        for (const auto &f : g.files) {
            std::vector<const CEnt *> comps;
            allComps(f.comps, comps);
            for (const auto &u : f.units) {
                f0Target = f0Target || (u.imp && u.file == 0);
            }
            for (const CEnt *c : comps) {
                f0Target = f0Target || (c->imp && c->file == 0);
            }
        }
        for (size_t i = f0Target ? 0 : 1; i < g.files.size(); ++i) {
            const FSpec &f = g.files[i];
            if (f.state != FS_OK && f.state != FS_NULLENTRY) {
                continue;
            }
            auto p = Parser::create(s.strict);
            auto m = p->parseModel(serialise(g, static_cast<int>(i)));
            bool anyBad = false;
            for (const auto &u : f.units) {
                anyBad = anyBad || u.bad;
            }
            std::vector<const CEnt *> fc;
            allComps(f.comps, fc);
            for (const CEnt *c : fc) {
                anyBad = anyBad || c->bad;
            }
            if (p->errorCount() != 0 && !f.junk && !anyBad) {
                fail("C07.harness|generated-file-has-parser-errors", f.fname + issues(p));
            }
            if (!im->addModel(m, f.fname)) {
                fail("C07.library|addModel-refused", f.fname);
            }
        }
    }

    ModelPtr parseMain(const Graph &g)
    {
        auto p = Parser::create(true);
        mainText = serialise(g, 0);
        auto m = p->parseModel(mainText);
        if (p->issueCount() != 0) {
            fail("C07.harness|generated-f0-has-parser-issues", issues(p));
        }
        return m;
    }

    bool skipped(Phase p) const { return (s.skipMask & (1u << p)) != 0; }

    void monitor(const ImporterPtr &im, Phase p)
    {
        std::string lg = checkLogger(im);
        if (!lg.empty()) {
            fail("C15.monitor|Importer|" + lg.substr(0, lg.find('|')), std::string(kPhaseName[p]) + ": " + lg + issues(im));
        }
    }

    // returns -1 skipped, 0 false, 1 true
    int resolve(Phase p, const ImporterPtr &im, ModelPtr &m, const Eval &ev)
    {
        if (skipped(p)) {
            return -1;
        }
        const std::string state = kStateName[p];
        const std::string after = (p >= P_RES_RS && p <= P_FLAT_RN) ? "|after:" + s.faultKind : "";
        emit(std::string("PHASE\t") + std::to_string(p));
        alarm(static_cast<unsigned>(s.limit[p]));
        bool r = im->resolveImports(m, base);
        alarm(0);
        emit("RET\t" + std::to_string(p) + "\t" + (r ? "1" : "0"));
        monitor(im, p);
        // which import elements of f0 have an issue attached
        std::set<std::string> attached;
        for (size_t i = 0; i < im->issueCount(); ++i) {
            auto item = im->issue(i)->item();
            if (item == nullptr) {
                continue;
            }
            for (const auto &t : ev.tops) {
                if (t.kind == 'U' && item->type() == CellmlElementType::UNITS && item->units() != nullptr && item->units() == m->units(t.name)) {
                    attached.insert("U" + t.name);
                } else if (t.kind == 'C' && item->type() == CellmlElementType::COMPONENT && item->component() != nullptr && item->component() == m->component(t.name, true)) {
                    attached.insert("C" + t.name);
                }
            }
        }
        const std::string firstDesc = im->issueCount() > 0 ? im->issue(0)->description() : "";
        if (ev.sat()) {
            if (!r) {
                fail("C07.resolve|false-on-satisfiable|" + state + after + "|" + issueClass(firstDesc) + (s.hint.empty() ? "" : "|" + s.hint), "every import of f0 can be satisfied, resolveImports returned false:" + issues(im));
            } else {
                if (m->hasUnresolvedImports()) {
                    fail("C07.resolved-state|unresolved-after-true|" + state + after + "|" + ((ev.blindToken() == "nothing" && !s.hint.empty()) ? s.hint : "unfetched:" + ev.blindToken()),
                         "resolveImports returned true, Model::hasUnresolvedImports() is true");
                }
                if (im->errorCount() != 0) {
                    // "true if all imports have been resolved successfully" (importer.h): an error-level issue is a failure report
                    fail("C07.issue|error-level-issue-although-true|" + state + after, "resolveImports returned true and left error-level issues:" + issues(im));
                }
            }
        } else if (ev.unsat()) {
            const Failure *why = ev.firstHard();
            const std::string loc = why->reason + "|unfetched:" + ev.blindToken();
            if (r) {
                fail("C07.resolve|true-on-unsatisfiable|" + loc, "an import cannot be satisfied (" + why->reason + " on path " + why->path + "), resolveImports returned true" + issues(im));
            } else {
                if (im->issueCount() == 0) {
                    fail("C07.issue|none-on-failure|" + why->reason, "resolveImports returned false without any issue");
                }
                for (const auto &t : ev.tops) {
                    const std::string key = std::string(1, t.kind) + t.name;
                    if (t.hardVisible() && attached.count(key) == 0) {
                        fail("C07.issue|failing-import-without-issue|" + why->reason + "|" + std::string(1, t.kind),
                             std::string("no issue's item is the importing ") + (t.kind == 'U' ? "units" : "component") + " '" + t.name + "' of f0 whose import cannot be satisfied (" + t.fails[0].reason + " on path " + t.fails[0].path + "):" + issues(im));
                    }
                    if (t.fails.empty() && attached.count(key) != 0) {
                        fail("C07.issue|attached-to-satisfiable-import|" + why->reason + "|" + std::string(1, t.kind),
                             std::string("an issue is attached to '") + t.name + "' of f0 although that import can be satisfied:" + issues(im));
                    }
                }
            }
        } else {
            emit("CNT\tambiguous_returned_" + std::string(r ? "true" : "false"));
            if (!r && im->issueCount() == 0) {
                fail("C07.issue|none-on-failure|dangling-local-ref", "resolveImports returned false without any issue");
            }
        }
        return r ? 1 : 0;
    }

    void flatten(Phase p, const ImporterPtr &im, const ModelPtr &m, const Eval &ev, int r)
    {
        if (skipped(p) || r < 0) {
            return;
        }
        const std::string state = kStateName[p];
        const std::string after = (p >= P_RES_RS && p <= P_FLAT_RN) ? "|after:" + s.faultKind : "";
        emit(std::string("PHASE\t") + std::to_string(p));
        alarm(static_cast<unsigned>(s.limit[p]));
        ModelPtr flat = im->flattenModel(m);
        alarm(0);
        emit("RET\t" + std::to_string(p) + "\t" + (flat != nullptr ? "1" : "0"));
        monitor(im, p);
        const std::string firstDesc = im->issueCount() > 0 ? im->issue(0)->description() : "";
        if (flat == nullptr && im->issueCount() == 0) {
            fail("C07.flatten|null-without-issue|" + state + after, "flattenModel returned null and the importer has no issue");
        }
        if (ev.sat()) {
            if (r == 1 && flat == nullptr) {
                if (ev.unitCycle()) {
                    emit("CNT\tflatten_null_on_unit_cycle");
                } else {
                    std::string loc = "unfetched:" + ev.blindToken();
                    if (ev.blindToken() == "nothing" && !s.hint.empty()) {
                        loc = s.hint;
                    } else if (ev.blindToken() == "nothing" && issueClass(firstDesc) == "cyclic") {
                        loc = ev.siblingUnitImports ? "sibling-unit-imports" : "no-sibling-unit-imports";
                    }
                    fail("C07.flatten|null-on-resolved|" + state + after + "|" + issueClass(firstDesc) + "|" + loc, "resolveImports returned true, flattenModel returned null:" + issues(im));
                }
            }
        } else if (ev.unsat()) {
            const Failure *why = ev.firstHard();
            if (flat != nullptr) {
                const std::string loc = (ev.blindToken() == "nothing" && s.cycleThroughComponent && why->reason == "import-cycle") ? "cycle-through-component" : "unfetched:" + ev.blindToken();
                fail("C07.flatten|non-null-on-unsatisfiable|" + why->reason + "|" + loc, "an import cannot be satisfied (" + why->reason + " on path " + why->path + "), flattenModel returned a model");
            }
        }
    }

    void go()
    {
        imp = Importer::create(s.strict);
        int r;
        if (s.seqB) {
            install(s.healthy, imp);
            main = parseMain(s.healthy);
            r = resolve(P_RES_H, imp, main, s.evH);
            flatten(P_FLAT_H, imp, main, s.evH, r);
            bool nullEntry = false;
            for (const auto &f : s.faulted.files) {
                nullEntry = nullEntry || f.state == FS_NULLENTRY;
            }
            if (nullEntry) {
                // the fault is in the library, not on disk: the entries of the file(s) are replaced by a null model
                for (size_t j = 0; j < s.faulted.files.size(); ++j) {
                    if (s.faulted.files[j].state != FS_NULLENTRY) {
                        continue;
                    }
                    const std::string wanted = s.faulted.files[j].modelName.empty() ? "m" + std::to_string(j) : s.faulted.files[j].modelName;
                    for (size_t k = 0; k < imp->libraryCount(); ++k) {
                        auto lm = imp->library(k);
                        if (lm != nullptr && lm->name() == wanted) {
                            if (!imp->replaceModel(nullptr, imp->key(k))) {
                                emit("CNT\treplaceModel_null_refused");
                            }
                        }
                    }
                }
            } else {
                if (!s.fileRoute) {
                    imp->removeAllModels();
                }
                install(s.faulted, imp);
                if (s.fileRoute) {
                    imp->removeAllModels();
                }
            }
            if (serialise(s.faulted, 0) != mainText) {
                main = parseMain(s.faulted);
            }
        } else {
            install(s.faulted, imp);
            main = parseMain(s.faulted);
        }
        r = resolve(P_RES_F, imp, main, s.evF);
        flatten(P_FLAT_F, imp, main, s.evF, r);
        if (s.secondCall) {
            r = resolve(P_RES_F2, imp, main, s.evF);
            flatten(P_FLAT_F2, imp, main, s.evF, r);
        }
        // repair: undo the fault, drop the library cache (the documented way), resolve again with the same importer
        if (!s.fileRoute) {
            imp->removeAllModels();
        }
        install(s.healthy, imp);
        if (s.fileRoute) {
            imp->removeAllModels();
            if (imp->libraryCount() != 0) {
                fail("C07.library|removeAllModels-left-models", std::to_string(imp->libraryCount()));
            }
        }
        if (serialise(s.healthy, 0) != mainText) {
            main = parseMain(s.healthy);
        }
        r = resolve(P_RES_RS, imp, main, s.evH);
        flatten(P_FLAT_RS, imp, main, s.evH, r);
        // ... and with a new importer and a newly parsed model
        auto imp2 = Importer::create(s.strict);
        if (!s.fileRoute) {
            install(s.healthy, imp2);
        }
        ModelPtr main2 = parseMain(s.healthy);
        r = resolve(P_RES_RN, imp2, main2, s.evH);
        flatten(P_FLAT_RN, imp2, main2, s.evH, r);
        emit("DONE");
    }
};

void childMain(void *arg)
{
    const Scenario &s = *static_cast<const Scenario *>(arg);
    signal(SIGALRM, SIG_DFL);
    // Runaway recursion must hit the end of the stack quickly (the sanitised workers run with a 1 GiB stack, and the time to
    // the end is quadratic in its size where the recursion scans a growing history): 8 MiB, the default of an ordinary process.
    struct rlimit rl;
    if (getrlimit(RLIMIT_STACK, &rl) == 0) {
        const rlim_t want = s.deepRecursionExpected ? (1ul << 30) : (8ul << 20);
        if (s.deepRecursionExpected ? (rl.rlim_cur != RLIM_INFINITY && rl.rlim_cur < want) : (rl.rlim_cur == RLIM_INFINITY || rl.rlim_cur > want)) {
            rl.rlim_cur = (rl.rlim_max == RLIM_INFINITY || rl.rlim_max >= want) ? want : rl.rlim_max;
            setrlimit(RLIMIT_STACK, &rl);
        }
    }
    ChildRun run(s);
    try {
        run.go();
    } catch (const std::exception &e) {
        emit(std::string("FAIL\tC07.exception|") + typeid(e).name() + "\t" + oneLine(e.what()));
        emit("DONE");
    }
}

// ================================================================================================ parent side

struct ChildResult
{
    int ret = 0;
    bool done = false;
    int lastPhase = -1;
    std::vector<std::pair<std::string, std::string>> fails;
    std::map<std::string, long> counters;
    std::string rets;
    std::string diag;
};

ChildResult runChild(Scenario &sc)
{
    ChildResult r;
    r.ret = runIsolated(childMain, &sc, 0, &r.diag);
    std::istringstream in(r.diag);
    std::string line;
    while (std::getline(in, line)) {
        if (line.compare(0, 4, "VPR\t") != 0) {
            continue;
        }
        std::vector<std::string> f;
        size_t p = 4;
        while (true) {
            size_t q = line.find('\t', p);
            f.push_back(line.substr(p, q == std::string::npos ? q : q - p));
            if (q == std::string::npos) {
                break;
            }
            p = q + 1;
        }
        if (f[0] == "PHASE" && f.size() >= 2) {
            r.lastPhase = atoi(f[1].c_str());
        } else if (f[0] == "RET" && f.size() >= 3) {
            r.rets += std::string(kPhaseName[atoi(f[1].c_str())]) + "=" + f[2] + " ";
        } else if (f[0] == "FAIL" && f.size() >= 3) {
            std::string m = f[2];
            std::replace(m.begin(), m.end(), '\x1f', '\n');
            r.fails.emplace_back(f[1], m);
        } else if (f[0] == "CNT" && f.size() >= 2) {
            ++r.counters[f[1]];
        } else if (f[0] == "DONE") {
            r.done = true;
        }
    }
    return r;
}

// "<kind>|<libcellml frame>" from the report a dead child left on stderr
std::string crashToken(const ChildResult &r)
{
    std::string kind;
    size_t p = r.diag.find("AddressSanitizer: ");
    if (p != std::string::npos) {
        size_t e = r.diag.find_first_of(" \n", p + 18);
        kind = "asan:" + r.diag.substr(p + 18, e - p - 18);
    } else if ((p = r.diag.find("runtime error: ")) != std::string::npos) {
        size_t e = r.diag.find_first_of("\n", p);
        std::string what = r.diag.substr(p + 15, e - p - 15);
        kind = "ubsan:" + std::string(what.find("null pointer") != std::string::npos ? "null-pointer" : what.substr(0, what.find(' ')));
    } else if (r.diag.find("terminate called") != std::string::npos) {
        kind = "uncaught";
    } else if (r.ret >= 1000) {
        kind = "signal:" + std::to_string(r.ret - 1000);
    } else {
        kind = "exit:" + std::to_string(r.ret);
    }
    std::map<std::string, int> freq;
    std::string first;
    size_t q = 0;
    while ((q = r.diag.find(" in libcellml::", q)) != std::string::npos) {
        size_t e = r.diag.find_first_of("( \n", q + 4);
        std::string fr = r.diag.substr(q + 4, e - q - 4);
        if (first.empty()) {
            first = fr;
        }
        ++freq[fr];
        q = e;
    }
    std::string frame = first.empty() ? "?" : first;
    if (kind == "asan:stack-overflow") {
        int best = 0;
        for (const auto &f : freq) {
            if (f.second > best) {
                best = f.second;
                frame = f.first;
            }
        }
    }
    return kind + "|" + frame;
}

std::string gMode = "rc";
int gMaxN = 3; // bounded universe: at most this many library files
int gSeqMode = 0; // ex: 0 both orders, 1 fault-first only
long gShard = 0, gShards = 0;

void setMode(const std::string &mode, long bound)
{
    gMode = mode;
    if (mode == "ex") {
        // bound = maxN + 10 * seqMode + 100 * shard + 10000 * shards
        gMaxN = static_cast<int>(bound % 10);
        if (gMaxN < 1 || gMaxN > 3) {
            gMaxN = 3;
        }
        gSeqMode = static_cast<int>((bound / 10) % 10);
        gShard = (bound / 100) % 100;
        gShards = bound / 10000;
    }
}

std::string runDirBase()
{
    const char *e = getenv("VERIF_RUN_DIR");
    if (e != nullptr && *e != 0) {
        return e;
    }
    const char *h = getenv("VERIF_HOME");
    return std::string(h != nullptr ? h : "/verif") + "/.build/run";
}

void mkdirs(const std::string &path)
{
    for (size_t p = 1; p <= path.size(); ++p) {
        if (p == path.size() || path[p] == '/') {
            mkdir(path.substr(0, p).c_str(), 0777);
        }
    }
}

struct RunDir
{
    std::string path;
    ~RunDir()
    {
        if (!path.empty()) {
            rmdir((path + "sub").c_str());
            rmdir(path.c_str());
        }
    }
};

// Counts the choices read, so that a replay file can be extended by one more choice at the right place.
struct CountingSrc: Src
{
    Src &in;
    size_t count = 0;
    explicit CountingSrc(Src &s)
        : in(s)
    {
    }
    bool exhausted() const override { return in.exhausted(); }
protected:
    uint64_t raw(uint64_t n) override
    {
        ++count;
        return in.below(n);
    }
};

void run(Src &tapeSrc, Case &c)
{
    CountingSrc src(tapeSrc);
    const bool ex = gMode == "ex";
    Scenario sc;
    Graph g;
    std::string gen;
    bool permissive = false, allowBlind = true, layoutSub = false, collide = false, allowKnown = false;
    unsigned kindPick = 0, candPick = 0;
    bool bounded = false;
    int excluded = 0;
    bool excludedUnitCycle = false;
    int excludedImportedChildUnits = 0;

    // ---- plan-shaping choices first
    // 0: the bounded catalogue (also what --mode ex enumerates), 1: long chains, 2: layered random graphs, 3 (C07_ext): nested directories
    uint64_t universe = src.below(kExt ? 4 : 3);
    if (ex && universe != 0) {
        c.text = "(not part of the bounded universe)";
        c.count("enumeration_skips");
        return;
    }
    if (universe == 0) {
        bounded = true;
        gen = "catalogue";
        sc.seqB = src.below(2) == 1;
        int n = 1 + static_cast<int>(src.below(3));
        if (ex && ((gSeqMode == 1 && sc.seqB) || n > gMaxN)) {
            c.text = "(outside the bound of this run)";
            c.count("enumeration_skips");
            return;
        }
        bool mine = genChain(src, n, true, true, false, [&](size_t idx) { return !ex || gShards <= 0 || static_cast<long>((static_cast<size_t>(n) * 7 + idx) % static_cast<size_t>(gShards)) == gShard; }, g);
        if (!mine) {
            c.text = "(belongs to another shard)";
            c.count("enumeration_skips");
            return;
        }
        sc.fileRoute = src.below(2) == 0;
    } else if (universe == 3) {
        gen = "nested";
        sc.fileRoute = true; // the hrefs repeat, so they cannot be library keys
        sc.seqB = src.flip(35);
        kindPick = static_cast<unsigned>(src.below(40));
        candPick = static_cast<unsigned>(src.below(65536));
        const int variant = static_cast<int>(src.below(2));
        const int n = 2 + static_cast<int>(src.below(3));
        genNested(variant, n, src.below(2) == 1 ? 'C' : 'U', g);
        sc.hint = variant == 0 ? "same-text-as-f0" : "repeated-relative-href";
    } else {
        int n = 1 + static_cast<int>(src.below(8));
        sc.fileRoute = src.below(3) != 2;
        sc.seqB = src.flip(35);
        permissive = src.flip(20);
        allowKnown = src.flip(12); // let the known defects through in a sample of the cases
        if (getenv("VERIF_C07_NO_EXCLUSIONS") != nullptr) {
            allowKnown = true;
        }
        allowBlind = allowKnown || !gDef.shallowFetch();
        collide = allowKnown && src.flip(50);
        layoutSub = sc.fileRoute && src.flip(20);
        kindPick = static_cast<unsigned>(src.below(kExt ? 40 : 33));
        candPick = static_cast<unsigned>(src.below(65536));
        if (universe == 1) {
            gen = "chain";
            genChain(src, n, false, allowBlind, collide, nullptr, g);
        } else {
            gen = "layered";
            genDag(src, n, collide, allowKnown, g, excludedImportedChildUnits);
        }
        // decorations
        for (size_t i = 1; i < g.files.size(); ++i) {
            FSpec &f = g.files[i];
            if (src.flip(12)) {
                UEnt x = uImport("xu", -1, "q");
                x.href = "nowhere.cellml";
                f.units.push_back(x);
            }
            if (src.flip(8)) {
                CEnt x = cImport("xc", static_cast<int>(i) < static_cast<int>(g.files.size()) - 1 ? static_cast<int>(i) + 1 : -1, "no_such_component");
                x.href = "nowhere.cellml";
                f.comps.push_back(x);
            }
            f.junk = src.flip(10);
            if (permissive && src.flip(50)) {
                f.version = 11;
            }
            if (layoutSub && src.flip(40)) {
                f.dir = "sub/";
            }
            if (src.flip(25)) {
                f.group = true;
            }
        }
        if (!allowBlind) {
            excluded = sanitizeBlind(g);
        }
    }
    sc.strict = !permissive;

    // ---- the fault
    g.parserSeesFiles = sc.fileRoute;
    sc.secondCall = kExt;
    std::vector<Fault> faults = applicableFaults(g, sc.fileRoute, bounded, allowBlind);
    Fault fault;
    if (bounded) {
        fault = faults[src.below(faults.size())];
    } else {
        static const int table[33] = {K_NONE, K_MISSING, K_MISSING, K_MISSING, K_TRUNC0, K_TRUNC0, K_TRUNC_DECL, K_TRUNC_DECL, K_TRUNC_TAG, K_TRUNC_TAG, K_TRUNC_TAG,
                                      K_TRUNC_END, K_TRUNC_END, K_NONCELLML, K_NONCELLML, K_NONCELLML, K_REMOVED, K_REMOVED, K_REMOVED, K_REMOVED, K_RENAMED, K_RENAMED, K_RENAMED,
                                      K_BACKEDGE, K_BACKEDGE, K_BACKEDGE, K_BACKEDGE, K_BACKEDGE, K_BACKEDGE, K_UNITCYCLE, K_UNITCYCLE, K_UNITCYCLE, K_UNITCYCLE};
        static const int tableExt[40] = {K_NONE, K_MISSING, K_MISSING, K_TRUNC0, K_TRUNC_DECL, K_TRUNC_TAG, K_TRUNC_TAG, K_TRUNC_END, K_NONCELLML, K_NONCELLML, K_REMOVED, K_REMOVED, K_REMOVED,
                                         K_RENAMED, K_RENAMED, K_BACKEDGE, K_BACKEDGE, K_BACKEDGE, K_BACKEDGE, K_BACKEDGE, K_UNITCYCLE, K_UNITCYCLE, K_UNITCYCLE,
                                         K_BADENTITY, K_BADENTITY, K_BADENTITY, K_BADENTITY, K_BADENTITY, K_BADENTITY, K_BADENTITY, K_BADENTITY, K_NULLENTRY, K_NULLENTRY, K_NULLENTRY, K_NULLENTRY, K_NULLENTRY,
                                         K_MISSING, K_REMOVED, K_BACKEDGE, K_NONE};
        const unsigned tableSize = kExt ? 40 : 33;
        std::vector<const Fault *> cands;
        for (unsigned t = 0; t < tableSize && cands.empty(); ++t) {
            int kind = kExt ? tableExt[(kindPick + t) % tableSize] : table[(kindPick + t) % tableSize];
            bool preferNeeded = (candPick & 7u) != 0;
            for (int pass = 0; pass < 2 && cands.empty(); ++pass) {
                for (const auto &f : faults) {
                    if (f.kind == kind && (pass == 1 || !preferNeeded || f.needed)) {
                        cands.push_back(&f);
                    }
                }
            }
        }
        fault = *cands[(candPick >> 3) % cands.size()];
        if (fault.kind == K_TRUNC_DECL || fault.kind == K_TRUNC_TAG) {
            fault.pick = static_cast<unsigned>(src.below(4096));
            fault.pick2 = static_cast<unsigned>(src.below(4096));
        }
    }
    if (fault.kind == K_NULLENTRY) {
        sc.seqB = true; // the library has to be filled before an entry can be replaced
    }
    sc.healthy = g;
    sc.faulted = g;
    applyFault(sc.faulted, fault);
    sc.evH = evaluate(sc.healthy);
    sc.evF = evaluate(sc.faulted);
    sc.faultKind = kKindName[fault.kind];
    for (int &l : sc.limit) {
        l = 20;
    }
    // The calls left out below are made when VERIF_C07_RUN_EXCLUDED / VERIF_C07_NO_EXCLUSIONS is set (development aids; the
    // latter also changes what is generated) or when the tape asks for it:
    static const bool envNoExclusions = getenv("VERIF_C07_NO_EXCLUSIONS") != nullptr || getenv("VERIF_C07_RUN_EXCLUDED") != nullptr;
    // The last choice of a tape: a value no random tape hits in practice (1 in 10^6) makes the calls that are left out below
    // happen. Replay files of the known findings that need those calls end in it (bin/c07_replay_with_excluded_calls.py);
    // the exhaustive driver never asks (it would enumerate the radix), and reads past the end of a tape give 0.
    const size_t choicesBeforeLast = src.count;
    const bool runExcluded = !ex && src.below(1000003) == 777777;
    const bool noExclusions = envNoExclusions || runExcluded;
    // Known: flattenModel() -> checkUnitsForCycles() recurses without bound on a cycle of ordinary units. The call is left
    // out (and counted) except in a sample, because every such scenario costs a crashed child.
    bool flattenOnUnitCycle = noExclusions || !gDef.unitCycleOverflow || (bounded ? (fault.len == 1 && fault.file == 1 && sc.fileRoute && !sc.seqB) : allowKnown);
    if (sc.evF.unitCycle() && !flattenOnUnitCycle) {
        sc.skipMask |= 1u << P_FLAT_F;
        excludedUnitCycle = true;
    }
    // Known: after a failed resolution flattenModel()'s own scan only follows chains of imports and unit children. An import
    // cycle that passes through a child component or through the units of a component is not seen: flattenModel() then
    // recurses without bound (crash) or keeps building an ever deeper model (no return within 300 s). A hang costs 320 s per
    // scenario, so these calls are left out by construction (bounded universe: one representative per cycle length is kept
    // where the outcome is a crash, see the replays for the hang).
    bool cycleThroughComponent = false;
    if (fault.kind == K_BACKEDGE) {
        for (const auto &t : sc.evF.tops) {
            for (const auto &fl : t.fails) {
                cycleThroughComponent = cycleThroughComponent || (fl.reason == "import-cycle" && fl.path.find_first_of("cvne") != std::string::npos);
            }
        }
    }
    sc.cycleThroughComponent = cycleThroughComponent;
    bool excludedCycleFlatten = false;
    if (cycleThroughComponent && gDef.flattenAfterCycle && !noExclusions) {
        sc.skipMask |= 1u << P_FLAT_F;
        excludedCycleFlatten = true;
    }
    // An import cycle that crosses a directory boundary is never recognised by URL (".../sub/../sub/..." keeps growing); the
    // importer stops when the path can no longer be opened, some thousand nested calls later. That terminates with the
    // default stack of an unsanitised build, but not within the small stack the children normally get.
    if (fault.kind == K_BACKEDGE) {
        for (const auto &f : sc.faulted.files) {
            sc.deepRecursionExpected = sc.deepRecursionExpected || !f.dir.empty();
        }
    }
    // (with shared helper names there are more ways for the renaming in flattenModel() to go wrong than this predicate knows)
    const bool collision = collide || aliasCollision(sc.healthy) || aliasCollision(sc.faulted);

    // ---- description, classes
    {
        std::ostringstream t;
        t << "C07 scenario: generator=" << gen << " files=" << g.files.size() << " route=" << (sc.fileRoute ? "files" : "library(addModel)") << " order=" << (sc.seqB ? "healthy,fault,repair" : "fault,repair")
          << " importer=" << (sc.strict ? "strict" : "permissive") << "\nfault: " << fault.describe() << "\nreference verdict with the fault: " << sc.evF.verdict();
        if (const Failure *w = sc.evF.firstHard()) {
            t << " (" << w->reason << ", edge path " << w->path << ", depth " << w->depth << (w->blindAt.empty() ? "" : ", beyond what the importer fetches: " + w->blindAt) << ")";
        }
        t << "; without: " << sc.evH.verdict() << "\n";
        for (size_t i = 0; i < g.files.size(); ++i) {
            const FSpec &f = sc.faulted.files[i];
            t << "--- " << f.dir << f.fname;
            if (f.state == FS_MISSING) {
                t << " (missing)\n";
                continue;
            }
            std::string bytes = fileBytes(sc.faulted, static_cast<int>(i));
            t << (f.state != FS_OK ? " (damaged)" : "") << "\n" << (bytes.size() > 1500 ? bytes.substr(0, 1500) + "…" : bytes) << (bytes.empty() || bytes.back() != '\n' ? "\n" : "");
        }
        c.text = t.str();
        c.hash = hashStr(c.text);
        c.weight = c.text.size();
    }
    const Failure *why = sc.evF.firstHard();
    int depth = why != nullptr ? why->depth : 0;
    int cyc = fault.kind == K_BACKEDGE ? fault.len : 0;
    bool mixed = sc.evH.usesU && sc.evH.usesC;
    c.nontrivial = depth >= 2 || cyc >= 2 || mixed;
    c.cls(std::string("fault:") + kKindName[fault.kind]);
    c.cls("generator:" + gen);
    c.cls(std::string("route:") + (sc.fileRoute ? "files" : "library"));
    c.cls(std::string("order:") + (sc.seqB ? "healthy-fault-repair" : "fault-repair"));
    c.cls("verdict:" + sc.evF.verdict());
    c.cls("imports:" + std::string(mixed ? "units+components" : (sc.evH.usesC ? "components" : "units")));
    if (why != nullptr) {
        c.cls("fault-depth:" + std::string(depth >= 4 ? "4+" : std::to_string(depth)));
        c.cls("failure:" + why->reason);
        c.cls(std::string("fault:") + kKindName[fault.kind] + "/depth" + (depth >= 3 ? "3+" : std::to_string(depth)) + "/" + (mixed ? "mixed" : (sc.evH.usesC ? "C" : "U")));
    }
    if (cyc > 0) {
        c.cls("cycle-length:" + std::string(cyc >= 4 ? "4+" : std::to_string(cyc)));
    }
    if (fault.kind != K_NONE && !fault.needed) {
        c.cls("fault-not-needed");
    }
    if (fault.kind != K_NONE && sc.evF.sat() && fault.needed && fault.kind != K_UNITCYCLE) {
        c.cls("fault-harmless");
    }
    c.cls("files:" + std::string(g.files.size() >= 6 ? "6+" : std::to_string(g.files.size())));
    if (sc.evH.diamond) {
        c.cls("diamond");
    }
    if (!sc.evH.importsBlind.empty()) {
        c.cls("import-beyond-fetch");
    }
    if (permissive) {
        c.cls("permissive");
        for (const auto &f : g.files) {
            if (f.version == 11) {
                c.cls("cellml-1.1-file");
            }
        }
    }
    for (const auto &f : g.files) {
        if (f.junk) {
            c.cls("unrelated-parser-error");
        }
        if (!f.dir.empty()) {
            c.cls("sub-directory");
        }
        if (f.group) {
            c.cls("shared-import-element");
        }
    }
    if (sc.evF.unitCycle()) {
        c.cls("unit-cycle-reached");
    }
    if (sc.evH.nestedUnitsChainWithLocalChild) {
        c.cls("nested-imported-units-chain-with-local-child");
    }
    if (excluded > 0) {
        c.count("excluded:C07.*|unfetched:*", excluded);
    }
    if (excludedImportedChildUnits > 0) {
        c.count("excluded:C07.crash|flatten@*|*|ubsan:null-pointer|libcellml::flattenComponent", excludedImportedChildUnits);
    }
    if (excludedCycleFlatten) {
        c.count("excluded:C07.*|flatten@fault|back-edge|*(cycle-through-component)");
    }
    if (aliasCollision(sc.healthy)) {
        c.cls("alias-collides-with-unit-child");
    }
    if (sc.deepRecursionExpected) {
        c.cls("cycle-across-directories");
    }
    if (excludedUnitCycle) {
        c.count("excluded:C07.crash|flatten@fault|units-cycle|*checkUnitsForCycles");
    }
    if (collide) {
        c.cls("colliding-helper-names");
    }
    if (allowKnown) {
        c.cls("known-defects-allowed");
    }
    c.count("scenarios");
    static bool probesReported = false;
    if (!probesReported) {
        probesReported = true;
        c.count(std::string("defect-probe:fetch-skips-unit-child-of-local-unit-child=") + (gDef.fetchSkipsUnitChildOfLocalUnitChild ? "present" : "absent"));
        c.count(std::string("defect-probe:fetch-skips-unit-child-of-component-units=") + (gDef.fetchSkipsUnitChildOfComponentUnits ? "present" : "absent"));
        c.count(std::string("defect-probe:fetch-skips-units-of-child-component=") + (gDef.fetchSkipsUnitsOfChildComponent ? "present" : "absent"));
        c.count(std::string("defect-probe:false-flatten-cycle=") + (gDef.falseFlattenCycle ? "present" : "absent"));
        c.count(std::string("defect-probe:unit-cycle-overflow=") + (gDef.unitCycleOverflow ? "present" : "absent"));
        c.count(std::string("defect-probe:flatten-after-cycle-through-component=") + (gDef.flattenAfterCycle ? "present" : "absent"));
        c.count(std::string("defect-probe:flatten-null-child-units=") + (gDef.flattenNullChildUnits ? "present" : "absent"));
        c.count(std::string("defect-probe:fetch-skips-children-of-nested-import-element=") + (gDef.fetchSkipsChildrenOfNestedImportElement ? "present" : "absent"));
    }

    // ---- run
    const std::string base = runDirBase();
    sc.dir = base + "/c07-" + std::to_string(static_cast<long>(getpid())) + "/";
    static RunDir runDir; // created once per process (a mkdir/rmdir pair costs 5 ms on this file system), removed at exit; files are removed after every case
    if (runDir.path != sc.dir) {
        runDir.path = sc.dir;
        mkdirs(sc.dir + "sub");
    }

    std::vector<std::pair<std::string, std::string>> fails;
    bool confirmedHangOfCall[2] = {false, false}; // [0] resolve, [1] flatten
    ChildResult last;
    const bool dry = getenv("VERIF_C07_DRY") != nullptr; // development aid: generate and classify only
    for (int attempt = 0; attempt < 8 && !dry; ++attempt) {
        ChildResult r = runChild(sc);
        if (r.ret == 0 && r.done) {
            last = r;
            break;
        }
        if (r.lastPhase < 0) {
            fails.emplace_back("C07.harness|child-died-before-the-first-call", "exit " + std::to_string(r.ret) + "\n" + r.diag.substr(r.diag.size() > 3000 ? r.diag.size() - 3000 : 0));
            break;
        }
        int p = r.lastPhase;
        if (r.ret == 1000 + SIGALRM) {
            // a hang candidate: confirm with a long limit before it is reported - unless a hang of this very class is a
            // listed known finding already (nothing new would be reported; the confirmation costs 300 s per call)
            c.count("timeouts_20s");
            const std::string hangLoc = (collision && p % 2 == 1) ? "|colliding-names" : ((cycleThroughComponent && p == P_FLAT_F) ? "|cycle-through-component" : "|plain");
            const std::string hangSig = std::string("C07.hang|") + kPhaseName[p] + "|" + sc.faultKind + hangLoc;
            if (knownFindingIndex("C07", hangSig) >= 0) {
                c.count("known_hang_class_not_reconfirmed");
                fails.emplace_back(hangSig, std::string(kPhaseName[p]) + " did not return within 20 s (a hang of this class is a listed finding: not run again with 300 s)");
            } else if (confirmedHangOfCall[p % 2]) {
                // the same call (resolve / flatten) of this very scenario has been confirmed not to return in another state
                // already: three confirmations of 300 s each would exceed the time limit of the case
                c.count("hang_confirmed_once_per_scenario");
                fails.emplace_back(hangSig, std::string(kPhaseName[p]) + " did not return within 20 s (the same call was confirmed with 300 s in another state of this scenario)");
            } else {
                sc.limit[p] = 300;
                ChildResult r2 = runChild(sc);
                sc.limit[p] = 20;
                if (r2.ret == 0 && r2.done) {
                    c.count("slow_but_terminating");
                    last = r2;
                    break;
                }
                if (r2.lastPhase == p && r2.ret == 1000 + SIGALRM) {
                    confirmedHangOfCall[p % 2] = true;
                    fails.emplace_back(hangSig, std::string(kPhaseName[p]) + " did not return within 20 s and, run again, not within 300 s");
                } else {
                    r = r2;
                    p = r.lastPhase;
                }
            }
        }
        if (r.ret != 1000 + SIGALRM) {
            // A stack overflow is sometimes reported without a single frame (the unwinder gives up); the frame is what
            // tells findings apart, so ask again.
            for (int again = 0; again < 3 && crashToken(r).find("|?") != std::string::npos; ++again) {
                ChildResult r3 = runChild(sc);
                if (r3.ret != 0 && r3.lastPhase == p && r3.ret != 1000 + SIGALRM) {
                    r = r3;
                }
            }
            const bool nestedChain = p % 2 == 1 && ((p == P_FLAT_F || p == P_FLAT_F2) ? sc.evF : sc.evH).nestedUnitsChainWithLocalChild;
            std::string loc = collision && p % 2 == 1 ? "|colliding-names" : (cycleThroughComponent && p == P_FLAT_F ? "|cycle-through-component" : (nestedChain ? "|nested-imported-units-chain-with-local-child" : ""));
            fails.emplace_back(std::string("C07.crash|") + kPhaseName[p] + "|" + sc.faultKind + "|" + crashToken(r) + loc,
                               std::string(kPhaseName[p]) + " killed the process (" + std::to_string(r.ret) + "):\n" + r.diag.substr(r.diag.size() > 2500 ? r.diag.size() - 2500 : 0));
        }
        c.count("calls_that_killed_the_child");
        sc.skipMask |= 1u << p;
        if (p % 2 == 0) {
            sc.skipMask |= 1u << (p + 1);
        }
        last = r;
    }
    for (const auto &f : last.fails) {
        fails.push_back(f);
    }
    for (const auto &k : last.counters) {
        c.count(k.first, k.second);
    }
    c.text += "observed: " + last.rets + "\n";
    c.text += "choices read before the last one: " + std::to_string(choicesBeforeLast) + (runExcluded ? " (this tape asks for the calls that are normally left out)" : "") + "\n";
    for (const auto &f : fails) {
        c.alsoFailed.push_back(f);
        c.text += "FAILED " + f.first + "\n";
    }
    if (const char *keep = getenv("VERIF_C07_KEEP_FILES")) { // development aid: the healthy files of the case, for other tools
        for (size_t i = 0; i < sc.healthy.files.size(); ++i) {
            mkdirs(std::string(keep) + "/sub");
            std::ofstream o(std::string(keep) + "/" + sc.healthy.files[i].dir + sc.healthy.files[i].fname);
            o << serialise(sc.healthy, static_cast<int>(i));
        }
    }
    if (const char *log = getenv("VERIF_C07_LOG")) { // development aid: every failing signature of every case
        std::ofstream o(log, std::ios::app);
        for (const auto &f : fails) {
            o << f.first << "\t" << fault.describe() << "\t" << c.hash << "\n";
        }
    }

    // ---- remove the run-private directory
    for (size_t i = 0; i < g.files.size(); ++i) {
        unlink((sc.dir + g.files[i].fname).c_str());
        unlink((sc.dir + "sub/" + g.files[i].fname).c_str());
        unlink((sc.dir + g.files[i].dir + g.files[i].fname).c_str());
    }
    for (size_t i = g.files.size(); i-- > 0;) { // nested directories (C07_ext), deepest first
        std::string d = g.files[i].dir;
        while (!d.empty() && d != "sub/") {
            rmdir((sc.dir + d).c_str());
            d.erase(d.size() - 1);
            size_t q = d.rfind('/');
            d = q == std::string::npos ? std::string() : d.substr(0, q + 1);
        }
    }
}

// Warm-up in the worker itself: UBSan's vptr check asks the kernel (a pipe per query) whether an object's memory is readable the
// first time it meets a dynamic type; the answers are cached per process. Without this every forked child starts cold and
// spends most of its time on those queries. The graph is healthy and lives in the importer's library: nothing here can hang.
void warmUp()
{
    Graph g;
    g.files.push_back(newFile(0));
    g.files.push_back(newFile(1));
    g.files.push_back(newFile(2));
    g.files[0].units.push_back(uImport("u", 1, "u"));
    g.files[0].comps.push_back(cImport("c", 1, "c"));
    g.files[1].units.push_back(uLocal("u", {"w1", "second"}));
    g.files[1].units.push_back(uImport("w1", 2, "u"));
    CEnt c = cLocal("c", {"w1"});
    c.kids.push_back(cImport("d1", 2, "c"));
    g.files[1].comps.push_back(c);
    g.files[2].units.push_back(uLocal("u", {"second"}));
    g.files[2].comps.push_back(cLocal("c", {"u"}));
    auto imp = Importer::create(true);
    for (int i = 1; i <= 2; ++i) {
        auto p = Parser::create(true);
        imp->addModel(p->parseModel(serialise(g, i)), g.files[static_cast<size_t>(i)].fname);
    }
    auto p = Parser::create(true);
    auto m = p->parseModel(serialise(g, 0));
    imp->resolveImports(m, "/nonexistent-c07/");
    (void)checkLogger(imp);
    (void)m->hasUnresolvedImports();
    auto flat = imp->flattenModel(m);
    (void)flat;
    auto m2 = p->parseModel(serialise(g, 0));
    auto imp2 = Importer::create(false);
    imp2->resolveImports(m2, "/nonexistent-c07/");
    (void)checkLogger(imp2);
    imp2->flattenModel(m2);
}

// ---- probes: which of the known defects does the library under test still have?
struct ProbeJob
{
    int which;
};

Graph probeGraph(int which)
{
    Graph g;
    for (int i = 0; i < 4; ++i) {
        g.files.push_back(newFile(i));
    }
    g.files[3].units.push_back(uLocal("u", {"second"}));
    g.files[3].comps.push_back(cLocal("c", {"second"}));
    g.files[2].units.push_back(uLocal("u", {"second"}));
    g.files[2].comps.push_back(cLocal("c", {"second"}));
    switch (which) {
    case 0: // u = {v1}, v1 = {w1}, w1 imported
        g.files[0].units.push_back(uImport("u", 1, "u"));
        g.files[1].units.push_back(uLocal("u", {"v1"}));
        g.files[1].units.push_back(uLocal("v1", {"w1", "metre"}));
        g.files[1].units.push_back(uImport("w1", 2, "u"));
        break;
    case 1: // variable of c in v1 = {w1}, w1 imported
        g.files[0].comps.push_back(cImport("c", 1, "c"));
        g.files[1].comps.push_back(cLocal("c", {"v1"}));
        g.files[1].units.push_back(uLocal("v1", {"w1"}));
        g.files[1].units.push_back(uImport("w1", 2, "u"));
        break;
    case 2: { // child d1 of c with a variable in w1, w1 imported
        g.files[0].comps.push_back(cImport("c", 1, "c"));
        CEnt c = cLocal("c", {"second"});
        c.kids.push_back(cLocal("d1", {"w1"}));
        g.files[1].comps.push_back(c);
        g.files[1].units.push_back(uImport("w1", 2, "u"));
        break;
    }
    case 3: // u = {w1, wb1} both from f2, f2's u imported from f3
        g.files[0].units.push_back(uImport("u", 1, "u"));
        g.files[1].units.push_back(uLocal("u", {"w1", "wb1"}));
        g.files[1].units.push_back(uImport("w1", 2, "u"));
        g.files[1].units.push_back(uImport("wb1", 2, "u"));
        g.files[2].units.clear();
        g.files[2].units.push_back(uImport("u", 3, "u"));
        break;
    case 4: // cycle of ordinary units in f1
        g.files[0].units.push_back(uImport("u", 1, "u"));
        g.files[1].units.push_back(uLocal("u", {"second", "u"}));
        break;
    case 7: { // f1: c with an imported child d1; d1 (an import element of f1) encapsulates m1, imported from f3
        g.files[0].comps.push_back(cImport("c", 1, "c"));
        CEnt c = cLocal("c", {"second"});
        CEnt d = cImport("d1", 2, "c");
        d.kids.push_back(cImport("m1", 3, "c"));
        c.kids.push_back(d);
        g.files[1].comps.push_back(c);
        break;
    }
    case 6: { // f0: c imported, with a local child that uses units imported by f0
        CEnt c = cImport("c", 1, "c");
        c.kids.push_back(cLocal("d0", {"u0"}));
        g.files[0].comps.push_back(c);
        g.files[0].units.push_back(uImport("u0", 2, "u"));
        g.files[1].comps.push_back(cLocal("c", {"second"}));
        break;
    }
    default: { // child d1 of c imports f2's c, which imports itself
        g.files[0].comps.push_back(cImport("c", 1, "c"));
        CEnt c = cLocal("c", {"second"});
        c.kids.push_back(cImport("d1", 2, "c"));
        g.files[1].comps.push_back(c);
        g.files[2].comps.clear();
        g.files[2].comps.push_back(cImport("c", 2, "c"));
        break;
    }
    }
    return g;
}

void probeChild(void *arg)
{
    const int which = static_cast<ProbeJob *>(arg)->which;
    signal(SIGALRM, SIG_DFL);
    alarm(15);
    struct rlimit rl;
    if (getrlimit(RLIMIT_STACK, &rl) == 0 && (rl.rlim_cur == RLIM_INFINITY || rl.rlim_cur > (64ul << 20))) {
        rl.rlim_cur = 64ul << 20;
        setrlimit(RLIMIT_STACK, &rl);
    }
    Graph g = probeGraph(which);
    auto imp = Importer::create(true);
    for (int i = 1; i <= 3; ++i) {
        auto p = Parser::create(true);
        imp->addModel(p->parseModel(serialise(g, i)), g.files[static_cast<size_t>(i)].fname);
    }
    auto p = Parser::create(true);
    auto m = p->parseModel(serialise(g, 0));
    bool r = imp->resolveImports(m, "/nonexistent-c07/");
    bool present;
    if (which <= 2 || which == 7) {
        present = r && m->hasUnresolvedImports();
    } else if (which == 3) {
        present = r && imp->flattenModel(m) == nullptr;
    } else {
        emit("PROBE-BEFORE-FLATTEN");
        signal(SIGSEGV, SIG_DFL); // die quietly: a symbolised sanitizer report costs a second per probe
        signal(SIGBUS, SIG_DFL);
        // ... and soon: the runaway recursion scans a history that grows with the depth, so the time to the end of the stack
        // is quadratic in its size
        if (getrlimit(RLIMIT_STACK, &rl) == 0) {
            rl.rlim_cur = 2ul << 20;
            setrlimit(RLIMIT_STACK, &rl);
        }
        (void)imp->flattenModel(m); // dies (or is killed by the alarm) when the defect is present
        present = false;
    }
    emit(std::string("PROBE\t") + (present ? "1" : "0"));
}

void probeDefects()
{
    bool *flags[] = {&gDef.fetchSkipsUnitChildOfLocalUnitChild, &gDef.fetchSkipsUnitChildOfComponentUnits, &gDef.fetchSkipsUnitsOfChildComponent,
                     &gDef.falseFlattenCycle, &gDef.unitCycleOverflow, &gDef.flattenAfterCycle, &gDef.flattenNullChildUnits, &gDef.fetchSkipsChildrenOfNestedImportElement};
    for (int i = 0; i < 8; ++i) {
        ProbeJob job {i};
        std::string diag;
        int ret = runIsolated(probeChild, &job, 0, &diag);
        if (diag.find("VPR\tPROBE\t0") != std::string::npos && ret == 0) {
            *flags[i] = false;
        } else if (diag.find("VPR\tPROBE\t1") != std::string::npos) {
            *flags[i] = true;
        } else {
            *flags[i] = true; // the child died: present (probes 4, 5), or the probe itself is broken: stay on the careful side
        }
    }
}

void initProcess()
{
    warmUp();
    if (getenv("VERIF_C07_DRY") == nullptr) {
        probeDefects();
    }
}

} // namespace

// Every case forks; the cost of fork() grows with the resident set of the worker, most of which would be ASan's quarantine
// of freed memory (256 MiB by default). A small quarantine keeps forking cheap and does not weaken detection in the
// short-lived children. (ASAN_OPTIONS from the environment still override this.)
extern "C" const char *__asan_default_options()
{
    return "quarantine_size_mb=8";
}

extern "C" const char *__ubsan_default_options()
{
    return "print_stacktrace=1"; // so that a dead child's report names the libcellml frame also outside bin/check
}

namespace vp {
Property property = {
    "C07",
    "fault_enumeration",
    "import graphs are generated as data (files f0..fn, entity-level import / unit-child / variable-units / child-component edges, no entity depending on itself, files only importing from files with a larger index) from three "
    "universes: a bounded catalogue of chains with at most 3 library files (enumerated completely by --mode ex), chains of up to 8 files, layered random graphs of up to 9 files; one fault (file missing, truncated at 0 bytes / in "
    "the XML declaration / in a start tag / before the closing tag, replaced by non-CellML XML, entity removed or renamed, back-edge closing an entity-level import cycle, cycle of ordinary units) is applied, then undone. "
    "Files are written to a run-private directory or registered with addModel(); every resolveImports/flattenModel call runs in a forked child with a 20 s limit (a time-out is re-run with 300 s before it is reported). A "
    "reference depth-first search over the data decides for every import element of f0 whether it can be satisfied; return values, hasUnresolvedImports(), the items of the issues and the Logger invariants are compared with it, "
    "before and after the repair, on the same importer (removeAllModels()) and on a new one. Non-trivial: fault at import depth >= 2, or an import cycle of length >= 2, or units and component imports mixed. Distinct = hash of the "
    "scenario text (files as written, fault, route, order).",
    run,
    setMode,
    {"a dangling *local* reference (unit child or variable units naming units that do not exist in the same file) is not judged: the statement does not say whether it makes an import unsatisfiable",
     "a model-level unknown element in an imported file (parser error unrelated to the imported entity) is expected to be tolerated, as the importer documents by erasing such errors",
     "with a cycle of ordinary units flattenModel may return null (with an issue) although every import resolves",
     "'fresh resolution' after the repair: removeAllModels() followed by resolveImports() on the same importer, and a new importer",
     "hang confirmation uses a 300 s limit on the sanitised build instead of the plain build"},
    initProcess,
};
}

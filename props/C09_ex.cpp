// C09 (histories), bounded-exhaustive binary: props/C09.cpp compiled with C09_EX_ONLY, so that every mode of this binary
// (ex, and above all --replay of a tape written by an ex stage) decodes tapes with the exhaustive generator; the C09
// binary decodes replays with the random-history generator. A tape does not record which generator wrote it.
#define C09_EX_ONLY 1
#include "C09.cpp"

// C09 (histories), second binary of the same predicate: props/C09.cpp compiled under another name so that two
// bounded-exhaustive stages of one plan (bound 2 under ASan with C09, bound 3 on the plain build with C09_ex) write
// separate partial-evidence files (bin/check names them <binary>-<mode>-w<worker>-g<generation>.json).
#include "C09.cpp"

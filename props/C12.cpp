// C12 — operations are pure: no hidden state and no mutation of their input.
//
// A case is a pool of inputs (documents: valid 2.0 / 1.x / almost valid / garbage; API-built models: analysable, generic,
// broken; an import forest registered with Importer::addModel) and a history of 2-12 service calls over them, one of which is
// the probe. Nothing of libCellML or libxml2 is ever called in the worker process itself: every execution happens in a child
// process spawned from this binary (new address space, same allocator state every time), so that process-global state is
// exactly what the executed calls made it (no xmlKeepBlanksDefault() reset anywhere).
//   run F : a fresh process executes only the probe's dependency slice (what is needed to build its arguments), the probe on
//           a new instance                                                                                        -> (i)
//   run H : a fresh process executes the whole history, instances shared between calls unless the plan says "new"; the probe
//           runs on the shared instance (ii) and is repeated at once (iv, run "H2")
//   run N : forked from H immediately before the probe: same process state, probe on a new instance              -> (iii)
// Children report observations (raw dumps plus, computed after their last library call, the same dumps with canonical MathML)
// and the verdicts of the within-run oracles (argument unchanged, held results unchanged); the worker compares runs.
#include <libcellml>

#include <algorithm>
#include <chrono>
#include <cstring>
#include <functional>
#include <fcntl.h>
#include <fstream>
#include <sys/stat.h>
#include <spawn.h>
#include <sys/wait.h>
#include <unistd.h>

extern char **environ;

#include "c12_amdump.h"
#include "gen.h"
#include "gt.h"
#include "prop.h"
#include "spec.h"

using namespace vp;
using namespace libcellml;

namespace {

enum Svc
{
    PARSE,
    PRINT,
    VALIDATE,
    ANALYSE,
    GENERATE,
    RESOLVE,
    FLATTEN,
    ANNOTATE,
    NSVC
};
const char *const kSvc[NSVC] = {"Parser", "Printer", "Validator", "Analyser", "Generator", "Importer::resolveImports", "Importer::flattenModel", "Annotator"};
const char *const kShort[NSVC] = {"parse", "print", "validate", "analyse", "generate", "resolve", "flatten", "annotate"};
const char *const kBasePath = "/nonexistent-vp-c12/base/"; // every file open fails with ENOENT
const char *const kKnownWhitespace = "C12.history|parse-after-print|math-whitespace";

struct DocItem
{
    std::string kind, text;
    bool math = false, imports = false, issueProne = false;
};
struct ModelItem
{
    std::string kind;
    ModelSpec spec;
    bool math = false, imports = false, issueProne = false;
    bool unlinked = false; // variables refer to the model's units by name only (the state setUnits(name) leaves until linkUnits())
};
struct LibEntry
{
    std::string key;
    ModelSpec spec;
};
struct Op
{
    Svc svc = PARSE;
    int refKind = 0; // 0: pool item (a document for PARSE, a model otherwise); 1: result of op `ref` (printed text / returned model)
    int ref = 0;
    bool strict = true, autoIds = false, python = false, fresh = false;
    bool files = false; // RESOLVE: an Importer without registered models, the library documents are read from files
    int amOp = -1; // GENERATE: the ANALYSE op whose AnalyserModel is used
    std::vector<unsigned> ext; // ANALYSE: external variables as positions in the traversal of the model's variables (mod count)
};
struct CaseData
{
    std::vector<DocItem> docs;
    std::vector<ModelItem> models;
    std::vector<LibEntry> lib;
    std::vector<Op> ops;
    int probe = 0;
    int twinOrder = 0; // != 0: the probe analyses a model on the analyser that has just analysed its twin (same units name, other meaning)
    bool libFiles = false, libFileBroken = false; // the library also exists as files; the first one has a parse error inside the imported component
    std::vector<char> slice; // ops the probe depends on (including itself)
};

// ------------------------------------------------------------------------------------------------ text helpers

std::string clipTo(const std::string &s, size_t n)
{
    return s.size() <= n ? s : s.substr(0, n) + "...[" + std::to_string(s.size() - n) + " more bytes]";
}

bool specHasMath(const ModelSpec &s)
{
    for (const auto &c : s.comps) {
        if (!c.math.empty()) {
            return true;
        }
        for (const auto &r : c.resets) {
            if (!r.testValue.empty() || !r.resetValue.empty()) {
                return true;
            }
        }
    }
    return false;
}

std::string opText(const CaseData &cd, size_t i)
{
    const Op &op = cd.ops[i];
    std::string s = "op" + std::to_string(i) + (static_cast<int>(i) == cd.probe ? " [PROBE] " : " ") + kShort[op.svc] + "(";
    if (op.svc == GENERATE) {
        s += "AnalyserModel of op" + std::to_string(op.amOp) + (op.python ? ", Python" : ", C");
    } else if (op.svc == PARSE) {
        s += op.refKind == 0 ? "doc" + std::to_string(op.ref) : "text printed by op" + std::to_string(op.ref);
        s += op.strict ? ", strict" : ", permissive";
    } else {
        s += op.refKind == 0 ? "model" + std::to_string(op.ref) : "model returned by op" + std::to_string(op.ref);
        if (op.svc == PRINT && op.autoIds) {
            s += ", autoIds";
        }
        if (op.svc == RESOLVE && op.files) {
            s += ", library read from files";
        }
        if (op.svc == ANALYSE && !op.ext.empty()) {
            s += ", externals=";
            for (unsigned e : op.ext) {
                s += (e >= 48 ? "all-with-equivalents-from#" : "#") + std::to_string(e) + " ";
            }
        }
    }
    s += ")";
    s += static_cast<int>(i) == cd.probe ? "" : (op.fresh ? " on a new instance" : " on the shared instance");
    return s;
}

std::string describe(const CaseData &cd)
{
    std::string s;
    for (size_t i = 0; i < cd.ops.size(); ++i) {
        s += opText(cd, i) + (cd.slice[i] != 0 && static_cast<int>(i) != cd.probe ? "   {dependency of the probe}" : "") + "\n";
    }
    for (size_t i = 0; i < cd.docs.size(); ++i) {
        s += "--- doc" + std::to_string(i) + " (" + cd.docs[i].kind + ")\n" + clipTo(cd.docs[i].text, 6000) + "\n";
    }
    for (size_t i = 0; i < cd.models.size(); ++i) {
        s += "--- model" + std::to_string(i) + " (" + cd.models[i].kind + ", built through the API from)\n" + clipTo(specToText(cd.models[i].spec), 6000) + "\n";
    }
    for (const auto &l : cd.lib) {
        s += "--- importer library '" + l.key + "'" + (cd.libFiles ? std::string(" (also a file") + (cd.libFileBroken && &l == &cd.lib[0] ? ", there with an unknown attribute on its first variable)" : ")") : std::string()) + "\n" + clipTo(specToText(l.spec), 4000) + "\n";
    }
    return s;
}

// ------------------------------------------------------------------------------------------------ generation

std::vector<size_t> findAll(const std::string &s, const std::string &pat)
{
    std::vector<size_t> r;
    size_t p = 0;
    while ((p = s.find(pat, p)) != std::string::npos) {
        r.push_back(p);
        p += pat.size();
    }
    return r;
}

// One text edit that makes a valid document almost valid (or not XML at all).
void editDoc(std::string &doc, Src &src)
{
    auto replaceOne = [&](const std::string &from, const std::string &to) {
        auto occ = findAll(doc, from);
        if (occ.empty()) {
            return false;
        }
        doc.replace(src.pick(occ), from.size(), to);
        return true;
    };
    switch (src.below(12)) {
    case 0: replaceOne(" units=\"", " units=\"undefined_units_") || replaceOne(" name=\"", " name=\"9"); break;
    case 1: replaceOne("</component>", "") || replaceOne("</model>", ""); break; // not well formed
    case 2: replaceOne("<variable ", "stray text<variable ") || replaceOne("<component ", "stray text<component "); break;
    case 3: replaceOne(" name=\"", " nam=\""); break;
    case 4: doc = doc.substr(0, doc.size() - std::min<size_t>(doc.size(), 1 + src.below(std::max<size_t>(2, doc.size() / 2)))); break; // truncated
    case 5:
        if (doc.size() % 2 == 0) {
            replaceOne("<ci>", "<ci>no_such_variable_") || replaceOne(" name=\"", " name=\"\" x=\"");
        } else {
            replaceOne("<ci>", "<ci><!-- one --> <!-- two -->") || replaceOne("</cn>", " <!-- c --> </cn>") || replaceOne(" name=\"", " name=\"\" x=\"");
        }
        break;
    case 6: replaceOne(" cellml:units=\"", " cellml:unitz=\""); break;
    case 7: replaceOne("cellml/2.0#", "cellml/2.1#") || replaceOne("cellml/1.1#", "cellml/1.2#") || replaceOne("cellml/1.0#", "cellml/0.9#"); break;
    case 8: { // duplicate a component element (duplicate names, duplicate ids)
        auto occ = findAll(doc, "<component ");
        if (!occ.empty()) {
            size_t p = src.pick(occ);
            size_t e = doc.find("</component>", p);
            size_t selfClose = doc.find("/>", p);
            size_t gt = doc.find('>', p);
            if (selfClose != std::string::npos && gt != std::string::npos && selfClose + 1 == gt) {
                doc.insert(p, doc.substr(p, gt + 1 - p));
            } else if (e != std::string::npos) {
                doc.insert(p, doc.substr(p, e + 12 - p));
            }
        }
        break;
    }
    case 9: replaceOne("<apply>", "<apply><unknown_operator/>") || replaceOne("<model ", "<model extra=\"1\" "); break;
    case 10: replaceOne(" initial_value=\"", " initial_value=\"1e") || replaceOne(" interface=\"", " interface=\"sideways_"); break;
    default: replaceOne("</math>", "<!-- c --> text </math>") || replaceOne("</model>", "<!-- c --></model>"); break;
    }
}

// A valid-looking document in which n variables each have two resets of the same order: the validator reports one issue
// per variable (and the order in which it does so must not depend on anything but the document).
std::string duplicateResetOrdersDoc(size_t n)
{
    std::string d = "<?xml version=\"1.0\" encoding=\"UTF-8\"?>\n<model xmlns=\"http://www.cellml.org/cellml/2.0#\" name=\"duplicate_reset_orders\">\n <component name=\"c\">\n";
    const char *names[] = {"a", "b", "p", "q", "r", "s"};
    n = std::min<size_t>(n, sizeof names / sizeof names[0]);
    for (size_t i = 0; i < n; ++i) {
        d += std::string("  <variable name=\"") + names[i] + "\" units=\"dimensionless\" initial_value=\"0\"/>\n";
    }
    for (size_t i = 0; i < n; ++i) {
        for (int k = 0; k < 2; ++k) {
            d += std::string("  <reset variable=\"") + names[i] + "\" test_variable=\"" + names[i] + "\" order=\"1\">\n   <test_value>\n    <math xmlns=\"http://www.w3.org/1998/Math/MathML\" xmlns:cellml=\"http://www.cellml.org/cellml/2.0#\">\n     <cn cellml:units=\"dimensionless\">1</cn>\n    </math>\n   </test_value>\n"
                             "   <reset_value>\n    <math xmlns=\"http://www.w3.org/1998/Math/MathML\" xmlns:cellml=\"http://www.cellml.org/cellml/2.0#\">\n     <cn cellml:units=\"dimensionless\">0</cn>\n    </math>\n   </reset_value>\n  </reset>\n";
        }
    }
    return d + " </component>\n</model>\n";
}

std::string garbageDoc(Src &src)
{
    static const std::vector<std::string> fixed = {
        "",
        "this is not XML",
        "<model/>",
        "<?xml version=\"1.0\"?><a><b></a>",
        "<model xmlns=\"http://www.cellml.org/cellml/2.0#\"/>",
        "<?xml version=\"1.0\" encoding=\"UTF-8\"?>\n<model xmlns=\"http://www.cellml.org/cellml/2.0#\" name=\"m\"><component/><units/><banana/>text</model>",
        "<html xmlns=\"http://www.w3.org/1999/xhtml\"><body><p>hello</p></body></html>",
        "<model xmlns=\"http://www.cellml.org/cellml/2.0#\" name=\"m\"><component name=\"c\"><math xmlns=\"http://www.w3.org/1998/Math/MathML\">\n  <apply>\n  </apply>\n</math></component></model>",
    };
    size_t k = src.below(fixed.size() + 1);
    if (k < fixed.size()) {
        return fixed[k];
    }
    static const char alphabet[] = "<>/=\"' abcmodelunitscomponent\n&;#:x012";
    std::string s;
    size_t n = 1 + src.below(60);
    for (size_t i = 0; i < n; ++i) {
        s += alphabet[src.below(sizeof alphabet - 1)];
    }
    return s;
}

GtOptions smallGt(int maxComps)
{
    GtOptions o;
    o.maxComps = maxComps;
    o.maxClasses = 5;
    o.exprDepth = 2;
    return o;
}

GenOpts smallGen()
{
    GenOpts o;
    o.maxComps = 3;
    o.maxVars = 3;
    o.maxUnits = 3;
    return o;
}

// A model that fails validation: an analysable model with one well-defined defect.
const unsigned kBreakMalformedMath = 4;

void breakSpec(ModelSpec &s, Src &src, unsigned breakKind, std::string &how)
{
    std::vector<std::pair<size_t, size_t>> vars;
    for (size_t c = 0; c < s.comps.size(); ++c) {
        for (size_t v = 0; v < s.comps[c].vars.size(); ++v) {
            vars.push_back({c, v});
        }
    }
    if (vars.empty()) {
        s.name = "9 not an identifier";
        how = "model name";
        return;
    }
    auto pv = src.pick(vars);
    VarSpec &v = s.comps[pv.first].vars[pv.second];
    switch (breakKind) {
    case kBreakMalformedMath:
        // cannot come out of the parser, only out of Component::setMath(): the printer reports it
        s.comps[pv.first].math.push_back("<math xmlns=\"http://www.w3.org/1998/Math/MathML\"><apply><eq/><ci>" + v.name + "</ci></math>");
        how = "math that is not well-formed XML";
        break;
    case 0:
        v.units = "undefined_units_x";
        how = "variable with undefined units";
        break;
    case 1:
        v.name = "9lives";
        how = "variable name not an identifier";
        break;
    case 2: {
        // three variants chosen without a tape read of their own (saved tapes keep decoding to the same histories)
        const std::string head = "<math xmlns=\"http://www.w3.org/1998/Math/MathML\"><apply><eq/>", cnAttrs = " xmlns:cellml=\"http://www.cellml.org/cellml/2.0#\" cellml:units=\"dimensionless\"";
        switch ((vars.size() + pv.second) % 3) {
        case 0:
            s.comps[pv.first].math.push_back(head + "<ci>no_such_variable</ci><cn" + cnAttrs + ">1</cn></apply></math>");
            how = "math referencing a missing variable";
            break;
        case 1:
            // whether the blank between the comments is a node of its own depends on libxml2's keep-blanks default
            s.comps[pv.first].math.push_back(head + "<ci><!-- one --> <!-- two -->" + v.name + "</ci><cn" + cnAttrs + ">1</cn></apply></math>");
            how = "math with comments and a blank inside ci";
            break;
        default:
            s.comps[pv.first].math.push_back(head + "<ci>" + v.name + "</ci><cn" + cnAttrs + "><!-- one --> <!-- two -->1</cn></apply></math>");
            how = "math with comments and a blank inside cn";
            break;
        }
        break;
    }
    default:
        v.initial = "not_a_number_or_variable";
        how = "bad initial value";
        break;
    }
}

struct PoolPlan
{
    std::vector<unsigned> docKinds, modelKinds, modelBreaks;
    bool forest = false;
};

Svc pickSvc(Src &src)
{
    static const Svc table[] = {PARSE, PRINT, ANALYSE, VALIDATE, PARSE, PRINT, ANALYSE, GENERATE, VALIDATE, GENERATE, RESOLVE, FLATTEN, ANNOTATE, PARSE, PRINT, ANALYSE, FLATTEN, RESOLVE};
    return table[src.below(sizeof table / sizeof table[0])];
}

bool docKindIssueProne(unsigned k)
{
    return k == 2 || k == 3 || k == 5;
}
bool modelKindIssueProne(unsigned k)
{
    return k == 2;
}

CaseData generate(Src &src)
{
    CaseData cd;
    // ---- plan (drawn first so that short tapes still give every feature)
    const size_t nOps = 2 + src.below(11);
    cd.probe = static_cast<int>(nOps - 1 - (src.flip(40) ? src.below(nOps - 1) : 0)); // mostly the last call, never the first
    Svc probeSvc = pickSvc(src);
    const bool resetBias = cd.probe >= 2 && src.flip(35); // the call before the probe is the same service on an input that yields issues
    PoolPlan pp;
    const size_t nDocs = 1 + src.below(3), nModels = 1 + src.below(3);
    pp.forest = src.flip(50);
    // document kinds: 0 analysable model as 2.0 text, 1 generic valid 2.0, 2 almost valid, 3 garbage, 4 CellML 1.x, 5 several issues of one kind, 6 forest root as text
    for (size_t i = 0; i < nDocs; ++i) {
        pp.docKinds.push_back(static_cast<unsigned>(src.below(pp.forest ? 7 : 6)));
    }
    // model kinds: 0 analysable, 1 generic valid, 2 broken (fails validation), 3 forest root
    for (size_t i = 0; i < nModels; ++i) {
        pp.modelKinds.push_back(static_cast<unsigned>(src.below(pp.forest ? 4 : 3)));
        pp.modelBreaks.push_back(pp.modelKinds.back() == 2 ? static_cast<unsigned>(src.below(5)) : 0);
    }

    // ---- history
    auto modelCandidates = [&](size_t upTo, const std::function<bool(bool pool, size_t idx)> &pred) {
        std::vector<std::pair<int, int>> r;
        for (size_t m = 0; m < nModels; ++m) {
            if (pred(true, m)) {
                r.push_back({0, static_cast<int>(m)});
            }
        }
        for (size_t k = 0; k < upTo; ++k) {
            if ((cd.ops[k].svc == PARSE || cd.ops[k].svc == FLATTEN) && pred(false, k)) {
                r.push_back({1, static_cast<int>(k)});
            }
        }
        return r;
    };
    auto any = [](bool, size_t) { return true; };
    for (size_t i = 0; i < nOps; ++i) {
        Op op;
        const bool isProbe = static_cast<int>(i) == cd.probe;
        const bool isResetPartner = resetBias && static_cast<int>(i) + 1 == cd.probe;
        op.svc = (isProbe || isResetPartner) ? probeSvc : pickSvc(src);
        if (op.svc == GENERATE) {
            std::vector<int> analyses;
            for (size_t k = 0; k < i; ++k) {
                if (cd.ops[k].svc == ANALYSE) {
                    analyses.push_back(static_cast<int>(k));
                }
            }
            if (analyses.empty()) {
                op.svc = ANALYSE;
                if (isProbe) {
                    probeSvc = ANALYSE;
                }
            } else {
                op.amOp = analyses[analyses.size() - 1 - src.below(analyses.size())];
                op.python = src.flip(40);
            }
        }
        op.fresh = !isResetPartner && src.flip(30);
        switch (op.svc) {
        case PARSE: {
            std::vector<int> prints;
            for (size_t k = 0; k < i; ++k) {
                if (cd.ops[k].svc == PRINT) {
                    prints.push_back(static_cast<int>(k));
                }
            }
            if (!prints.empty() && !isResetPartner && src.flip(30)) {
                op.refKind = 1;
                op.ref = src.pick(prints);
            } else {
                op.refKind = 0;
                op.ref = static_cast<int>(src.below(nDocs));
                if (isResetPartner) {
                    for (size_t d = 0; d < nDocs; ++d) {
                        if (docKindIssueProne(pp.docKinds[d])) {
                            op.ref = static_cast<int>(d);
                            break;
                        }
                    }
                }
            }
            op.strict = !src.flip(35);
            break;
        }
        case GENERATE: break;
        default: {
            std::vector<std::pair<int, int>> cands;
            if (op.svc == FLATTEN && src.flip(70)) {
                // a model an earlier call resolved
                cands = modelCandidates(i, [&](bool pool, size_t idx) {
                    for (size_t k = 0; k < i; ++k) {
                        if (cd.ops[k].svc == RESOLVE && cd.ops[k].refKind == (pool ? 0 : 1) && cd.ops[k].ref == static_cast<int>(idx)) {
                            return true;
                        }
                    }
                    return false;
                });
            } else if ((op.svc == RESOLVE || op.svc == FLATTEN) && src.flip(75)) {
                cands = modelCandidates(i, [&](bool pool, size_t idx) {
                    if (pool) {
                        return pp.modelKinds[idx] == 3 || pp.modelKinds[idx] == 1 || (op.svc == FLATTEN && pp.modelKinds[idx] == 0);
                    }
                    const Op &o = cd.ops[idx];
                    return o.svc == PARSE && o.refKind == 0 && (pp.docKinds[static_cast<size_t>(o.ref)] == 6 || pp.docKinds[static_cast<size_t>(o.ref)] == 1);
                });
            } else if (isResetPartner) {
                cands = modelCandidates(i, [&](bool pool, size_t idx) { return pool && modelKindIssueProne(pp.modelKinds[idx]); });
            } else if ((op.svc == ANALYSE || op.svc == VALIDATE) && src.flip(60)) {
                cands = modelCandidates(i, [&](bool pool, size_t idx) {
                    if (pool) {
                        return pp.modelKinds[idx] == 0 || pp.modelKinds[idx] == 2;
                    }
                    const Op &o = cd.ops[idx];
                    return o.svc == FLATTEN || (o.svc == PARSE && o.refKind == 0 && (pp.docKinds[static_cast<size_t>(o.ref)] == 0 || pp.docKinds[static_cast<size_t>(o.ref)] == 5));
                });
            }
            if (cands.empty()) {
                cands = modelCandidates(i, any);
            }
            auto pick = cands[src.below(cands.size())];
            op.refKind = pick.first;
            op.ref = pick.second;
            if (op.svc == PRINT) {
                op.autoIds = src.flip(30);
            }
            if (op.svc == ANALYSE && src.flip(35)) {
                size_t n = 1 + src.below(3);
                for (size_t k = 0; k < n; ++k) {
                    op.ext.push_back(static_cast<unsigned>(src.below(64)));
                }
            }
            break;
        }
        }
        cd.ops.push_back(op);
    }

    // ---- pool contents
    ModelSpec lib0;
    std::string lib0Comp, lib0Units;
    ModelSpec rootSpec;
    if (pp.forest) {
        GtModel g = genGroundTruthModel(src, smallGt(1));
        lib0 = g.spec;
        lib0.name = "lib0_model";
        lib0Comp = lib0.comps.empty() ? "main" : lib0.comps[0].name;
        for (const auto &u : lib0.units) {
            if (u.import < 0) {
                lib0Units = u.name;
                break;
            }
        }
        cd.lib.push_back({"lib0.cellml", lib0});
        const bool chain = src.flip(40);
        if (chain) {
            ModelSpec l1;
            l1.name = "lib1_model";
            l1.imports.push_back({"lib0.cellml", ""});
            CompSpec outer;
            outer.name = "outer";
            CompSpec inner;
            inner.name = "inner";
            inner.import = 0;
            inner.importRef = lib0Comp;
            if (src.flip(50)) {
                inner.parent = 0;
                l1.comps.push_back(outer);
                l1.comps.push_back(inner);
            } else {
                l1.comps.push_back(inner);
            }
            cd.lib.push_back({"lib1.cellml", l1});
        }
        rootSpec.name = "forest_root";
        const unsigned shape = static_cast<unsigned>(src.below(6));
        rootSpec.imports.push_back({chain && shape != 1 ? "lib1.cellml" : "lib0.cellml", src.flip(30) ? "imp_id_1" : ""});
        CompSpec imp;
        imp.name = "imported_a";
        imp.import = 0;
        imp.importRef = chain && shape != 1 ? (cd.lib[1].spec.comps[0].name) : lib0Comp;
        if (shape == 2) {
            imp.importRef = "no_such_component";
        }
        rootSpec.comps.push_back(imp);
        if (shape == 3) {
            rootSpec.imports.push_back({"missing.cellml", ""});
            CompSpec imp2;
            imp2.name = "imported_missing";
            imp2.import = 1;
            imp2.importRef = "whatever";
            rootSpec.comps.push_back(imp2);
        }
        if (shape >= 4 && !lib0Units.empty()) {
            rootSpec.imports.push_back({"lib0.cellml", ""});
            UnitsSpec u;
            u.name = "imported_units";
            u.import = static_cast<int>(rootSpec.imports.size()) - 1;
            u.importRef = lib0Units;
            rootSpec.units.push_back(u);
            CompSpec local;
            local.name = "local_comp";
            VarSpec v;
            v.name = "lv";
            v.units = "imported_units";
            v.initial = "1";
            local.vars.push_back(v);
            rootSpec.comps.push_back(local);
        }
    }
    for (size_t i = 0; i < nDocs; ++i) {
        DocItem d;
        XmlOptions xo;
        xo.layout = static_cast<uint32_t>(src.below(4));
        switch (pp.docKinds[i]) {
        case 0: {
            GtModel g = genGroundTruthModel(src, smallGt(2));
            d.kind = "analysable 2.0";
            d.text = writeXml(g.spec, xo);
            d.math = true;
            break;
        }
        case 1: {
            ModelSpec s = genValidModel(src, smallGen());
            d.kind = "valid 2.0";
            d.text = writeXml(s, xo);
            d.math = specHasMath(s);
            d.imports = !s.imports.empty();
            break;
        }
        case 2: {
            GenOpts go = smallGen();
            ModelSpec s = src.flip(50) ? genGroundTruthModel(src, smallGt(2)).spec : genValidModel(src, go);
            d.kind = "almost valid";
            d.text = writeXml(s, xo);
            d.math = specHasMath(s);
            d.imports = !s.imports.empty();
            size_t edits = 1 + src.below(2);
            for (size_t e = 0; e < edits; ++e) {
                editDoc(d.text, src);
            }
            d.issueProne = true;
            break;
        }
        case 3:
            d.kind = "garbage";
            d.text = garbageDoc(src);
            d.math = d.text.find("<math") != std::string::npos;
            d.issueProne = true;
            break;
        case 4: {
            GenOpts go = smallGen();
            go.v1x = true;
            ModelSpec s = genValidModel(src, go);
            xo.version = src.flip(50) ? 11 : 10;
            xo.explicitNone = src.flip(30);
            xo.cmetaId = src.flip(30);
            xo.oldSpellings = src.flip(30);
            xo.unitsInComponents = xo.layout % 2 == 1; // derived from the layout choice: saved tapes keep their meaning
            xo.extras = xo.layout >= 2;
            d.kind = std::string(xo.version == 11 ? "CellML 1.1" : "CellML 1.0") + (xo.unitsInComponents ? " (units in components)" : "");
            d.text = writeXml(s, xo);
            d.math = specHasMath(s);
            d.imports = !s.imports.empty();
            break;
        }
        case 5:
            d.kind = "several issues of one kind";
            d.text = duplicateResetOrdersDoc(2 + src.below(5));
            d.math = true;
            d.issueProne = true;
            break;
        default:
            d.kind = "forest root 2.0";
            d.text = writeXml(rootSpec, xo);
            d.imports = true;
            break;
        }
        cd.docs.push_back(d);
    }
    for (size_t i = 0; i < nModels; ++i) {
        ModelItem m;
        switch (pp.modelKinds[i]) {
        case 0:
            m.kind = "analysable";
            m.spec = genGroundTruthModel(src, smallGt(2)).spec;
            break;
        case 1:
            m.kind = "generic valid";
            m.spec = genValidModel(src, smallGen());
            break;
        case 2: {
            m.spec = genGroundTruthModel(src, smallGt(2)).spec;
            std::string how;
            breakSpec(m.spec, src, pp.modelBreaks[i], how);
            m.kind = "broken: " + how;
            m.issueProne = true;
            break;
        }
        default:
            m.kind = "forest root";
            m.spec = rootSpec;
            break;
        }
        m.math = specHasMath(m.spec);
        m.imports = !m.spec.imports.empty();
        m.unlinked = (nOps + i) % 3 == 0; // no tape read of its own: saved tapes keep decoding to the same histories
        if (m.unlinked) {
            m.kind += ", units unlinked";
        }
        cd.models.push_back(m);
    }

    // ---- "same analyser, model B after model A" where B redefines (does not rename) a units that a cn uses: an Analyser that
    // remembers anything by units NAME across calls gives B the meaning the name had in A. No tape read of its own: chosen by
    // values already drawn (5 or 9 calls, an even number of calls on new instances, an analysable pool model); it rewrites the probe
    // and the call before it.
    size_t freshOps = 0;
    for (const auto &o : cd.ops) {
        freshOps += o.fresh ? 1 : 0;
    }
    if (nOps % 4 == 1 && freshOps % 2 == 0) {
        int t = -1;
        for (size_t i = 0; i < cd.models.size() && t < 0; ++i) {
            if (pp.modelKinds[i] == 0 && !cd.models[i].spec.comps.empty()) {
                t = static_cast<int>(i);
            }
        }
        if (t >= 0) {
            ModelItem &a = cd.models[static_cast<size_t>(t)];
            UnitsSpec rate;
            rate.name = "vp_rate_units";
            UnitSpec child;
            child.ref = "second";
            child.exponent = -1.0;
            rate.units.push_back(child);
            a.spec.units.push_back(rate);
            VarSpec k;
            k.name = "vp_k";
            k.units = "vp_rate_units";
            a.spec.comps[0].vars.push_back(k);
            a.spec.comps[0].math.push_back("<math xmlns=\"http://www.w3.org/1998/Math/MathML\" xmlns:cellml=\"http://www.cellml.org/cellml/2.0#\"><apply><eq/><ci>vp_k</ci><cn cellml:units=\"vp_rate_units\">2</cn></apply></math>");
            a.math = true;
            a.unlinked = false;
            a.kind = "analysable, cn in vp_rate_units = second^-1";
            ModelItem b = a;
            b.spec.units.back().units[0].ref = "volt";
            b.spec.units.back().units[0].exponent = 1.0;
            b.kind = "analysable, the same model with vp_rate_units = volt";
            cd.models.push_back(b);
            const int twin = static_cast<int>(cd.models.size()) - 1;
            cd.twinOrder = (cd.docs.size() + cd.models.size() + freshOps / 2) % 2 == 0 ? 1 : 2; // 1: A then B (probe), 2: B then A (probe)
            for (int k2 = 0; k2 < 2; ++k2) {
                const int idx = cd.probe - 1 + k2;
                Op &o = cd.ops[static_cast<size_t>(idx)];
                o = Op();
                o.svc = ANALYSE;
                o.refKind = 0;
                o.ref = ((k2 == 0) == (cd.twinOrder == 1)) ? t : twin;
                o.fresh = false;
                // later calls that used what the replaced call returned fall back to a pool item
                for (size_t later = static_cast<size_t>(idx) + 1; later < cd.ops.size(); ++later) {
                    Op &l = cd.ops[later];
                    if (l.svc != GENERATE && l.refKind == 1 && l.ref == idx) {
                        l.refKind = 0;
                        l.ref = 0;
                    }
                }
            }
        }
    }

    // ---- file-based library (no tape read of its own)
    cd.libFiles = !cd.lib.empty() && nOps % 2 == 0;
    cd.libFileBroken = cd.libFiles && (nOps / 2) % 2 == 0;
    for (size_t i = 0; i < cd.ops.size(); ++i) {
        if (cd.ops[i].svc == RESOLVE && cd.libFiles) {
            cd.ops[i].files = (i + nOps / 2) % 2 == 0 || static_cast<int>(i) == cd.probe || static_cast<int>(i) + 1 == cd.probe;
        }
    }

    // ---- dependency slice of the probe: producers of its arguments and earlier calls that legitimately changed them
    cd.slice.assign(nOps, 0);
    std::vector<int> work = {cd.probe};
    cd.slice[static_cast<size_t>(cd.probe)] = 1;
    while (!work.empty()) {
        int i = work.back();
        work.pop_back();
        const Op &op = cd.ops[static_cast<size_t>(i)];
        auto need = [&](int k) {
            if (k >= 0 && cd.slice[static_cast<size_t>(k)] == 0) {
                cd.slice[static_cast<size_t>(k)] = 1;
                work.push_back(k);
            }
        };
        if (op.svc == GENERATE) {
            need(op.amOp);
            continue;
        }
        if (op.refKind == 1) {
            need(op.ref);
        }
        if (op.svc != PARSE) {
            for (int k = 0; k < i; ++k) {
                const Op &o = cd.ops[static_cast<size_t>(k)];
                if (o.svc == RESOLVE && o.refKind == op.refKind && o.ref == op.ref) {
                    need(k); // resolveImports attaches models to the import sources of its argument
                }
            }
        }
    }
    return cd;
}

// ------------------------------------------------------------------------------------------------ execution (children only)

struct Snapshot
{
    std::string raw;
    std::vector<std::pair<std::string, std::string>> maths; // (math string, indentation the dump gives its continuation lines), in order of appearance
    bool hasCanon = false;
};

// dumpModel() nests children by re-indenting every line of their text: a component at depth k has its lines prefixed by
// " " + 2k spaces, its resets by two more.
void collectMaths(const ComponentPtr &c, const std::string &indent, std::vector<std::pair<std::string, std::string>> &out)
{
    for (size_t i = 0; i < c->resetCount(); ++i) {
        auto r = c->reset(i);
        out.push_back({r->testValue(), indent + "  "});
        out.push_back({r->resetValue(), indent + "  "});
    }
    out.push_back({c->math(), indent});
    for (size_t i = 0; i < c->componentCount(); ++i) {
        collectMaths(c->component(i), indent + "  ", out);
    }
}

const int kDump = DUMP_ORDERED | DUMP_RAW_MATH | DUMP_PTR_IMPORTS;

// What linkUnits() / hasUnlinkedUnits() expose is observable state of a model too: for every variable, whether its units are
// the model's own Units object of that name, a by-name placeholder (standard units, or not linked yet), or someone else's.
std::string linkageOf(const ModelPtr &m)
{
    if (m == nullptr) {
        return "";
    }
    std::string s = std::string("linkage hasUnlinkedUnits=") + (m->hasUnlinkedUnits() ? "1" : "0") + "\n";
    std::function<void(const ComponentPtr &)> walk = [&](const ComponentPtr &c) {
        for (size_t i = 0; i < c->variableCount(); ++i) {
            auto v = c->variable(i);
            auto u = v->units();
            std::string tag = "none";
            if (u != nullptr) {
                tag = u->parent() != nullptr ? "units-of-another-owner:" + u->name() : "by-name:" + u->name();
                for (size_t k = 0; k < m->unitsCount(); ++k) {
                    if (m->units(k) == u) {
                        tag = "model-units#" + std::to_string(k);
                        break;
                    }
                }
            }
            s += " link " + c->name() + ":" + v->name() + " -> " + tag + "\n";
        }
        for (size_t i = 0; i < c->componentCount(); ++i) {
            walk(c->component(i));
        }
    };
    for (size_t i = 0; i < m->componentCount(); ++i) {
        walk(m->component(i));
    }
    return s;
}

std::string dumpFull(const ModelPtr &m)
{
    return dumpModel(m, kDump) + linkageOf(m);
}

// Edits everything reachable from a model (used on a RESULT to see whether the argument or an earlier result shares anything with it).
void deepMutate(const ModelPtr &m)
{
    if (m == nullptr) {
        return;
    }
    m->setName(m->name() + "_mutated");
    m->setId("vp_mutated_id");
    for (size_t k = 0; k < m->unitsCount(); ++k) {
        auto u = m->units(k);
        u->setName(u->name() + "_mutated");
        if (u->unitCount() > 0) {
            u->removeUnit(size_t(0));
        }
    }
    m->addUnits(Units::create("vp_added_units"));
    std::function<void(const ComponentPtr &)> walk = [&](const ComponentPtr &c) {
        c->setName(c->name() + "_mutated");
        c->setMath("");
        for (size_t i = 0; i < c->variableCount(); ++i) {
            auto v = c->variable(i);
            v->setName(v->name() + "_mutated");
            v->setInitialValue("42");
            v->setUnits("vp_added_units");
            v->setInterfaceType("public_and_private");
        }
        for (size_t i = 0; i < c->resetCount(); ++i) {
            c->reset(i)->setOrder(c->reset(i)->order() + 7);
            c->reset(i)->setTestValue("");
        }
        c->addVariable(Variable::create("vp_added_variable"));
        for (size_t i = 0; i < c->componentCount(); ++i) {
            walk(c->component(i));
        }
    };
    for (size_t i = 0; i < m->componentCount(); ++i) {
        walk(m->component(i));
    }
    if (m->unitsCount() > 1) {
        m->removeUnits(size_t(0));
    }
    m->linkUnits();
}

Snapshot snapModel(const ModelPtr &m)
{
    Snapshot s;
    s.raw = dumpFull(m);
    s.hasCanon = true;
    if (m != nullptr) {
        for (size_t i = 0; i < m->componentCount(); ++i) {
            collectMaths(m->component(i), " ", s.maths);
        }
    }
    return s;
}

Snapshot snapText(const std::string &t)
{
    Snapshot s;
    s.raw = t;
    return s;
}

// The same dump with every math string replaced by its canonical form (own libxml2 use: only after the last library call).
// *complete is cleared when a math string could not be located in the dump.
std::string canonOf(const Snapshot &s, bool *complete)
{
    std::string out;
    size_t cur = 0;
    for (const auto &m : s.maths) {
        if (m.first.empty()) {
            continue;
        }
        std::string needle = "\"";
        for (char ch : m.first) {
            needle += ch;
            if (ch == '\n') {
                needle += m.second;
            }
        }
        needle += "\"";
        size_t p = s.raw.find(needle, cur);
        if (p == std::string::npos) {
            *complete = false;
            continue;
        }
        out.append(s.raw, cur, p - cur);
        out += "\"" + mathCanon(m.first) + "\"";
        cur = p + needle.size();
    }
    out.append(s.raw, cur, std::string::npos);
    return out;
}

struct Rec
{
    std::string run;
    int op = 0;
    std::string part;
    Snapshot snap;
};

struct Res
{
    ModelPtr model;
    std::string text;
    AnalyserModelPtr am;
    bool holdsModel = false, holdsAm = false;
    std::string heldModel, heldAm, heldAmCode;
};

void emitRaw(const std::string &s)
{
    size_t off = 0;
    while (off < s.size()) {
        ssize_t n = write(2, s.data() + off, s.size() - off);
        if (n <= 0) {
            break;
        }
        off += static_cast<size_t>(n);
    }
}

enum InstanceMode
{
    PLAN,
    FORCE_SHARED,
    FORCE_FRESH
};

struct Exec
{
    const CaseData &cd;
    bool hold; // take snapshots of handed-out results and check them at the end
    std::vector<ModelPtr> pool;
    std::vector<Res> res;
    ParserPtr parser;
    PrinterPtr printer;
    ValidatorPtr validator;
    AnalyserPtr analyser;
    GeneratorPtr generator;
    ImporterPtr importer, fileImporter;
    AnnotatorPtr annotator;
    std::vector<ModelPtr> libModels;
    std::vector<ImporterPtr> keepAlive; // import sources hold their models weakly: an Importer must outlive the models it resolved
    bool sharedGeneratorPython = false;
    std::string sharedGeneratorLast;
    int sharedGeneratorOp = -1;
    std::vector<Rec> recs;
    std::vector<std::pair<std::string, std::string>> fails;
    std::map<std::string, std::string> info;

    Exec(const CaseData &c, bool h)
        : cd(c)
        , hold(h)
    {
        res.resize(cd.ops.size());
        for (const auto &m : cd.models) {
            ModelPtr model = buildApi(m.spec).model;
            if (m.unlinked) {
                std::function<void(const ComponentPtr &)> walk = [&](const ComponentPtr &c) {
                    for (size_t i = 0; i < c->variableCount(); ++i) {
                        auto u = c->variable(i)->units();
                        if (u != nullptr) {
                            c->variable(i)->setUnits(u->name());
                        }
                    }
                    for (size_t i = 0; i < c->componentCount(); ++i) {
                        walk(c->component(i));
                    }
                };
                for (size_t i = 0; i < model->componentCount(); ++i) {
                    walk(model->component(i));
                }
            }
            pool.push_back(model);
        }
    }

    void fail(const std::string &sig, const std::string &msg)
    {
        for (const auto &f : fails) {
            if (f.first == sig) {
                return;
            }
        }
        fails.push_back({sig, msg});
    }

    ImporterPtr makeImporter()
    {
        // The library is documented state of an Importer (issue texts name the key under which a model is registered):
        // a new instance is given the same library, i.e. the same model objects under the same keys.
        if (libModels.empty()) {
            for (const auto &l : cd.lib) {
                libModels.push_back(buildApi(l.spec).model);
            }
        }
        auto imp = Importer::create(true);
        for (size_t k = 0; k < cd.lib.size(); ++k) {
            imp->addModel(libModels[k], cd.lib[k].key);
        }
        keepAlive.push_back(imp);
        return imp;
    }

    // A result of an earlier call that no longer reads as it did when it was handed out: reported where it is used, and
    // the worker does not compare this op across processes (its argument is not the same value any more).
    void staleArg(int i, const std::string &sig, const std::string &was, const std::string &now)
    {
        fail(sig, "found changed when op" + std::to_string(i) + " was about to use it: " + firstDiff(was, now));
        info["stale-arg:" + std::to_string(i)] = "1";
    }
    void checkModelArg(int i, const Op &op, const std::string &now)
    {
        if (hold && op.refKind == 1) {
            const Res &r = res[static_cast<size_t>(op.ref)];
            if (r.holdsModel && r.heldModel != now) {
                staleArg(i, std::string("C12.held-result|") + (cd.ops[static_cast<size_t>(op.ref)].svc == PARSE ? "Parser::parseModel()" : "Importer::flattenModel()"), r.heldModel, now);
            }
        }
    }

    ModelPtr argModel(const Op &op)
    {
        ModelPtr m = op.refKind == 0 ? pool[static_cast<size_t>(op.ref) % pool.size()] : res[static_cast<size_t>(op.ref)].model;
        if (m != nullptr && op.svc != RESOLVE && op.svc != ANNOTATE && m->hasUnlinkedUnits()) {
            info[std::string("unlinked-input:") + kShort[op.svc]] = "1";
        }
        return m;
    }

    void rec(const std::string &run, int op, const std::string &part, Snapshot s)
    {
        if (run.empty()) {
            return;
        }
        recs.push_back({run, op, part, std::move(s)});
    }

    void monitor(const LoggerPtr &lg, Svc svc)
    {
        std::string p = checkLogger(lg);
        if (!p.empty()) {
            fail(std::string("C15.monitor|") + kSvc[svc] + "|" + p.substr(0, p.find('|')), p);
        }
    }

    static std::string generateCode(const GeneratorPtr &g, bool python)
    {
        if (python) {
            return g->implementationCode();
        }
        return g->interfaceCode() + "\n/* ---- implementation ---- */\n" + g->implementationCode();
    }

    std::string codeFromNewGenerator(const AnalyserModelPtr &am)
    {
        auto g = Generator::create();
        g->setModel(am);
        return generateCode(g, false);
    }

    void execOp(int i, InstanceMode mode, const std::string &run, Res &out)
    {
        const Op &op = cd.ops[static_cast<size_t>(i)];
        const bool fresh = mode == PLAN ? op.fresh : mode == FORCE_FRESH;
        emitRaw("\x1e"
                "BEGIN\t"
                + (run.empty() ? std::string("-") : run) + "\t" + std::to_string(i) + "\n");
        switch (op.svc) {
        case PARSE: {
            const std::string &text = op.refKind == 0 ? cd.docs[static_cast<size_t>(op.ref) % cd.docs.size()].text : res[static_cast<size_t>(op.ref)].text;
            ParserPtr p;
            if (fresh) {
                p = Parser::create(op.strict);
            } else {
                if (parser == nullptr) {
                    parser = Parser::create(true);
                }
                p = parser;
                p->setStrict(op.strict);
            }
            ModelPtr m = p->parseModel(text);
            Snapshot s = snapModel(m);
            if (hold) {
                out.holdsModel = true;
                out.heldModel = s.raw;
            }
            rec(run, i, "model", std::move(s));
            rec(run, i, "issues", snapText(dumpIssues(p)));
            monitor(p, PARSE);
            out.model = m;
            break;
        }
        case PRINT: {
            ModelPtr m = argModel(op);
            Snapshot before = snapModel(m);
            checkModelArg(i, op, before.raw);
            PrinterPtr p = fresh ? Printer::create() : (printer != nullptr ? printer : (printer = Printer::create()));
            std::string text = p->printModel(m, op.autoIds);
            std::string after = dumpFull(m);
            if (after != before.raw) {
                fail("C12.input-modified|Printer", firstDiff(before.raw, after));
            }
            rec(run, i, "arg", std::move(before));
            rec(run, i, "text", snapText(text));
            rec(run, i, "issues", snapText(dumpIssues(p)));
            monitor(p, PRINT);
            out.text = text;
            break;
        }
        case VALIDATE: {
            ModelPtr m = argModel(op);
            Snapshot before = snapModel(m);
            checkModelArg(i, op, before.raw);
            ValidatorPtr v = fresh ? Validator::create() : (validator != nullptr ? validator : (validator = Validator::create()));
            v->validateModel(m);
            std::string after = dumpFull(m);
            if (after != before.raw) {
                fail("C12.input-modified|Validator", firstDiff(before.raw, after));
            }
            rec(run, i, "arg", std::move(before));
            rec(run, i, "issues", snapText(dumpIssues(v)));
            monitor(v, VALIDATE);
            break;
        }
        case ANALYSE: {
            ModelPtr m = argModel(op);
            Snapshot before = snapModel(m);
            checkModelArg(i, op, before.raw);
            AnalyserPtr a = fresh ? Analyser::create() : (analyser != nullptr ? analyser : (analyser = Analyser::create()));
            a->removeAllExternalVariables();
            if (m != nullptr && !op.ext.empty()) {
                std::vector<VariablePtr> vars;
                std::function<void(const ComponentPtr &)> walk = [&](const ComponentPtr &c) {
                    for (size_t k = 0; k < c->variableCount(); ++k) {
                        vars.push_back(c->variable(k));
                    }
                    for (size_t k = 0; k < c->componentCount(); ++k) {
                        walk(c->component(k));
                    }
                };
                for (size_t k = 0; k < m->componentCount(); ++k) {
                    walk(m->component(k));
                }
                for (unsigned e : op.ext) {
                    if (vars.empty()) {
                        break;
                    }
                    if (e >= 48) {
                        // every variable that has equivalent variables, starting somewhere: several markings of non-primary
                        // variables, hence several messages of one kind
                        for (size_t k = 0; k < vars.size(); ++k) {
                            const auto &v = vars[(k + e) % vars.size()];
                            if (v->equivalentVariableCount() > 0) {
                                a->addExternalVariable(AnalyserExternalVariable::create(v));
                            }
                        }
                    } else {
                        a->addExternalVariable(AnalyserExternalVariable::create(vars[e % vars.size()]));
                    }
                }
            }
            AnalyserModelPtr amBefore = a->model();
            a->analyseModel(m);
            AnalyserModelPtr am = a->model();
            if (!run.empty() && !fresh && am == amBefore) {
                info["am-not-replaced:" + run + ":" + std::to_string(i)] = "1"; // localisation only: the analyser handed out the object it had before
            }
            std::string after = dumpFull(m);
            if (after != before.raw) {
                fail("C12.input-modified|Analyser", firstDiff(before.raw, after));
            }
            std::string d = dumpAnalyserModel(am);
            rec(run, i, "arg", std::move(before));
            rec(run, i, "Analyser::model()", snapText(d));
            rec(run, i, "issues", snapText(dumpIssues(a)));
            monitor(a, ANALYSE);
            out.am = am;
            if (hold) {
                out.holdsAm = true;
                out.heldAm = d;
                out.heldAmCode = am != nullptr ? codeFromNewGenerator(am) : std::string();
            }
            if (!run.empty() && am != nullptr) {
                info["am-type:" + AnalyserModel::typeAsString(am->type())] = "1";
            }
            break;
        }
        case GENERATE: {
            AnalyserModelPtr am = res[static_cast<size_t>(op.amOp)].am;
            std::string before = dumpAnalyserModel(am);
            if (hold && res[static_cast<size_t>(op.amOp)].holdsAm && res[static_cast<size_t>(op.amOp)].heldAm != before) {
                staleArg(i, "C12.held-result|Analyser::model()", res[static_cast<size_t>(op.amOp)].heldAm, before);
            }
            GeneratorPtr g = fresh ? Generator::create() : (generator != nullptr ? generator : (generator = Generator::create()));
            g->setProfile(GeneratorProfile::create(op.python ? GeneratorProfile::Profile::PYTHON : GeneratorProfile::Profile::C));
            g->setModel(am);
            std::string text = generateCode(g, op.python);
            std::string after = dumpAnalyserModel(am);
            if (after != before) {
                fail("C12.input-modified|Generator", firstDiff(before, after));
            }
            rec(run, i, "arg", snapText(before));
            rec(run, i, "text", snapText(text));
            out.text = text;
            if (!fresh && run != "H2") {
                sharedGeneratorPython = op.python;
                sharedGeneratorLast = text;
                sharedGeneratorOp = i;
            }
            break;
        }
        case RESOLVE: {
            ModelPtr m = argModel(op);
            ImporterPtr imp;
            std::string base = kBasePath;
            if (op.files) {
                // nothing is registered: the importer reads (and caches) the library documents itself
                if (fresh || fileImporter == nullptr) {
                    imp = Importer::create(true);
                    keepAlive.push_back(imp);
                    if (!fresh) {
                        fileImporter = imp;
                    }
                } else {
                    imp = fileImporter;
                }
                const char *dir = getenv("C12_DIR");
                base = std::string(dir != nullptr ? dir : "/nonexistent-vp-c12") + "/";
            } else {
                imp = fresh ? makeImporter() : (importer != nullptr ? importer : (importer = makeImporter()));
            }
            bool ok = imp->resolveImports(m, base);
            Snapshot s = snapModel(m);
            if (hold && op.refKind == 1 && res[static_cast<size_t>(op.ref)].holdsModel) {
                res[static_cast<size_t>(op.ref)].heldModel = s.raw; // a documented change of the argument
            }
            rec(run, i, "ret", snapText(ok ? "true" : "false"));
            rec(run, i, "model", std::move(s));
            rec(run, i, "issues", snapText(dumpIssues(imp)));
            monitor(imp, RESOLVE);
            break;
        }
        case FLATTEN: {
            ModelPtr m = argModel(op);
            Snapshot before = snapModel(m);
            checkModelArg(i, op, before.raw);
            ImporterPtr imp = fresh ? makeImporter() : (importer != nullptr ? importer : (importer = makeImporter()));
            ModelPtr flat = imp->flattenModel(m);
            std::string after = dumpFull(m);
            if (after != before.raw) {
                fail("C12.input-modified|Importer::flattenModel", firstDiff(before.raw, after));
            }
            Snapshot s = snapModel(flat);
            if (hold) {
                out.holdsModel = true;
                out.heldModel = s.raw;
            }
            const std::string issuesText = dumpIssues(imp);
            monitor(imp, FLATTEN);
            // Independence of result and argument (the header promises "a new ModelPtr"): not the same object, and editing
            // everything reachable from one result changes neither the argument, nor an earlier result, nor what the
            // next call returns. The edits are made on a result of an extra call that nobody else uses.
            if (flat != nullptr && flat == m) {
                fail("C12.result-is-argument|Importer::flattenModel", "flattenModel() returned the model it was given (" + opText(cd, static_cast<size_t>(i)) + ")");
            } else if (flat != nullptr) {
                ModelPtr extra = imp->flattenModel(m);
                if (extra == nullptr || dumpFull(extra) != s.raw) {
                    fail("C12.repeat|Importer::flattenModel|model", "a second flattenModel() of the same model differs (" + opText(cd, static_cast<size_t>(i)) + "): " + firstDiff(s.raw, dumpFull(extra)));
                } else if (extra == flat || extra == m) {
                    fail("C12.result-is-argument|Importer::flattenModel", "a second flattenModel() returned an object handed out before");
                } else {
                    deepMutate(extra);
                    std::string argNow = dumpFull(m), firstNow = dumpFull(flat);
                    if (argNow != before.raw) {
                        fail("C12.result-aliases-argument|Importer::flattenModel", "editing the flattened model changed the argument: " + firstDiff(before.raw, argNow));
                    } else if (firstNow != s.raw) {
                        fail("C12.result-aliases-earlier-result|Importer::flattenModel", "editing one flattened model changed another: " + firstDiff(s.raw, firstNow));
                    } else {
                        ModelPtr third = imp->flattenModel(m);
                        std::string t = dumpFull(third);
                        if (t != s.raw) {
                            fail("C12.repeat-after-result-mutation|Importer::flattenModel", firstDiff(s.raw, t));
                        }
                    }
                    if (!run.empty()) {
                        info["result-mutated-then-input-compared"] = "1";
                    }
                }
            }
            rec(run, i, "arg", std::move(before));
            rec(run, i, "model", std::move(s));
            rec(run, i, "issues", snapText(issuesText));
            out.model = flat;
            if (!run.empty()) {
                info[flat != nullptr ? "flatten:ok" : "flatten:null"] = "1";
                if (m != nullptr && !m->hasImports()) {
                    info["flatten:no-imports"] = "1";
                }
            }
            break;
        }
        default: { // ANNOTATE: lookups only
            ModelPtr m = argModel(op);
            AnnotatorPtr an = fresh ? Annotator::create() : (annotator != nullptr ? annotator : (annotator = Annotator::create()));
            std::string t;
            if (m == nullptr) {
                // the annotator is not called at all: nothing of it is observed
                rec(run, i, "text", snapText("<null model: annotator not called>\n"));
                break;
            } else {
                an->setModel(m);
                auto ids = an->ids();
                t = "ids:";
                for (const auto &id : ids) {
                    t += " '" + id + "'";
                }
                t += "\nduplicates:";
                for (const auto &id : an->duplicateIds()) {
                    t += " '" + id + "'";
                }
                t += "\n";
                size_t n = 0;
                for (const auto &id : ids) {
                    if (n++ >= 6) {
                        break;
                    }
                    auto it = an->item(id);
                    t += "item '" + id + "' count=" + std::to_string(an->itemCount(id)) + " unique=" + (an->isUnique(id) ? "1" : "0") + " type=" + (it != nullptr ? cellmlElementTypeAsString(it->type()) : std::string("null")) + "\n";
                }
                auto none = an->item("no_such_id_vp");
                t += std::string("missing -> ") + (none == nullptr ? "null" : cellmlElementTypeAsString(none->type())) + "\n";
            }
            rec(run, i, "text", snapText(t));
            rec(run, i, "issues", snapText(dumpIssues(an)));
            monitor(an, ANNOTATE);
            break;
        }
        }
        if (!run.empty() && run != "H2") {
            for (auto it = recs.rbegin(); it != recs.rend() && it->run == run && it->op == i; ++it) {
                if (it->part == "issues") {
                    info["issues:" + run + ":" + std::to_string(i)] = it->snap.raw.empty() ? "0" : "1";
                }
            }
        }
    }

    // Results handed out by earlier calls and still held must read the same at the end of the history.
    void checkHeld()
    {
        std::set<AnalyserModel *> changedAms;
        for (size_t i = 0; i < res.size(); ++i) {
            const Res &r = res[i];
            const Svc svc = cd.ops[i].svc;
            if (r.holdsModel) {
                std::string now = dumpFull(r.model);
                if (now != r.heldModel) {
                    fail(std::string("C12.held-result|") + (svc == PARSE ? "Parser::parseModel()" : "Importer::flattenModel()"), "the model returned by op" + std::to_string(i) + " changed while the caller held it: " + firstDiff(r.heldModel, now));
                }
            }
            if (r.holdsAm) {
                std::string now = dumpAnalyserModel(r.am);
                if (now != r.heldAm) {
                    changedAms.insert(r.am.get());
                    fail("C12.held-result|Analyser::model()", "the AnalyserModel returned by op" + std::to_string(i) + " changed while the caller held it: " + firstDiff(r.heldAm, now));
                } else if (r.am != nullptr) {
                    std::string code = codeFromNewGenerator(r.am);
                    if (code != r.heldAmCode) {
                        fail("C12.held-result|Generator-code-from-held-AnalyserModel", "op" + std::to_string(i) + ": " + firstDiff(r.heldAmCode, code));
                    }
                }
            }
        }
        // (a Generator whose AnalyserModel was already found changed has nothing more to tell)
        if (sharedGeneratorOp >= 0 && generator != nullptr && changedAms.count(generator->model().get()) == 0) {
            std::string again = generateCode(generator, sharedGeneratorPython);
            if (again != sharedGeneratorLast) {
                fail("C12.held-result|Generator-holding-AnalyserModel", "the shared Generator (model set by op" + std::to_string(sharedGeneratorOp) + ") now produces different code: " + firstDiff(sharedGeneratorLast, again));
            }
        }
    }

    static void putRec(std::string &o, const std::string &run, int op, const std::string &part, char kind, const std::string &payload)
    {
        std::string p = payload.size() <= 150000 ? payload : payload.substr(0, 150000) + "...[clipped, hash " + std::to_string(hashStr(payload)) + "]";
        o += "\x1e"
             "REC\t"
             + run + "\t" + std::to_string(op) + "\t" + part + "\t" + kind + "\t" + std::to_string(p.size()) + "\n" + p + "\n";
    }

    void flush(const std::string &endTag)
    {
        std::string o;
        for (const auto &r : recs) {
            putRec(o, r.run, r.op, r.part, 'r', r.snap.raw);
            if (r.snap.hasCanon) {
                bool complete = true;
                std::string c = canonOf(r.snap, &complete);
                if (!complete) {
                    info["canon-incomplete"] = "1";
                }
                if (c != r.snap.raw) {
                    putRec(o, r.run, r.op, r.part, 'c', c);
                }
            }
        }
        for (const auto &f : fails) {
            std::string m = clipTo(f.second, 6000);
            o += "\x1e"
                 "FAIL\t"
                 + std::to_string(f.first.size()) + "\t" + std::to_string(m.size()) + "\n" + f.first + m + "\n";
        }
        for (const auto &kv : info) {
            o += "\x1e"
                 "INFO\t"
                 + kv.first + "\t" + kv.second + "\n";
        }
        o += "\x1e"
             "END\t"
             + endTag + "\n";
        emitRaw(o);
        recs.clear();
        fails.clear();
        info.clear();
    }
};

struct ChildArg
{
    const CaseData *cd;
    bool full;
};

void childMain(void *p)
{
    const ChildArg &a = *static_cast<ChildArg *>(p);
    const CaseData &cd = *a.cd;
    Exec ex(cd, a.full);
    if (!a.full) {
        // (i) first thing in a fresh process: only what is needed to build the probe's arguments, then the probe
        for (size_t i = 0; i < cd.ops.size(); ++i) {
            if (cd.slice[i] != 0) {
                ex.execOp(static_cast<int>(i), static_cast<int>(i) == cd.probe ? FORCE_FRESH : PLAN, "F", ex.res[i]);
            }
        }
        ex.flush("F");
        return;
    }
    for (size_t i = 0; i < cd.ops.size(); ++i) {
        const int ii = static_cast<int>(i);
        if (ii != cd.probe) {
            ex.execOp(ii, PLAN, cd.slice[i] != 0 ? "H" : "", ex.res[i]);
            continue;
        }
        // (iii) the same place, a new instance: fork so that the process state is exactly the one the probe will see
        fflush(nullptr);
        pid_t pid = fork();
        if (pid == 0) {
            ex.recs.clear();
            ex.fails.clear();
            ex.info.clear();
            ex.hold = false;
            Res tmp;
            ex.execOp(ii, FORCE_FRESH, "N", tmp);
            ex.flush("N");
            _exit(0);
        }
        int st = 0;
        if (pid < 0 || waitpid(pid, &st, 0) != pid || !WIFEXITED(st) || WEXITSTATUS(st) != 0) {
            emitRaw("\x1e"
                    "DIED\tN\n");
        }
        // (ii) at its place on the shared instance, (iv) and once more
        ex.execOp(ii, FORCE_SHARED, "H", ex.res[i]);
        Res again;
        bool keepHold = ex.hold;
        ex.hold = false;
        ex.execOp(ii, FORCE_SHARED, "H2", again);
        ex.hold = keepHold;
        if (cd.ops[i].svc == PARSE && again.model != nullptr && ex.res[i].model != nullptr) {
            // two parses of one document give two independent models
            if (again.model == ex.res[i].model) {
                ex.fail("C12.result-aliases-earlier-result|Parser", "parseModel() returned the object it returned for the previous call");
            } else {
                std::string was = dumpFull(ex.res[i].model);
                deepMutate(again.model);
                std::string now = dumpFull(ex.res[i].model);
                if (now != was) {
                    ex.fail("C12.result-aliases-earlier-result|Parser", "editing the model of the second parse changed the model of the first: " + firstDiff(was, now));
                }
                ex.info["result-mutated-then-input-compared"] = "1";
            }
        }
    }
    ex.checkHeld();
    ex.flush("H");
}

// ------------------------------------------------------------------------------------------------ judging (worker process)

struct Stream
{
    std::map<std::string, std::string> recs; // run \t op \t part \t kind
    std::map<std::string, std::vector<std::string>> parts; // run \t op -> parts in order
    std::vector<std::pair<std::string, std::string>> fails;
    std::map<std::string, std::string> info;
    std::set<std::string> ended;
    bool nDied = false;
    std::string lastBegin;
};

void parseStream(const std::string &s, Stream &out)
{
    size_t p = 0;
    while ((p = s.find('\x1e', p)) != std::string::npos) {
        size_t eol = s.find('\n', p);
        if (eol == std::string::npos) {
            break;
        }
        std::string head = s.substr(p + 1, eol - p - 1);
        std::vector<std::string> f;
        size_t a = 0;
        while (true) {
            size_t b = head.find('\t', a);
            f.push_back(head.substr(a, b == std::string::npos ? b : b - a));
            if (b == std::string::npos) {
                break;
            }
            a = b + 1;
        }
        p = eol + 1;
        if (f[0] == "REC" && f.size() == 6) {
            size_t len = static_cast<size_t>(atol(f[5].c_str()));
            if (p + len > s.size()) {
                break;
            }
            out.recs[f[1] + "\t" + f[2] + "\t" + f[3] + "\t" + f[4]] = s.substr(p, len);
            if (f[4] == "r") {
                out.parts[f[1] + "\t" + f[2]].push_back(f[3]);
            }
            p += len;
        } else if (f[0] == "FAIL" && f.size() == 3) {
            size_t l1 = static_cast<size_t>(atol(f[1].c_str())), l2 = static_cast<size_t>(atol(f[2].c_str()));
            if (p + l1 + l2 > s.size()) {
                break;
            }
            out.fails.push_back({s.substr(p, l1), s.substr(p + l1, l2)});
            p += l1 + l2;
        } else if (f[0] == "INFO" && f.size() == 3) {
            out.info[f[1]] = f[2];
        } else if (f[0] == "END" && f.size() == 2) {
            out.ended.insert(f[1]);
        } else if (f[0] == "BEGIN" && f.size() == 3) {
            out.lastBegin = f[1] + "\t" + f[2];
        } else if (f[0] == "DIED") {
            out.nDied = true;
        }
    }
}

struct Judge
{
    const CaseData &cd;
    Case &c;
    Stream F, H;
    std::set<std::string> seen;

    void report(const std::string &sig, const std::string &msg)
    {
        if (seen.insert(sig).second) {
            c.alsoFailed.push_back({sig, msg});
        }
    }
    const std::string *get(const Stream &st, const std::string &run, int op, const std::string &part, char kind) const
    {
        auto it = st.recs.find(run + "\t" + std::to_string(op) + "\t" + part + "\t" + kind);
        if (it == st.recs.end() && kind == 'c') {
            it = st.recs.find(run + "\t" + std::to_string(op) + "\t" + part + "\tr");
        }
        return it == st.recs.end() ? nullptr : &it->second;
    }
    bool printBefore(int op) const
    {
        for (int k = 0; k < op; ++k) {
            if (cd.ops[static_cast<size_t>(k)].svc == PRINT) {
                return true;
            }
        }
        return false;
    }
    // 0 equal, 1 equal only with canonical math, 2 different, 3 an observation is missing
    int cmp(const Stream &sa, const std::string &ra, const Stream &sb, const std::string &rb, int op, const std::string &part, std::string &diff) const
    {
        const std::string *a = get(sa, ra, op, part, 'r'), *b = get(sb, rb, op, part, 'r');
        if (a == nullptr || b == nullptr) {
            diff = std::string("observation '") + part + "' of op" + std::to_string(op) + " missing in run " + (a == nullptr ? ra : rb);
            return 3;
        }
        if (*a == *b) {
            return 0;
        }
        diff = firstDiff(*a, *b);
        const std::string *ca = get(sa, ra, op, part, 'c'), *cb = get(sb, rb, op, part, 'c');
        if (ca != nullptr && cb != nullptr && *ca == *cb) {
            return 1;
        }
        if (ca != nullptr && cb != nullptr) {
            diff = firstDiff(*ca, *cb) + "\n(with canonical MathML; raw: " + diff + ")";
        }
        return 2;
    }
    std::vector<std::string> partsOf(const Stream &st, const std::string &run, int op) const
    {
        auto it = st.parts.find(run + "\t" + std::to_string(op));
        return it == st.parts.end() ? std::vector<std::string>() : it->second;
    }

    // Compares one op between two runs; returns false when the comparison of later observations should stop.
    bool compareOp(const std::string &oracle, const Stream &sa, const std::string &ra, const Stream &sb, const std::string &rb, int op, const std::string &what, bool &tainted)
    {
        const Svc svc = cd.ops[static_cast<size_t>(op)].svc;
        for (const auto &part : partsOf(sa, ra, op)) {
            std::string diff;
            int r = cmp(sa, ra, sb, rb, op, part, diff);
            if (r == 0) {
                continue;
            }
            std::string where = what + " (" + opText(cd, static_cast<size_t>(op)) + "), observation '" + part + "': " + diff;
            if (r == 3) {
                report("C12.machinery|missing-observation", where);
                return false;
            }
            if (r == 1 && printBefore(op)) {
                // Known: Printer::printModel() leaves xmlKeepBlanksDefault(0) behind, so blank text nodes inside math are
                // dropped by the next parse (and kept again by the one after it).
                report(kKnownWhitespace, where);
                c.count("known:math-whitespace-after-print");
                tainted = true;
                continue;
            }
            if (r == 1) {
                report(oracle + "|" + kSvc[svc] + "|" + part + "|math-whitespace-without-print", where);
                return false;
            }
            std::string loc;
            if (svc == RESOLVE && cd.ops[static_cast<size_t>(op)].files) {
                loc = "|from-files";
            }
            {
                // the same lines in another order?
                const std::string *xa = get(sa, ra, op, part, 'r'), *xb = get(sb, rb, op, part, 'r');
                auto lines = [](const std::string &t) {
                    std::vector<std::string> v;
                    size_t p0 = 0;
                    while (p0 < t.size()) {
                        size_t e = t.find('\n', p0);
                        v.push_back(t.substr(p0, e == std::string::npos ? e : e - p0));
                        p0 = e == std::string::npos ? t.size() : e + 1;
                    }
                    std::sort(v.begin(), v.end());
                    return v;
                };
                if (xa != nullptr && xb != nullptr && xa->size() == xb->size() && lines(*xa) == lines(*xb)) {
                    loc += "|order-only";
                }
            }
            if (part == "Analyser::model()" && (sa.info.count("am-not-replaced:" + ra + ":" + std::to_string(op)) != 0 || sb.info.count("am-not-replaced:" + rb + ":" + std::to_string(op)) != 0)) {
                loc += "|not-replaced";
            }
            report(oracle + "|" + kSvc[svc] + "|" + part + loc + (tainted ? "|downstream-of-math-whitespace" : ""), where);
            return false;
        }
        return true;
    }

    void run()
    {
        const int probe = cd.probe;
        const Svc psvc = cd.ops[static_cast<size_t>(probe)].svc;
        for (const auto &f : F.fails) {
            report(f.first, "[run F] " + f.second);
        }
        for (const auto &f : H.fails) {
            report(f.first, "[run H/N] " + f.second);
        }
        // dependencies of the probe: fresh process against their place in the history
        bool tainted = false;
        bool goOn = true;
        for (size_t i = 0; i < cd.ops.size() && goOn; ++i) {
            if (cd.slice[i] != 0 && H.info.count("stale-arg:" + std::to_string(i)) != 0) {
                c.count("skipped:cross-process-comparison-after-stale-argument");
                goOn = false;
                break;
            }
            if (cd.slice[i] != 0 && static_cast<int>(i) != probe) {
                // a dependency that runs on a shared instance used before differs from run F in process history and in
                // instance history: the signature says so
                const Op &o = cd.ops[i];
                bool usedBefore = false;
                for (size_t k = 0; k < i && !o.fresh; ++k) {
                    const Op &e = cd.ops[k];
                    usedBefore = usedBefore || (!e.fresh && (e.svc == FLATTEN ? RESOLVE : e.svc) == (o.svc == FLATTEN ? RESOLVE : o.svc));
                }
                goOn = compareOp(usedBefore ? "C12.history+instance" : "C12.history", F, "F", H, "H", static_cast<int>(i), "a dependency of the probe, executed in a fresh process vs at its place in the history", tainted);
            }
        }
        // (i) vs (iii): new instance in a fresh process vs new instance after the history -> process-global state
        if (goOn) {
            compareOp("C12.history", F, "F", H, "N", probe, "the probe on a new instance: first thing in a fresh process vs after the history", tainted);
        }
        // (iii) vs (ii): new instance vs reused instance at the same place -> instance state
        {
            bool t2 = false;
            std::string diff;
            int r = cmp(H, "N", H, "H", probe, "issues", diff);
            const std::string *fresh = get(H, "N", probe, "issues", 'r'), *reused = get(H, "H", probe, "issues", 'r');
            if (r == 2 && fresh != nullptr && reused != nullptr && reused->size() > fresh->size() && reused->compare(reused->size() - fresh->size(), fresh->size(), *fresh) == 0) {
                report(std::string("C12.issues-not-reset|") + kSvc[psvc], "the reused instance still lists issues of an earlier call (" + opText(cd, static_cast<size_t>(probe)) + "):\n--- reused instance\n" + clipTo(*reused, 1500) + "--- new instance\n" + clipTo(*fresh, 1500));
            } else {
                compareOp("C12.fresh-vs-reused", H, "N", H, "H", probe, "the probe at its place in the history: new instance vs reused instance", t2);
            }
        }
        // (ii) vs (iv): the same call twice in a row on the same instance
        {
            bool t3 = false;
            compareOp("C12.repeat", H, "H", H, "H2", probe, "the probe executed twice in a row on the same instance", t3);
        }
    }
};

// ---- children are new processes (posix_spawn of this very binary), not forks of the worker: what a library call does may
// depend on where the allocator places objects (containers ordered by pointer value), and a fork inherits the worker's heap,
// which differs from case to case and between a worker and a replay. A spawned child starts from the same allocator state
// every time, so a case is a function of its tape alone. The child regenerates the case from the recorded choice sequence.

struct RecSrc: Src
{
    Src &inner;
    std::vector<uint64_t> choices;
    explicit RecSrc(Src &s)
        : inner(s)
    {
    }
    bool exhausted() const override { return inner.exhausted(); }
protected:
    // A case needs 300-600 choices, i.e. rapidcheck sizes far above its nominal 100, where a large share of the generated
    // integers are degenerate (0xffffffff, 0x7fffffff, ...): the tape decoder maps each of those to ONE residue per radix, so
    // that e.g. half of all probes were annotator lookups. The 32-bit value of the tape entry is therefore mixed once more
    // together with its position; 0 stays 0 (the simplest choice, what shrinking and reads past the end produce), the choice
    // is still a pure function of the tape, and equal degenerate entries at different positions give different choices.
    uint64_t raw(uint64_t n) override
    {
        uint64_t r = inner.below(1ULL << 32);
        uint64_t v = 0;
        if (r != 0) {
            uint64_t z = r + 0x9E3779B97F4A7C15ULL * (choices.size() + 1);
            z = (z ^ (z >> 30)) * 0xBF58476D1CE4E5B9ULL;
            z = (z ^ (z >> 27)) * 0x94D049BB133111EBULL;
            z ^= z >> 31;
            v = z % n;
        }
        choices.push_back(v);
        return v;
    }
};

struct ChoiceSrc: Src
{
    std::vector<uint64_t> choices;
    size_t pos = 0;
    bool exhausted() const override { return pos >= choices.size(); }
protected:
    uint64_t raw(uint64_t n) override
    {
        uint64_t v = pos < choices.size() ? choices[pos] : 0;
        ++pos;
        return v % n;
    }
};

// property.init hook: with C12_CHILD set this process is a child; it never returns to the driver.
void childEntry()
{
    const char *mode = getenv("C12_CHILD");
    if (mode == nullptr) {
        return;
    }
    alarm(150);
    ChoiceSrc src;
    {
        // The heap must evolve identically in every child of a case: read the choices into static storage (how many read()
        // calls it takes depends on timing) and allocate once.
        static uint64_t store[1 << 16];
        char *raw = reinterpret_cast<char *>(store);
        size_t got = 0;
        ssize_t n;
        while (got < sizeof store && (n = read(0, raw + got, sizeof store - got)) > 0) {
            got += static_cast<size_t>(n);
        }
        src.choices.assign(store, store + got / sizeof(uint64_t));
    }
    CaseData cd = generate(src);
    ChildArg a {&cd, mode[0] == 'H'};
    childMain(&a);
    fflush(nullptr);
    _exit(0);
}

int runChild(const std::vector<uint64_t> &choices, bool full, std::string &stream)
{
    int in[2], err[2];
    if (pipe(in) != 0) {
        return -1;
    }
    if (pipe(err) != 0) {
        close(in[0]);
        close(in[1]);
        return -1;
    }
    posix_spawn_file_actions_t fa;
    posix_spawn_file_actions_init(&fa);
    posix_spawn_file_actions_adddup2(&fa, in[0], 0);
    posix_spawn_file_actions_adddup2(&fa, err[1], 2);
    posix_spawn_file_actions_addclose(&fa, in[1]);
    posix_spawn_file_actions_addclose(&fa, err[0]);
    posix_spawn_file_actions_addopen(&fa, 1, "/dev/null", O_WRONLY, 0);
    std::vector<std::string> envs;
    for (char **e = environ; *e != nullptr; ++e) {
        if (strncmp(*e, "C12_CHILD=", 10) != 0) {
            envs.push_back(*e);
        }
    }
    envs.push_back(full ? "C12_CHILD=H" : "C12_CHILD=F");
    std::vector<char *> envp;
    for (auto &e : envs) {
        envp.push_back(&e[0]);
    }
    envp.push_back(nullptr);
    char a0[] = "/proc/self/exe", a1[] = "--mode", a2[] = "c12child";
    char *argv[] = {a0, a1, a2, nullptr};
    pid_t pid = 0;
    int rc = posix_spawn(&pid, "/proc/self/exe", &fa, nullptr, argv, envp.data());
    posix_spawn_file_actions_destroy(&fa);
    close(in[0]);
    close(err[1]);
    if (rc != 0) {
        close(in[1]);
        close(err[0]);
        return -1;
    }
    {
        // at most a few thousand choices: fits the pipe buffer more often than not, and the child reads before it writes
        const char *d = reinterpret_cast<const char *>(choices.data());
        size_t len = choices.size() * sizeof(uint64_t), off = 0;
        while (off < len) {
            ssize_t n = write(in[1], d + off, len - off);
            if (n <= 0) {
                break;
            }
            off += static_cast<size_t>(n);
        }
        close(in[1]);
    }
    stream.clear();
    char buf[16384];
    ssize_t n;
    while ((n = read(err[0], buf, sizeof buf)) > 0) {
        if (stream.size() < (8u << 20)) {
            stream.append(buf, static_cast<size_t>(n));
        }
    }
    close(err[0]);
    int st = 0;
    waitpid(pid, &st, 0);
    if (WIFEXITED(st)) {
        return WEXITSTATUS(st);
    }
    return WIFSIGNALED(st) ? 1000 + WTERMSIG(st) : -1;
}

void run(Src &tapeSrc, Case &c)
{
    RecSrc src(tapeSrc);
    CaseData cd = generate(src);
    c.text = describe(cd);
    c.hash = hashStr(c.text);
    c.weight = c.text.size();

    const int probe = cd.probe;
    const Op &pop = cd.ops[static_cast<size_t>(probe)];
    // classes known before execution
    std::set<Svc> before;
    bool sharedUsedBefore = false;
    auto instanceOf = [](Svc s) { return s == FLATTEN ? RESOLVE : s; };
    for (int k = 0; k < probe; ++k) {
        const Op &o = cd.ops[static_cast<size_t>(k)];
        before.insert(o.svc);
        if (!o.fresh && instanceOf(o.svc) == instanceOf(pop.svc)) {
            sharedUsedBefore = true;
        }
    }
    bool differentBefore = false;
    for (Svc s : before) {
        c.cls(std::string("x:") + kShort[s] + ">" + kShort[pop.svc]);
        differentBefore = differentBefore || s != pop.svc;
    }
    c.cls(std::string("probe:") + kShort[pop.svc]);
    if (cd.twinOrder != 0) {
        c.cls("analyser-reuse:same-units-name-other-meaning");
        c.cls(cd.twinOrder == 1 ? "analyser-reuse:redefined-after-original" : "analyser-reuse:original-after-redefined");
    }
    c.cls(sharedUsedBefore ? "instance:reused-after-use" : "instance:first-use");
    c.cls("ops=" + std::to_string(cd.ops.size() <= 3 ? cd.ops.size() : (cd.ops.size() <= 6 ? 4 : 7)) + (cd.ops.size() <= 3 ? "" : "+"));
    // does the probe input contain math or imports?
    bool inputRich = false;
    std::string inputKind;
    {
        // follow the data flow back to pool items
        std::vector<int> work = {probe};
        std::set<int> visited;
        while (!work.empty()) {
            int i = work.back();
            work.pop_back();
            if (!visited.insert(i).second) {
                continue;
            }
            const Op &o = cd.ops[static_cast<size_t>(i)];
            if (o.svc == GENERATE) {
                work.push_back(o.amOp);
            } else if (o.refKind == 1) {
                work.push_back(o.ref);
            } else if (o.svc == PARSE) {
                const DocItem &d = cd.docs[static_cast<size_t>(o.ref) % cd.docs.size()];
                inputRich = inputRich || d.math || d.imports;
                inputKind = "doc:" + d.kind;
            } else {
                const ModelItem &m = cd.models[static_cast<size_t>(o.ref) % cd.models.size()];
                inputRich = inputRich || m.math || m.imports;
                inputKind = "model:" + m.kind.substr(0, m.kind.find(':'));
            }
        }
    }
    c.cls("input:" + inputKind);
    c.nontrivial = differentBefore && inputRich;
    if (inputRich) {
        c.cls("probe-input-has-math-or-imports");
    }
    if (differentBefore) {
        c.cls("different-service-before-probe");
    }
    for (const auto &o : cd.ops) {
        c.cls(std::string("svc:") + kShort[o.svc]);
    }
    if (!cd.lib.empty()) {
        c.cls("import-forest");
    }

    // library documents as files (the worker only writes text; no library call)
    std::string dir;
    if (cd.libFiles) {
        const char *runDir = getenv("VERIF_RUN_DIR");
        dir = std::string(runDir != nullptr ? runDir : "/verif/.build/run") + "/c12-lib-" + std::to_string(static_cast<long>(getpid()));
        mkdir(dir.c_str(), 0777);
        for (size_t k = 0; k < cd.lib.size(); ++k) {
            XmlOptions xo;
            std::string text = writeXml(cd.lib[k].spec, xo);
            if (k == 0 && cd.libFileBroken) {
                size_t p = text.find("<variable ");
                if (p != std::string::npos) {
                    text.insert(p + 10, "path=\"/here\" ");
                }
            }
            std::ofstream(dir + "/" + cd.lib[k].key) << text;
        }
        setenv("C12_DIR", dir.c_str(), 1);
        c.cls(cd.libFileBroken ? "library-files:with-parse-error" : "library-files:clean");
    } else {
        unsetenv("C12_DIR");
    }
    struct DirCleaner
    {
        const CaseData &cd;
        std::string dir;
        ~DirCleaner()
        {
            if (!dir.empty()) {
                for (const auto &l : cd.lib) {
                    unlink((dir + "/" + l.key).c_str());
                }
                rmdir(dir.c_str());
            }
        }
    } cleaner {cd, dir};
    Judge j {cd, c, {}, {}, {}};
    std::string sf, sh;
    auto t0 = std::chrono::steady_clock::now();
    int rf = runChild(src.choices, false, sf);
    auto t1 = std::chrono::steady_clock::now();
    c.count("ms:run-F", static_cast<long>(std::chrono::duration_cast<std::chrono::milliseconds>(t1 - t0).count()));
    parseStream(sf, j.F);
    if (rf != 0 || j.F.ended.count("F") == 0) {
        std::string at = j.F.lastBegin;
        int op = at.empty() ? -1 : atoi(at.substr(at.find('\t') + 1).c_str());
        c.fail(std::string("C12.crash|") + (op >= 0 ? kSvc[cd.ops[static_cast<size_t>(op)].svc] : "?") + "|fresh-process", "run F ended with status " + std::to_string(rf) + " in op" + std::to_string(op) + "\n" + sf.substr(sf.size() > 4000 ? sf.size() - 4000 : 0));
        return;
    }
    int rh = runChild(src.choices, true, sh);
    c.count("ms:run-H+N", static_cast<long>(std::chrono::duration_cast<std::chrono::milliseconds>(std::chrono::steady_clock::now() - t1).count()));
    parseStream(sh, j.H);
    if (rh != 0 || j.H.ended.count("H") == 0 || j.H.ended.count("N") == 0 || j.H.nDied) {
        std::string at = j.H.lastBegin;
        int op = at.empty() ? -1 : atoi(at.substr(at.find('\t') + 1).c_str());
        c.fail(std::string("C12.crash|") + (op >= 0 ? kSvc[cd.ops[static_cast<size_t>(op)].svc] : "?") + "|in-history", "run H ended with status " + std::to_string(rh) + (j.H.nDied ? " (run N died)" : "") + " in op" + std::to_string(op) + "\n" + sh.substr(sh.size() > 4000 ? sh.size() - 4000 : 0));
        return;
    }
    j.run();
    // Every failed oracle is in c.alsoFailed so that a listed finding does not hide an unlisted one. The case itself fails
    // with the first unlisted signature, or - when all are listed - with the first listed one (replays then say so).
    if (!c.alsoFailed.empty()) {
        size_t pick = 0;
        for (size_t k = 0; k < c.alsoFailed.size(); ++k) {
            if (knownFindingIndex("C12", c.alsoFailed[k].first) < 0) {
                pick = k;
                break;
            }
        }
        auto f = c.alsoFailed[pick];
        c.alsoFailed.erase(c.alsoFailed.begin() + static_cast<long>(pick));
        c.fail(f.first, f.second);
    }

    // classes known after execution
    for (const auto &kv : j.H.info) {
        if (kv.first.compare(0, 8, "am-type:") == 0 || kv.first.compare(0, 8, "flatten:") == 0 || kv.first == "result-mutated-then-input-compared") {
            c.cls(kv.first);
        }
        if (kv.first.compare(0, 15, "unlinked-input:") == 0) {
            c.cls("input-has-unlinked-units");
            c.cls("input-has-unlinked-units:" + kv.first.substr(15));
        }
    }
    {
        // the issue-list reset is exercised when the previous use of the same shared instance left issues and the probe's
        // own list (new instance) is different
        int prev = -1;
        for (int k = 0; k < probe; ++k) {
            const Op &o = cd.ops[static_cast<size_t>(k)];
            if (!o.fresh && instanceOf(o.svc) == instanceOf(pop.svc)) {
                prev = k;
            }
        }
        if (prev >= 0 && cd.slice[static_cast<size_t>(prev)] == 0) {
            // issues of non-slice ops are not recorded as observations; the info map has them for every recorded op only
        }
        auto it = j.H.info.find("issues:N:" + std::to_string(probe));
        if (it != j.H.info.end()) {
            c.cls(it->second == "1" ? "probe-has-issues" : "probe-no-issues");
        }
    }
    c.count("children", 3);
    if (j.F.info.count("canon-incomplete") != 0 || j.H.info.count("canon-incomplete") != 0) {
        c.count("canon-incomplete");
    }
}

} // namespace

// Every case forks three times; the cost of fork() grows with the resident set of the worker, most of which is ASan's
// quarantine of freed memory (256 MiB by default). A small quarantine keeps forking cheap; it does not weaken detection in
// the short-lived children. (ASAN_OPTIONS from the environment still override this.)
extern "C" const char *__asan_default_options()
{
    return "quarantine_size_mb=8";
}

namespace vp {
Property property = {
    "C12",
    "exploration",
    "rapidcheck tapes drive a pool of inputs (documents: analysable / generic valid CellML 2.0, CellML 1.0/1.1, almost-valid after 1-2 text edits, garbage; API-built models: analysable, generic valid, broken so that validation "
    "fails; an import forest of 1-2 library models registered with Importer::addModel plus a root importing from it) and a history of 2-12 service calls (parse strict/permissive, print with/without autoIds, validate, analyse "
    "with/without external variables, generate C/Python, resolveImports, flattenModel, annotator lookups) on shared or new instances, one call being the probe. Each case is executed in forked children only (the worker never "
    "calls libCellML or libxml2): the probe's dependency slice in a fresh process, the whole history in another with the probe on the reused instance and repeated at once, and - forked from that process right before the "
    "probe - the probe on a new instance. Raw-math dumps of returned models, issue lists, returned text and a dump of the AnalyserModel must be identical across the four executions; argument models must dump identically "
    "before/after Printer, Validator, Analyser, Generator, flattenModel; models, AnalyserModels and generator code held from earlier calls must read the same at the end of the history. "
    "Non-trivial: the probe is preceded by at least one call of a different service and its input contains math or imports. Distinct = hash of pool + history text.",
    run,
    nullptr,
    {"libxml2 2.13.9 as linked by the baseline build; one thread",
     "import resolution uses Importer::addModel libraries only; the base path does not exist, so no file is ever read",
     "a difference between two observations that disappears when MathML is canonicalised and that follows a Printer::printModel call is attributed to the listed finding (xmlKeepBlanksDefault(0) left behind)",
     "the issue list, not Issue objects handed out earlier, is the observed result of a call"},
    childEntry, // with C12_CHILD in the environment this process executes one case and exits
};
}

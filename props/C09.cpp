// VP-BUILD: fuzz
// C09 (histories) — ownership invariants survive any history of object-model API calls.
//
// A tape drives an interpreter of add / remove / take / replace / move / equivalence / drop / re-hold calls over a small
// universe of models, components, variables, units and resets, several of which are structurally identical. The harness
// keeps an identity-based containment model (who lists whom, in which order, who is alive) and after EVERY call compares
// everything that can be observed through public accessors with that model:
//   I1 every listed child reports the listing container as parent()      I2 nothing is listed twice / by two containers
//   I3 walking parent() from any component terminates                     I4 equivalence is symmetric, never yields null
//   I5 frame condition: exactly the addressed object was affected, every other list / parent link is unchanged; an
//      operand that is not a child is either refused or matched to a child that equals() it (whose links are updated)
//   I6 sanitizers silent (a crash kills the worker; bin/check triages the running tape)
// Modes: rc = long random histories over the full universe; ex = every history of exactly <bound> calls over a reduced
// single-family universe (prefixes are checked on the way, so all histories of length <= bound are covered).
#include <libcellml>

#include <algorithm>
#include <cstring>
#include <functional>

#include <unistd.h>

#include "prop.h"

using namespace vp;
using namespace libcellml;

namespace {
enum Kind
{
    MODEL,
    COMP,
    VAR,
    UNITS,
    RESET,
    NKINDS
};
const char *kindLetter = "MCVUR";

enum Act
{
    ADD,
    REMOVE,
    TAKE,
    REPLACE,
    CLEAR,
    SETVAR,
    SETTEST,
    EQADD,
    EQADD4,
    EQREMOVE,
    EQCLEAR,
    DROP,
    HOLD,
    RECREATE
};
enum Sel
{
    NOSEL,
    IDX,
    NAME,
    PTR
};

struct OpDef
{
    const char *name;
    Kind fam; // family of the operand
    Act act;
    Sel sel;
    int weight; // rc: relative frequency
};

// clang-format off
const std::vector<OpDef> OPS = {
    {"addComponent", COMP, ADD, NOSEL, 16},
    {"removeComponent(index)", COMP, REMOVE, IDX, 3},
    {"removeComponent(name)", COMP, REMOVE, NAME, 3},
    {"removeComponent(ptr)", COMP, REMOVE, PTR, 6},
    {"takeComponent(index)", COMP, TAKE, IDX, 3},
    {"takeComponent(name)", COMP, TAKE, NAME, 3},
    {"replaceComponent(index)", COMP, REPLACE, IDX, 3},
    {"replaceComponent(name)", COMP, REPLACE, NAME, 3},
    {"replaceComponent(ptr)", COMP, REPLACE, PTR, 5},
    {"removeAllComponents", COMP, CLEAR, NOSEL, 1},
    {"addVariable", VAR, ADD, NOSEL, 12},
    {"removeVariable(index)", VAR, REMOVE, IDX, 2},
    {"removeVariable(name)", VAR, REMOVE, NAME, 2},
    {"removeVariable(ptr)", VAR, REMOVE, PTR, 5},
    {"takeVariable(index)", VAR, TAKE, IDX, 2},
    {"takeVariable(name)", VAR, TAKE, NAME, 2},
    {"removeAllVariables", VAR, CLEAR, NOSEL, 1},
    {"addUnits", UNITS, ADD, NOSEL, 8},
    {"removeUnits(index)", UNITS, REMOVE, IDX, 2},
    {"removeUnits(name)", UNITS, REMOVE, NAME, 2},
    {"removeUnits(ptr)", UNITS, REMOVE, PTR, 4},
    {"takeUnits(index)", UNITS, TAKE, IDX, 2},
    {"takeUnits(name)", UNITS, TAKE, NAME, 2},
    {"replaceUnits(index)", UNITS, REPLACE, IDX, 2},
    {"replaceUnits(name)", UNITS, REPLACE, NAME, 2},
    {"replaceUnits(ptr)", UNITS, REPLACE, PTR, 3},
    {"removeAllUnits", UNITS, CLEAR, NOSEL, 1},
    {"addReset", RESET, ADD, NOSEL, 8},
    {"removeReset(index)", RESET, REMOVE, IDX, 2},
    {"removeReset(ptr)", RESET, REMOVE, PTR, 4},
    {"takeReset(index)", RESET, TAKE, IDX, 2},
    {"removeAllResets", RESET, CLEAR, NOSEL, 1},
    {"Reset::setVariable", RESET, SETVAR, NOSEL, 2},
    {"Reset::setTestVariable", RESET, SETTEST, NOSEL, 1},
    {"Variable::addEquivalence", VAR, EQADD, NOSEL, 6},
    {"Variable::addEquivalence#4", VAR, EQADD4, NOSEL, 3},
    {"Variable::removeEquivalence", VAR, EQREMOVE, NOSEL, 3},
    {"Variable::removeAllEquivalences", VAR, EQCLEAR, NOSEL, 1},
    {"drop", NKINDS, DROP, NOSEL, 8},
    {"hold", NKINDS, HOLD, NOSEL, 3},
    {"recreate", NKINDS, RECREATE, NOSEL, 3},
};
// clang-format on

struct Call
{
    int op = 0;
    int K = -1; // receiver (container / reset / first variable)
    int a = -1; // operand selected by pointer (old object, added object, second variable, dropped object)
    int b = -1; // replacement object
    size_t idx = 0;
    const char *name = "";
    bool enc = false;
    bool keep = false; // take: the harness keeps the returned pointer
    Kind kind = NKINDS; // recreate: kind + template
    int tmpl = 0;
};

struct Obj
{
    Kind kind = COMP;
    int tmpl = 0;
    std::string label, name;
    EntityPtr sp; // the harness's own reference (null once dropped)
    std::weak_ptr<Entity> wp;
    Entity *raw = nullptr; // identity only, never dereferenced
    // containment model
    bool alive = true;
    int parent = -1;
    std::vector<int> kids[NKINDS]; // children by kind (COMP for models/components, VAR/RESET for components, UNITS for models)
    int rvar = -1, rtest = -1; // strong references of a reset
};

const char *compNames[] = {"c", "c", "c", "d", "c"};
const char *varNames[] = {"x", "x", "x", "y", "x"};
const char *unitsNames[] = {"u", "u", "w"};

struct World
{
    Case &c;
    std::vector<Obj> objs;
    std::set<std::pair<int, int>> eq; // unordered pairs (lo, hi)
    std::map<std::pair<int, int>, std::string> mids; // expected mapping id of every pair in eq ("" = none)
    std::set<std::pair<int, int>> idsLeftBehind; // pairs that had a mapping id when removeAllEquivalences() removed them
    std::map<int, uint64_t> lastProbe; // model -> configuration of its equivalences at the last service probe
    bool avoidKnown = false;
    int counts[NKINDS] = {0, 0, 0, 0, 0};
    std::string log; // human readable history
    bool sawLookalikeOp = false, sawLinkedDrop = false;
    size_t steps = 0;
    bool quiet = false; // preset replay: the same calls were already checked once in this process

    explicit World(Case &cc)
        : c(cc)
    {
    }

    // ---------------------------------------------------------------- real objects
    template<class T>
    std::shared_ptr<T> get(int i) const
    {
        return i < 0 ? nullptr : std::dynamic_pointer_cast<T>(objs[static_cast<size_t>(i)].wp.lock());
    }
    ComponentEntityPtr ce(int i) const { return get<ComponentEntity>(i); }
    Obj &o(int i) { return objs[static_cast<size_t>(i)]; }
    const Obj &o(int i) const { return objs[static_cast<size_t>(i)]; }

    int create(Kind k, int tmpl)
    {
        Obj ob;
        ob.kind = k;
        ob.tmpl = tmpl;
        ob.label = std::string(1, kindLetter[k]) + std::to_string(counts[k]++);
        switch (k) {
        case MODEL:
            ob.name = "m";
            ob.sp = Model::create(ob.name);
            break;
        case COMP:
            ob.name = compNames[tmpl % 5];
            ob.sp = Component::create(ob.name);
            break;
        case VAR:
            ob.name = varNames[tmpl % 5];
            ob.sp = Variable::create(ob.name);
            break;
        case UNITS:
            ob.name = unitsNames[tmpl % 3];
            ob.sp = Units::create(ob.name);
            break;
        default: {
            auto r = Reset::create();
            if (tmpl % 3 == 2) {
                r->setOrder(1);
            }
            ob.sp = r;
        }
        }
        ob.wp = ob.sp;
        ob.raw = ob.sp.get();
        objs.push_back(ob);
        return static_cast<int>(objs.size()) - 1;
    }

    int findRaw(const Entity *p) const
    {
        for (size_t i = 0; i < objs.size(); ++i) {
            if (objs[i].alive && objs[i].raw == p) {
                return static_cast<int>(i);
            }
        }
        return -1;
    }

    std::vector<int> aliveOf(Kind k) const
    {
        std::vector<int> v;
        for (size_t i = 0; i < objs.size(); ++i) {
            if (objs[i].alive && objs[i].kind == k) {
                v.push_back(static_cast<int>(i));
            }
        }
        return v;
    }
    // containers able to hold an entity of family fam
    std::vector<int> containersFor(Kind fam) const
    {
        std::vector<int> v;
        for (size_t i = 0; i < objs.size(); ++i) {
            if (!objs[i].alive) {
                continue;
            }
            Kind k = objs[i].kind;
            if ((fam == COMP && (k == MODEL || k == COMP)) || ((fam == VAR || fam == RESET) && k == COMP) || (fam == UNITS && k == MODEL)) {
                v.push_back(static_cast<int>(i));
            }
        }
        return v;
    }

    // ---------------------------------------------------------------- model helpers
    bool isAncestorOrSelf(int anc, int x) const
    {
        for (int p = x, guard = 0; p >= 0 && guard < 1000; p = o(p).parent, ++guard) {
            if (p == anc) {
                return true;
            }
        }
        return false;
    }
    void detach(int x)
    {
        int p = o(x).parent;
        if (p >= 0) {
            auto &l = o(p).kids[o(x).kind];
            l.erase(std::remove(l.begin(), l.end(), x), l.end());
        }
        o(x).parent = -1;
    }
    void attach(int K, int x, size_t pos)
    {
        auto &l = o(K).kids[o(x).kind];
        l.insert(l.begin() + static_cast<long>(std::min(pos, l.size())), x);
        o(x).parent = K;
    }
    // search order of the library: own children first, then each child's subtree
    void scope(int K, Kind fam, bool enc, std::vector<int> &out) const
    {
        for (int x : o(K).kids[fam]) {
            out.push_back(x);
        }
        if (enc && fam == COMP) {
            for (int x : o(K).kids[COMP]) {
                scope(x, fam, enc, out);
            }
        }
    }
    bool realEquals(int x, int y) const
    {
        auto ex = o(x).wp.lock();
        auto ey = o(y).wp.lock();
        return ex != nullptr && ey != nullptr && ex->equals(ey);
    }
    bool hasLookalikeSibling(int x) const
    {
        int p = o(x).parent;
        if (p < 0) {
            return false;
        }
        for (int s : o(p).kids[o(x).kind]) {
            if (s != x && realEquals(s, x)) {
                return true;
            }
        }
        return false;
    }

    // Recomputes who is alive: everything reachable from the harness's own references through strong links.
    void settleLiveness()
    {
        std::vector<char> reach(objs.size(), 0);
        std::vector<int> stack;
        for (size_t i = 0; i < objs.size(); ++i) {
            if (objs[i].alive && objs[i].sp != nullptr) {
                reach[i] = 1;
                stack.push_back(static_cast<int>(i));
            }
        }
        while (!stack.empty()) {
            int x = stack.back();
            stack.pop_back();
            auto visit = [&](int y) {
                if (y >= 0 && o(y).alive && !reach[static_cast<size_t>(y)]) {
                    reach[static_cast<size_t>(y)] = 1;
                    stack.push_back(y);
                }
            };
            for (auto &l : o(x).kids) {
                for (int y : l) {
                    visit(y);
                }
            }
            visit(o(x).rvar);
            visit(o(x).rtest);
        }
        for (size_t i = 0; i < objs.size(); ++i) {
            if (objs[i].alive && !reach[i]) {
                objs[i].alive = false;
            }
        }
        for (size_t i = 0; i < objs.size(); ++i) {
            Obj &d = objs[i];
            if (d.alive) {
                if (d.parent >= 0 && !o(d.parent).alive) {
                    d.parent = -1; // the owner is gone: the weak parent link has expired
                }
                continue;
            }
            for (auto &l : d.kids) {
                l.clear();
            }
            d.parent = -1;
            d.rvar = d.rtest = -1;
        }
        for (auto it = eq.begin(); it != eq.end();) {
            if (!o(it->first).alive || !o(it->second).alive) {
                mids.erase(*it);
                it = eq.erase(it);
            } else {
                ++it;
            }
        }
    }

    // ---------------------------------------------------------------- observation against the model
    std::string listText(const std::vector<int> &l) const
    {
        std::string s = "[";
        for (size_t i = 0; i < l.size(); ++i) {
            s += (i ? "," : "") + (l[i] >= 0 ? o(l[i]).label : std::string("?unknown"));
        }
        return s + "]";
    }

    // Returns "" when everything observable agrees with the model, else "<I>|detail".
    std::string compare()
    {
        // liveness first (an object the model believes alive is dereferenced below)
        for (const Obj &ob : objs) {
            if (ob.alive == ob.wp.expired()) {
                return std::string("live|") + ob.label + (ob.alive ? " was destroyed although something still owns it" : " is still alive although nothing owns it");
            }
        }
        // I3
        size_t limit = objs.size() + 2;
        for (const Obj &ob : objs) {
            if (!ob.alive || ob.kind != COMP) {
                continue;
            }
            ParentedEntityPtr p = std::dynamic_pointer_cast<ParentedEntity>(ob.wp.lock());
            size_t n = 0;
            while (p != nullptr && n <= limit) {
                p = p->parent();
                ++n;
            }
            if (p != nullptr) {
                return "I3|parent() walk from " + ob.label + " does not terminate (hierarchy cycle)";
            }
        }
        // observed lists
        std::vector<std::vector<int>> seen(objs.size()); // object -> containers listing it
        for (size_t i = 0; i < objs.size(); ++i) {
            const Obj &K = objs[i];
            if (!K.alive || (K.kind != MODEL && K.kind != COMP)) {
                continue;
            }
            std::vector<int> obs[NKINDS];
            auto centity = ce(static_cast<int>(i));
            for (size_t k = 0; k < centity->componentCount(); ++k) {
                EntityPtr e = centity->component(k);
                obs[COMP].push_back(e == nullptr ? -2 : findRaw(e.get()));
            }
            if (K.kind == COMP) {
                auto comp = get<Component>(static_cast<int>(i));
                for (size_t k = 0; k < comp->variableCount(); ++k) {
                    EntityPtr e = comp->variable(k);
                    obs[VAR].push_back(e == nullptr ? -2 : findRaw(e.get()));
                }
                for (size_t k = 0; k < comp->resetCount(); ++k) {
                    EntityPtr e = comp->reset(k);
                    obs[RESET].push_back(e == nullptr ? -2 : findRaw(e.get()));
                }
            } else {
                auto model = get<Model>(static_cast<int>(i));
                for (size_t k = 0; k < model->unitsCount(); ++k) {
                    EntityPtr e = model->units(k);
                    obs[UNITS].push_back(e == nullptr ? -2 : findRaw(e.get()));
                }
            }
            for (int fam = 0; fam < NKINDS; ++fam) {
                for (int x : obs[fam]) {
                    if (x >= 0) {
                        seen[static_cast<size_t>(x)].push_back(static_cast<int>(i));
                    }
                }
            }
            for (int fam = 0; fam < NKINDS; ++fam) {
                if (obs[fam] != K.kids[fam]) {
                    // classify: duplicates are I2, anything else is the frame condition
                    pending.push_back({static_cast<int>(i), fam, obs[fam]});
                }
            }
        }
        std::string firstListDiff;
        if (!pending.empty()) {
            const auto &d = pending.front();
            firstListDiff = o(d.K).label + " lists " + std::string(1, kindLetter[d.fam]) + listText(d.obs) + ", expected " + listText(o(d.K).kids[d.fam]);
        }
        pending.clear();
        for (size_t x = 0; x < objs.size(); ++x) {
            if (seen[x].size() > 1) {
                std::string by;
                for (int k : seen[x]) {
                    by += (by.empty() ? "" : ",") + o(k).label;
                }
                return "I2|" + objs[x].label + " is listed " + std::to_string(seen[x].size()) + " times (by " + by + ")" + (firstListDiff.empty() ? "" : "; " + firstListDiff);
            }
        }
        if (!firstListDiff.empty()) {
            return "I5|" + firstListDiff;
        }
        // lists agree with the model from here on
        for (size_t x = 0; x < objs.size(); ++x) {
            const Obj &ob = objs[x];
            if (!ob.alive || ob.kind == MODEL) {
                continue;
            }
            auto pe = std::dynamic_pointer_cast<ParentedEntity>(ob.wp.lock());
            EntityPtr par = pe->parent();
            int pi = par == nullptr ? -1 : findRaw(par.get());
            if (par != nullptr && pi < 0) {
                return "I5|" + ob.label + " reports a parent that is no known live object";
            }
            if (pe->hasParent() != (par != nullptr)) {
                return "I5|" + ob.label + " hasParent() disagrees with parent()";
            }
            if (ob.parent >= 0 && pi != ob.parent) {
                return "I1|" + ob.label + " is listed by " + o(ob.parent).label + " but reports parent " + (pi < 0 ? std::string("null") : o(pi).label);
            }
            if (ob.parent < 0 && pi >= 0) {
                return "I5|" + ob.label + " is listed by nobody but still reports parent " + o(pi).label;
            }
        }
        // I4
        for (size_t x = 0; x < objs.size(); ++x) {
            const Obj &ob = objs[x];
            if (!ob.alive || ob.kind != VAR) {
                continue;
            }
            auto v = get<Variable>(static_cast<int>(x));
            std::vector<int> got, want;
            size_t n = v->equivalentVariableCount();
            for (size_t k = 0; k < n; ++k) {
                auto e = v->equivalentVariable(k);
                if (e == nullptr) {
                    return "I4|" + ob.label + "->equivalentVariable(" + std::to_string(k) + ") is null with equivalentVariableCount() == " + std::to_string(n);
                }
                int ei = findRaw(e.get());
                if (ei < 0) {
                    return "I4|" + ob.label + " yields an equivalent variable that is no known live object";
                }
                got.push_back(ei);
            }
            for (const auto &p : eq) {
                if (p.first == static_cast<int>(x)) {
                    want.push_back(p.second);
                } else if (p.second == static_cast<int>(x)) {
                    want.push_back(p.first);
                }
            }
            std::sort(got.begin(), got.end());
            std::sort(want.begin(), want.end());
            if (got != want) {
                return "I4|" + ob.label + " is equivalent to " + listText(got) + ", expected " + listText(want);
            }
            for (int w : want) {
                if (!v->hasEquivalentVariable(get<Variable>(w))) {
                    return "I4|" + ob.label + "->hasEquivalentVariable(" + o(w).label + ") is false";
                }
                // the mapping id is part of the equivalence: same on both sides, gone when the equivalence is removed
                // (connection ids are per pair of components and are not compared here)
                auto key = std::make_pair(std::min(static_cast<int>(x), w), std::max(static_cast<int>(x), w));
                auto mid = mids.find(key);
                std::string wantId = mid == mids.end() ? std::string() : mid->second;
                std::string gotId = Variable::equivalenceMappingId(v, get<Variable>(w));
                if (gotId != wantId) {
                    return "I4|equivalenceMappingId(" + ob.label + ", " + o(w).label + ") is \"" + gotId + "\", expected \"" + wantId + "\"";
                }
            }
        }
        return "";
    }
    struct ListDiff
    {
        int K;
        int fam;
        std::vector<int> obs;
    };
    std::vector<ListDiff> pending;

    // is x currently listed (real object) by its model parent? (true as well when that parent did not survive the call:
    // then x was not detached from it, it went down with it)
    bool reallyListed(int x) const
    {
        int p = o(x).parent;
        if (p < 0) {
            return false;
        }
        if (o(p).wp.expired()) {
            return true;
        }
        const Entity *raw = o(x).raw;
        switch (o(x).kind) {
        case COMP: {
            auto K = ce(p);
            for (size_t k = 0; k < K->componentCount(); ++k) {
                if (K->component(k).get() == raw) {
                    return true;
                }
            }
            return false;
        }
        case VAR: {
            auto K = get<Component>(p);
            for (size_t k = 0; k < K->variableCount(); ++k) {
                if (static_cast<Entity *>(K->variable(k).get()) == raw) {
                    return true;
                }
            }
            return false;
        }
        case RESET: {
            auto K = get<Component>(p);
            for (size_t k = 0; k < K->resetCount(); ++k) {
                if (static_cast<Entity *>(K->reset(k).get()) == raw) {
                    return true;
                }
            }
            return false;
        }
        default: {
            auto K = get<Model>(p);
            for (size_t k = 0; k < K->unitsCount(); ++k) {
                if (static_cast<Entity *>(K->units(k).get()) == raw) {
                    return true;
                }
            }
            return false;
        }
        }
    }

    // ---------------------------------------------------------------- the real calls
    bool realAdd(Kind fam, int K, int a)
    {
        switch (fam) {
        case COMP: return ce(K)->addComponent(get<Component>(a));
        case VAR: return get<Component>(K)->addVariable(get<Variable>(a));
        case RESET: return get<Component>(K)->addReset(get<Reset>(a));
        default: return get<Model>(K)->addUnits(get<Units>(a));
        }
    }
    bool realRemove(Kind fam, Sel sel, const Call &cl)
    {
        switch (fam) {
        case COMP:
            return sel == IDX ? ce(cl.K)->removeComponent(cl.idx) : sel == NAME ? ce(cl.K)->removeComponent(cl.name, cl.enc) : ce(cl.K)->removeComponent(get<Component>(cl.a), cl.enc);
        case VAR:
            return sel == IDX ? get<Component>(cl.K)->removeVariable(cl.idx) : sel == NAME ? get<Component>(cl.K)->removeVariable(cl.name) : get<Component>(cl.K)->removeVariable(get<Variable>(cl.a));
        case RESET:
            return sel == IDX ? get<Component>(cl.K)->removeReset(cl.idx) : get<Component>(cl.K)->removeReset(get<Reset>(cl.a));
        default:
            return sel == IDX ? get<Model>(cl.K)->removeUnits(cl.idx) : sel == NAME ? get<Model>(cl.K)->removeUnits(cl.name) : get<Model>(cl.K)->removeUnits(get<Units>(cl.a));
        }
    }
    EntityPtr realTake(Kind fam, Sel sel, const Call &cl)
    {
        switch (fam) {
        case COMP: return sel == IDX ? ce(cl.K)->takeComponent(cl.idx) : ce(cl.K)->takeComponent(cl.name, cl.enc);
        case VAR: return sel == IDX ? get<Component>(cl.K)->takeVariable(cl.idx) : get<Component>(cl.K)->takeVariable(cl.name);
        case RESET: return get<Component>(cl.K)->takeReset(cl.idx);
        default: return sel == IDX ? get<Model>(cl.K)->takeUnits(cl.idx) : get<Model>(cl.K)->takeUnits(cl.name);
        }
    }
    bool realReplace(Kind fam, Sel sel, const Call &cl)
    {
        if (fam == COMP) {
            auto n = get<Component>(cl.b);
            return sel == IDX ? ce(cl.K)->replaceComponent(cl.idx, n) : sel == NAME ? ce(cl.K)->replaceComponent(cl.name, n, cl.enc) : ce(cl.K)->replaceComponent(get<Component>(cl.a), n, cl.enc);
        }
        auto n = get<Units>(cl.b);
        return sel == IDX ? get<Model>(cl.K)->replaceUnits(cl.idx, n) : sel == NAME ? get<Model>(cl.K)->replaceUnits(cl.name, n) : get<Model>(cl.K)->replaceUnits(get<Units>(cl.a), n);
    }

    // ---------------------------------------------------------------- one step
    std::string callText(const Call &cl) const
    {
        const OpDef &d = OPS[static_cast<size_t>(cl.op)];
        std::string base = d.name;
        size_t paren = base.find('(');
        if (paren != std::string::npos) {
            base = base.substr(0, paren);
        }
        std::string args;
        auto add = [&](const std::string &s) { args += (args.empty() ? "" : ", ") + s; };
        switch (d.act) {
        case ADD: add(o(cl.a).label); break;
        case REMOVE:
        case TAKE:
        case REPLACE:
            if (d.sel == IDX) add(std::to_string(cl.idx));
            if (d.sel == NAME) add(std::string("\"") + cl.name + "\"");
            if (d.sel == PTR) add(o(cl.a).label);
            if (d.act == REPLACE) add(o(cl.b).label);
            if (d.fam == COMP && d.sel != IDX) add(cl.enc ? "true" : "false");
            break;
        case SETVAR:
        case SETTEST: add(o(cl.a).label); break;
        case EQADD:
        case EQREMOVE: return base + "(" + o(cl.K).label + ", " + o(cl.a).label + ")";
        case EQADD4: return "Variable::addEquivalence(" + o(cl.K).label + ", " + o(cl.a).label + ", \"mid\", \"cid\")";
        case EQCLEAR: return o(cl.K).label + "->removeAllEquivalences()";
        case DROP: return "drop " + o(cl.a).label;
        case HOLD: return "hold " + o(cl.a).label;
        case RECREATE: return std::string("create ") + kindLetter[cl.kind] + "(template " + std::to_string(cl.tmpl) + ")";
        default: break;
        }
        if (d.act == TAKE && cl.keep) {
            args += args.empty() ? "/*kept*/" : " /*kept*/";
        }
        return o(cl.K).label + "->" + base + "(" + args + ")";
    }

    // ---------------------------------------------------------------- service probes
    // After a call that changed which variables of a model are equivalent to what, the whole-model services are run on
    // that model: clone() (and the clone is compared), and - when an equivalence crosses the model's border, i.e. one
    // end was removed / taken / never added / sits in another model - also flattenModel(), printModel() and
    // validateModel(), all in a forked child. No tape value is consumed, so saved tapes keep their meaning.
    void modelVariables(const ComponentEntityPtr &e, std::vector<VariablePtr> &out) const
    {
        for (size_t i = 0; i < e->componentCount(); ++i) {
            auto comp = e->component(i);
            for (size_t k = 0; k < comp->variableCount(); ++k) {
                out.push_back(comp->variable(k));
            }
            modelVariables(comp, out);
        }
    }
    // "" when clone() reproduces exactly the equivalences between variables of the model, position by position
    std::string cloneCheck(int m) const
    {
        auto model = get<Model>(m);
        auto copy = model->clone();
        if (copy == nullptr) {
            return "clone() returned null";
        }
        std::vector<VariablePtr> ov, cv;
        modelVariables(model, ov);
        modelVariables(copy, cv);
        if (ov.size() != cv.size()) {
            return "the clone has " + std::to_string(cv.size()) + " variables, the original " + std::to_string(ov.size());
        }
        auto indexIn = [](const std::vector<VariablePtr> &l, const VariablePtr &v) {
            for (size_t i = 0; i < l.size(); ++i) {
                if (l[i] == v) {
                    return static_cast<long>(i);
                }
            }
            return -1L;
        };
        for (size_t i = 0; i < ov.size(); ++i) {
            std::set<long> want, got;
            for (size_t k = 0; k < ov[i]->equivalentVariableCount(); ++k) {
                long j = indexIn(ov, ov[i]->equivalentVariable(k));
                if (j >= 0) {
                    want.insert(j);
                }
            }
            for (size_t k = 0; k < cv[i]->equivalentVariableCount(); ++k) {
                long j = indexIn(cv, cv[i]->equivalentVariable(k));
                if (j < 0) {
                    return "variable #" + std::to_string(i) + " of the clone is equivalent to a variable that is not in the clone";
                }
                got.insert(j);
            }
            if (want != got) {
                return "variable #" + std::to_string(i) + " of the clone has " + std::to_string(got.size()) + " equivalences inside the clone, the original has " + std::to_string(want.size())
                       + " inside the model (an equivalence was invented or lost)";
            }
        }
        return "";
    }
    struct ProbeJob
    {
        const World *w;
        int m;
    };
    static void probeChild(void *arg)
    {
        auto *j = static_cast<ProbeJob *>(arg);
        auto say = [](const std::string &t) {
            std::string l = "VP-PROBE-AT " + t + "\n";
            ssize_t r = write(2, l.data(), l.size());
            (void)r;
        };
        say("clone");
        std::string err = j->w->cloneCheck(j->m);
        if (!err.empty()) {
            say("clone-differs " + err);
            _exit(3);
        }
        auto model = j->w->get<Model>(j->m);
        say("flatten");
        (void)Importer::create()->flattenModel(model);
        say("print");
        (void)Printer::create()->printModel(model);
        (void)Printer::create()->printModel(model, true);
        say("validate");
        Validator::create()->validateModel(model);
        say("done");
    }
    bool probes()
    {
        for (size_t mi = 0; mi < objs.size(); ++mi) {
            if (!objs[mi].alive || objs[mi].kind != MODEL) {
                continue;
            }
            int m = static_cast<int>(mi);
            std::vector<int> comps, vars;
            scope(m, COMP, true, comps);
            for (int cc : comps) {
                for (int v : o(cc).kids[VAR]) {
                    vars.push_back(v);
                }
            }
            bool any = false, crosses = false;
            uint64_t h = 1469598103934665603ULL;
            auto mixIn = [&](uint64_t x) { h = (h ^ x) * 1099511628211ULL; };
            for (int v : vars) {
                mixIn(static_cast<uint64_t>(v) + 1);
            }
            for (const auto &pr : eq) {
                bool a = std::find(vars.begin(), vars.end(), pr.first) != vars.end();
                bool b = std::find(vars.begin(), vars.end(), pr.second) != vars.end();
                if (a || b) {
                    any = true;
                    crosses = crosses || (a != b);
                    mixIn(static_cast<uint64_t>(pr.first) * 1000003ULL + static_cast<uint64_t>(pr.second) + (a != b ? 7919 : 0));
                }
            }
            if (!any || lastProbe[m] == h) {
                continue;
            }
            lastProbe[m] = h;
            std::string rel = crosses ? "equivalence-leaves-model" : "equivalences-inside-model";
            if (crosses && avoidKnown && probeIsKnownShape) {
                c.count("excluded:known:whole-model-service-with-equivalence-leaving-the-model");
                continue;
            }
            c.cls("probe:" + rel);
            if (!crosses || !probeIsKnownShape) {
                // (when the tree is not known to crash here the services are called like any other call: a crash is then an
                // event of its own, triaged by bin/check from the running tape)
                log += "probe " + objs[mi].label + (crosses ? ": clone, flatten, print, validate\n" : ": clone\n");
                std::string err = cloneCheck(m);
                if (!err.empty()) {
                    log += "   <== " + err + "\n";
                    c.fail("C09.clone|probe:clone|" + rel, err + "\nhistory:\n" + log);
                    return false;
                }
                if (crosses) {
                    auto model = get<Model>(m);
                    (void)Importer::create()->flattenModel(model);
                    (void)Printer::create()->printModel(model);
                    (void)Printer::create()->printModel(model, true);
                    Validator::create()->validateModel(model);
                }
            } else {
                log += "probe " + objs[mi].label + ": clone, flatten, print, validate (forked)\n";
                ProbeJob job {this, m};
                std::string diag;
                int rc = runIsolated(probeChild, &job, 60, &diag);
                if (rc != 0) {
                    size_t at = diag.rfind("VP-PROBE-AT ");
                    std::string where = at == std::string::npos ? "?" : diag.substr(at + 12, diag.find_first_of(" \n", at + 12) - at - 12);
                    if (rc == 3 && where == "clone-differs") {
                        std::string err = diag.substr(at + 26, diag.find('\n', at) - at - 26);
                        log += "   <== " + err + "\n";
                        c.fail("C09.clone|probe:clone|" + rel, err + "\nhistory:\n" + log);
                    } else {
                        size_t asan = diag.find("runtime error: ");
                        std::string what = asan != std::string::npos ? diag.substr(asan, diag.find('\n', asan) - asan) : (diag.find("AddressSanitizer") != std::string::npos ? "AddressSanitizer report" : "died");
                        log += "   <== " + where + ": " + what + "\n";
                        c.fail("C09.crash|probe:" + where + "|" + rel, where + " on " + objs[mi].label + " " + what + " (child status " + std::to_string(rc) + ")\n" + diag.substr(0, 2500) + "\nhistory:\n" + log);
                    }
                    return false;
                }
            }
        }
        std::string diff = compare();
        if (!diff.empty()) {
            size_t bar = diff.find('|');
            c.fail("C09." + diff.substr(0, bar) + "|probe|changed-its-argument", diff.substr(bar + 1) + "\nhistory:\n" + log);
            return false;
        }
        return true;
    }
    bool probeIsKnownShape = false;

    // Everything that is decided about a call before it is made.
    struct Analysis
    {
        std::string rel; // relation of the operand(s) to the receiver: signature localisation and class label
        std::vector<int> victims; // objects the call may detach (exactly one of them)
        bool mayRefuse = false; // returning false / null without any change is allowed
        bool mustRefuse = false; // ... is the only allowed outcome
        bool excluded = false; // outside the claim (entity already held by the target container)
        bool lookalike = false; // an addressed object has an equals()-identical sibling
        bool linkedDrop = false;
    };

    Analysis analyse(const Call &cl) const
    {
        const OpDef &d = OPS[static_cast<size_t>(cl.op)];
        Analysis an;
        an.rel = "-";
        if (d.act == ADD) {
            int P = o(cl.a).parent;
            an.excluded = P == cl.K;
            if (cl.a == cl.K) {
                an.rel = P >= 0 ? "self-parented" : "self-loose";
                an.mustRefuse = true;
            } else if (d.fam == COMP && isAncestorOrSelf(cl.a, cl.K)) {
                an.rel = "ancestor";
                an.mustRefuse = true;
            } else if (P < 0) {
                an.rel = "loose";
            } else {
                int fm = -1;
                for (int x : o(P).kids[d.fam]) {
                    if (realEquals(x, cl.a)) {
                        fm = x;
                        break;
                    }
                }
                an.rel = fm == cl.a ? "move" : "move-lookalike";
                an.lookalike = hasLookalikeSibling(cl.a);
            }
            return an;
        }
        if (d.act == REMOVE || d.act == TAKE || d.act == REPLACE) {
            std::vector<int> sc;
            scope(cl.K, d.fam, cl.enc, sc);
            if (d.sel == IDX) {
                const auto &l = o(cl.K).kids[d.fam];
                an.rel = cl.idx < l.size() ? "index" : "index-out-of-range";
                if (cl.idx < l.size()) {
                    an.victims.push_back(l[cl.idx]);
                }
            } else if (d.sel == NAME) {
                for (int x : sc) {
                    if (o(x).name == cl.name) {
                        an.victims.push_back(x);
                    }
                }
                an.rel = an.victims.empty() ? "name-unknown" : (o(an.victims[0]).parent == cl.K ? "name" : "name-nested");
            } else {
                bool member = std::find(sc.begin(), sc.end(), cl.a) != sc.end();
                int fm = -1;
                for (int x : sc) {
                    if (realEquals(x, cl.a)) {
                        if (fm < 0) {
                            fm = x;
                        }
                        if (!member) {
                            an.victims.push_back(x);
                        }
                    }
                }
                if (member) {
                    an.victims.push_back(cl.a);
                    an.rel = fm != cl.a ? "lookalike" : (o(cl.a).parent == cl.K ? "child" : "nested");
                } else {
                    an.rel = cl.a == cl.K ? "self" : (fm >= 0 ? "foreign-lookalike" : "foreign");
                    an.mayRefuse = true;
                    an.lookalike = fm >= 0;
                }
            }
            for (int x : an.victims) {
                an.lookalike = an.lookalike || hasLookalikeSibling(x);
            }
            if (an.victims.empty()) {
                an.mustRefuse = true;
            }
            if (d.act == REPLACE) {
                // judged for the object the library's search order finds first; step() re-judges for the object really affected
                // (replacing by an object that the same container already lists is NOT the excluded shape - only ADDING is:
                // it is a move within the container, or a refusal)
                int Pb = o(cl.b).parent;
                int v0 = an.victims.empty() ? -1 : an.victims[0];
                int P0 = v0 < 0 ? cl.K : o(v0).parent;
                if (v0 == cl.b) {
                    an.rel += "+new-same";
                    an.mayRefuse = true;
                } else if (d.fam == COMP && isAncestorOrSelf(cl.b, P0)) {
                    an.rel += "+new-ancestor";
                    an.mustRefuse = true;
                } else if (v0 >= 0 && Pb == P0) {
                    const auto &l = o(P0).kids[d.fam];
                    bool before = std::find(l.begin(), l.end(), cl.b) < std::find(l.begin(), l.end(), v0);
                    an.rel += before ? "+new-sibling-before" : "+new-sibling-after";
                    if (l.back() == v0) {
                        an.rel += ",victim-last";
                    }
                    an.mayRefuse = true;
                } else if (Pb >= 0) {
                    an.rel += "+new-has-parent";
                    an.mayRefuse = true;
                } else {
                    an.rel += "+new-loose";
                }
            }
            return an;
        }
        if (d.act == DROP) {
            const Obj &ob = o(cl.a);
            bool linked = ob.parent >= 0;
            for (auto &l : ob.kids) {
                linked = linked || !l.empty();
            }
            for (const auto &p : eq) {
                linked = linked || p.first == cl.a || p.second == cl.a;
            }
            for (const Obj &r : objs) {
                linked = linked || (r.alive && (r.rvar == cl.a || r.rtest == cl.a));
            }
            an.linkedDrop = linked;
            an.rel = linked ? "linked" : "unlinked";
            return an;
        }
        if (d.act == EQADD || d.act == EQADD4 || d.act == EQREMOVE) {
            auto key = std::make_pair(std::min(cl.K, cl.a), std::max(cl.K, cl.a));
            an.rel = cl.K == cl.a ? "same-variable" : (eq.count(key) ? "equivalent" : "not-equivalent");
            if (d.act == EQADD && an.rel == "not-equivalent" && idsLeftBehind.count(key)) {
                an.rel += ",after-removeAllEquivalences-of-a-pair-with-ids";
            }
        }
        return an;
    }

    // Executes the call, settles the model on one of the outcomes the statement allows, compares. Returns false after recording a failure.
    bool step(const Call &cl) { return step(cl, analyse(cl)); }
    bool step(const Call &cl, const Analysis &an)
    {
        const OpDef &d = OPS[static_cast<size_t>(cl.op)];
        const std::string &rel = an.rel;
        std::string text, sigTail;
        if (!quiet) {
            text = callText(cl);
            sigTail = std::string("|") + d.name + "|" + rel;
            c.cls(std::string("op:") + d.name);
            if (rel != "-") {
                c.cls(std::string("rel:") + rel);
            }
            ++steps;
        }
        std::string retText, retWrong;

        switch (d.act) {
        case ADD: {
            bool r = realAdd(d.fam, cl.K, cl.a);
            retText = r ? "true" : "false";
            if (!an.mustRefuse) {
                detach(cl.a);
                attach(cl.K, cl.a, o(cl.K).kids[d.fam].size());
            }
            if (r == an.mustRefuse) {
                retWrong = an.mustRefuse ? "returned true for an insertion that would create a cycle" : "returned false for a legal insertion";
            }
            break;
        }
        case REMOVE:
        case TAKE:
        case REPLACE: {
            bool r = false;
            EntityPtr taken;
            if (d.act == REMOVE) {
                r = realRemove(d.fam, d.sel, cl);
            } else if (d.act == TAKE) {
                taken = realTake(d.fam, d.sel, cl);
                r = taken != nullptr;
            } else {
                r = realReplace(d.fam, d.sel, cl);
            }
            retText = r ? "true" : "false";
            // which addressed object did the library pick? (the one its parent no longer lists / the one returned)
            int X = -1, gone = 0;
            for (int x : an.victims) {
                if (d.act == REPLACE && x == cl.b) {
                    continue; // the replacement legitimately leaves its previous parent
                }
                if (!reallyListed(x)) {
                    ++gone;
                    if (X < 0) {
                        X = x;
                    }
                }
            }
            if (d.act == TAKE) {
                retText = "null";
                if (taken != nullptr) {
                    int ti = findRaw(taken.get());
                    retText = ti >= 0 ? o(ti).label : "unknown object";
                    if (ti >= 0 && std::find(an.victims.begin(), an.victims.end(), ti) != an.victims.end()) {
                        X = ti;
                    } else {
                        retWrong = "returned an object that is not an addressed child";
                    }
                }
            }
            bool selfReplace = d.act == REPLACE && std::find(an.victims.begin(), an.victims.end(), cl.b) != an.victims.end();
            if (X < 0 && r && d.act != TAKE && an.victims.size() == 1 && an.victims[0] != cl.b) {
                // success was reported and only one object is addressed: expect the full effect on it, so that the
                // comparison below shows what is wrong (e.g. the addressed object still listed at another position)
                X = an.victims[0];
            }
            bool mustRefuse = an.victims.empty();
            if (X >= 0 && d.act == REPLACE) {
                mustRefuse = d.fam == COMP && isAncestorOrSelf(cl.b, o(X).parent);
            }
            bool changed = X >= 0 && !mustRefuse;
            if (changed) {
                int P = o(X).parent;
                if (d.act == REPLACE) {
                    detach(cl.b); // first: a replacement that sits in the same container in front of X shifts X
                }
                const auto &pl = o(P).kids[d.fam];
                size_t pos = static_cast<size_t>(std::find(pl.begin(), pl.end(), X) - pl.begin());
                detach(X);
                if (d.act == REPLACE) {
                    attach(P, cl.b, pos);
                }
                if (d.act == TAKE && cl.keep) {
                    o(X).sp = taken;
                }
            }
            taken = nullptr;
            if (retWrong.empty() && gone > 1) {
                retWrong = "more than one addressed object left its container";
            }
            if (!changed && selfReplace) {
                // the first object found is the replacement itself: nothing may change, either return value is acceptable
            } else if (retWrong.empty() && r != changed) {
                retWrong = changed ? "reported failure although an object was affected" : "reported success although nothing may be affected";
            }
            if (retWrong.empty() && !changed && !selfReplace && !an.mustRefuse && !an.mayRefuse) {
                retWrong = "refused although the addressed object is a child";
            }
            break;
        }
        case CLEAR: {
            switch (d.fam) {
            case COMP: ce(cl.K)->removeAllComponents(); break;
            case VAR: get<Component>(cl.K)->removeAllVariables(); break;
            case RESET: get<Component>(cl.K)->removeAllResets(); break;
            default: get<Model>(cl.K)->removeAllUnits(); break;
            }
            std::vector<int> l = o(cl.K).kids[d.fam];
            for (int x : l) {
                detach(x);
            }
            break;
        }
        case SETVAR:
            get<Reset>(cl.K)->setVariable(get<Variable>(cl.a));
            o(cl.K).rvar = cl.a;
            break;
        case SETTEST:
            get<Reset>(cl.K)->setTestVariable(get<Variable>(cl.a));
            o(cl.K).rtest = cl.a;
            break;
        case EQADD:
        case EQADD4: {
            auto key = std::make_pair(std::min(cl.K, cl.a), std::max(cl.K, cl.a));
            bool expect = cl.K != cl.a && eq.count(key) == 0;
            bool r = d.act == EQADD ? Variable::addEquivalence(get<Variable>(cl.K), get<Variable>(cl.a)) : Variable::addEquivalence(get<Variable>(cl.K), get<Variable>(cl.a), "mid", "cid");
            retText = r ? "true" : "false";
            if (expect) {
                eq.insert(key);
                mids[key] = "";
            }
            if (d.act == EQADD4 && cl.K != cl.a) {
                mids[key] = "mid"; // the 4-argument form (re)sets the ids of an existing equivalence too
                idsLeftBehind.erase(key);
            }
            if (r != expect) {
                retWrong = expect ? "returned false for a new equivalence" : "returned true for an existing / reflexive equivalence";
            }
            break;
        }
        case EQREMOVE: {
            auto key = std::make_pair(std::min(cl.K, cl.a), std::max(cl.K, cl.a));
            bool expect = eq.count(key) != 0;
            bool r = Variable::removeEquivalence(get<Variable>(cl.K), get<Variable>(cl.a));
            retText = r ? "true" : "false";
            eq.erase(key);
            mids.erase(key);
            if (expect) {
                idsLeftBehind.erase(key);
            }
            if (r != expect) {
                retWrong = expect ? "returned false for an existing equivalence" : "returned true for a missing equivalence";
            }
            break;
        }
        case EQCLEAR: {
            get<Variable>(cl.K)->removeAllEquivalences();
            for (auto it = eq.begin(); it != eq.end();) {
                if (it->first == cl.K || it->second == cl.K) {
                    if (!mids[*it].empty()) {
                        idsLeftBehind.insert(*it);
                    }
                    mids.erase(*it);
                    it = eq.erase(it);
                } else {
                    ++it;
                }
            }
            break;
        }
        case DROP:
            o(cl.a).sp = nullptr;
            break;
        case HOLD:
            o(cl.a).sp = o(cl.a).wp.lock();
            break;
        case RECREATE: {
            int n = create(cl.kind, cl.tmpl);
            retText = o(n).label;
            break;
        }
        }
        settleLiveness();
        if (quiet) {
            return true;
        }
        log += text + (retText.empty() ? "" : " -> " + retText) + "\n";
        // structural differences first: a wrong return value usually comes with one that localises better
        std::string diff = compare();
        if (!diff.empty()) {
            size_t bar = diff.find('|');
            log += "   <== " + diff.substr(bar + 1) + "\n";
            c.fail("C09." + diff.substr(0, bar) + sigTail, diff.substr(bar + 1) + "\nhistory:\n" + log);
            return false;
        }
        if (!retWrong.empty()) {
            log += "   <== " + retWrong + "\n";
            c.fail("C09.ret" + sigTail, retWrong + "\nhistory:\n" + log);
            return false;
        }
        sawLookalikeOp = sawLookalikeOp || (an.lookalike && d.act != DROP);
        sawLinkedDrop = sawLinkedDrop || an.linkedDrop;
        return true;
    }
};

// ---------------------------------------------------------------- generators
bool gExhaustive = false;
bool gReplay = false;
long gBound = 3;

const char *intern(const std::string &s)
{
    static const char *all[] = {"c", "d", "x", "y", "u", "w", "m", "zz"};
    for (const char *a : all) {
        if (s == a) {
            return a;
        }
    }
    return "zz";
}

int opIndex(const char *name)
{
    for (size_t i = 0; i < OPS.size(); ++i) {
        if (std::string(OPS[i].name) == name) {
            return static_cast<int>(i);
        }
    }
    return -1;
}

Call mk(const char *op, int K, int a = -1, int b = -1)
{
    Call cl;
    cl.op = opIndex(op);
    cl.K = K;
    cl.a = a;
    cl.b = b;
    return cl;
}

// Hook for defects of the tree that would otherwise end most histories: in "avoid" histories (first tape value) calls
// of a listed shape are skipped and counted so that the search goes on beyond them; "allow" histories run them.
// The shapes that were listed here (equals()-based lookup, self insertion, replacement by an ancestor / by a parented
// object; see notes/C09.md F1-F3) are fixed in /repo, so nothing is skipped any more; the tape layout is unchanged.
// Two defects found by the independent exploration (notes/C09.md) would end most histories that touch them. Whether the
// tree under test still has them is established once per process (init below) by two three-call probes; while it has,
// "avoid" histories skip the shapes (counted) and the whole-model service probes run in a forked child.
bool kKnownCloneWithOutsideEquivalence = false; // Model::clone()/flattenModel() crash when an equivalence leaves the model (C09-fix-9)
bool kKnownIdsLeftBehind = false; // removeAllEquivalences() keeps the variable's own mapping/connection ids (C09-fix-14)
void cloneProbe(void *)
{
    auto m = Model::create("m");
    auto c1 = Component::create("c1");
    auto c2 = Component::create("c2");
    auto v1 = Variable::create("v1");
    auto v2 = Variable::create("v2");
    m->addComponent(c1);
    m->addComponent(c2);
    c1->addVariable(v1);
    c2->addVariable(v2);
    Variable::addEquivalence(v1, v2);
    c2->removeVariable(v2);
    (void)m->clone();
}
void init()
{
    std::string diag;
    kKnownCloneWithOutsideEquivalence = runIsolated(cloneProbe, nullptr, 30, &diag) != 0;
    auto a = Variable::create("a");
    auto b = Variable::create("b");
    Variable::addEquivalence(a, b, "mapping_id", "connection_id");
    a->removeAllEquivalences();
    Variable::addEquivalence(a, b);
    kKnownIdsLeftBehind = !Variable::equivalenceMappingId(a, b).empty();
}
std::string knownShape(const OpDef &d, const World::Analysis &an)
{
    if (kKnownIdsLeftBehind && d.act == EQADD && an.rel.find("after-removeAllEquivalences") != std::string::npos) {
        return "ids-left-by-removeAllEquivalences";
    }
    return "";
}

void run(Src &src, Case &c)
{
    World w(c);
    bool allowKnown = false;
    int family = -1; // ex: one entity family per history
    int preset = 0;
    if (gExhaustive) {
        allowKnown = true;
        family = static_cast<int>(src.below(4)); // 0 components, 1 variables (+equivalences), 2 units, 3 resets
        preset = static_cast<int>(src.below(family == 0 ? 3 : 2));
    } else {
        allowKnown = src.below(4) == 3;
        preset = static_cast<int>(src.below(5));
    }
    c.cls(allowKnown ? "mode:allow-known" : "mode:avoid-known");
    w.avoidKnown = !allowKnown;
    w.probeIsKnownShape = kKnownCloneWithOutsideEquivalence;

    // A preset is a fixed call list: it is executed with all checks the first time this process sees it and replayed
    // without them afterwards (same calls, same objects, same outcome).
    static std::map<int, std::string> presetText;
    const int presetKey = (gExhaustive ? 1000 : 0) + family * 10 + preset + 100;
    auto runPreset = [&](const std::vector<Call> &calls) {
        auto cached = presetText.find(presetKey);
        if (cached != presetText.end()) {
            w.quiet = true;
            for (const Call &cl : calls) {
                World::Analysis an;
                w.step(cl, an);
            }
            w.quiet = false;
            w.log = cached->second;
            return true;
        }
        for (const Call &cl : calls) {
            if (!w.step(cl)) {
                return false;
            }
        }
        w.log += "-- history\n";
        w.steps = 0;
        presetText[presetKey] = w.log;
        return true;
    };
    bool ok = true;
    std::vector<int> M, C, V, U, R;
    auto make = [&](int nm, int nc, int nv, int nu, int nr) {
        for (int i = 0; i < nm; ++i) M.push_back(w.create(MODEL, i));
        for (int i = 0; i < nc; ++i) C.push_back(w.create(COMP, i));
        for (int i = 0; i < nv; ++i) V.push_back(w.create(VAR, i));
        for (int i = 0; i < nu; ++i) U.push_back(w.create(UNITS, i));
        for (int i = 0; i < nr; ++i) R.push_back(w.create(RESET, i));
    };
    if (gExhaustive) {
        c.cls("family:" + std::to_string(family));
        switch (family) {
        case 0:
            make(1, 3, 0, 0, 0);
            if (preset == 1) ok = runPreset({mk("addComponent", M[0], C[0]), mk("addComponent", M[0], C[1])});
            if (preset == 2) ok = runPreset({mk("addComponent", M[0], C[0]), mk("addComponent", C[0], C[1])});
            break;
        case 1:
            make(1, 2, 3, 0, 0);
            if (preset == 1) ok = runPreset({mk("addComponent", M[0], C[0]), mk("addComponent", M[0], C[1]), mk("addVariable", C[0], V[0]), mk("addVariable", C[0], V[1]), mk("addVariable", C[1], V[2]), mk("Variable::addEquivalence#4", V[0], V[2])});
            break;
        case 2:
            make(2, 0, 0, 3, 0);
            if (preset == 1) ok = runPreset({mk("addUnits", M[0], U[0]), mk("addUnits", M[0], U[1]), mk("addUnits", M[1], U[2])});
            break;
        default:
            make(0, 2, 1, 0, 3);
            if (preset == 1) ok = runPreset({mk("addReset", C[0], R[0]), mk("addReset", C[0], R[1]), mk("addReset", C[1], R[2])});
            break;
        }
    } else {
        make(2, 5, 5, 3, 3);
        switch (preset) {
        case 1:
            ok = runPreset({mk("addComponent", M[0], C[0]), mk("addComponent", M[0], C[1]), mk("addComponent", M[0], C[2]), mk("addVariable", C[0], V[0]), mk("addVariable", C[0], V[1]), mk("addUnits", M[0], U[0]),
                            mk("addUnits", M[0], U[1]), mk("addReset", C[0], R[0]), mk("addReset", C[0], R[1])});
            break;
        case 2:
            ok = runPreset({mk("addComponent", M[0], C[0]), mk("addComponent", C[0], C[1]), mk("addComponent", C[1], C[2]), mk("addComponent", M[1], C[3]), mk("addComponent", M[1], C[4]), mk("addVariable", C[1], V[0]),
                            mk("addVariable", C[3], V[1]), mk("addVariable", C[4], V[2]), mk("Variable::addEquivalence", V[0], V[1]), mk("Variable::addEquivalence", V[1], V[2]), mk("Reset::setVariable", R[0], V[0]),
                            mk("addReset", C[1], R[0]), mk("addUnits", M[1], U[0])});
            break;
        case 3:
            ok = runPreset({mk("addComponent", M[0], C[0]), mk("addComponent", M[0], C[1]), mk("addComponent", C[0], C[2]), mk("addComponent", C[1], C[4]), mk("addVariable", C[0], V[0]), mk("addVariable", C[1], V[1]),
                            mk("addUnits", M[0], U[0]), mk("addUnits", M[1], U[1]), mk("addReset", C[2], R[0]), mk("addReset", C[4], R[1])});
            break;
        case 4:
            ok = runPreset({mk("addComponent", M[0], C[0]), mk("addComponent", M[1], C[1]), mk("addVariable", C[0], V[0]), mk("addVariable", C[0], V[1]), mk("addVariable", C[1], V[2]), mk("addVariable", C[1], V[4]),
                            mk("Variable::addEquivalence#4", V[0], V[2]), mk("Variable::addEquivalence", V[1], V[4]), mk("addReset", C[0], R[0]), mk("addReset", C[1], R[1]), mk("Reset::setVariable", R[1], V[2])});
            break;
        default: break;
        }
    }
    c.cls("preset:" + std::to_string(preset));

    const std::vector<const char *> names[NKINDS] = {{}, {"c", "d", "zz"}, {"x", "y", "zz"}, {"u", "w", "zz"}, {}};
    long maxSteps = gExhaustive ? gBound : 400;
    long totalWeight = 0;
    for (const auto &d : OPS) {
        totalWeight += d.weight;
    }

    for (long stepNo = 0; ok && stepNo < maxSteps; ++stepNo) {
        if ((!gExhaustive || gReplay) && src.exhausted()) {
            break; // (a replayed exhaustive tape may be shorter than the default bound)
        }
        Call cl;
        bool have = false;
        if (gExhaustive) {
            // every enabled call of the family in the current state (see notes/C09.md for the pruning rules)
            static const int dropOp = opIndex("drop");
            const Kind famKind = family == 0 ? COMP : family == 1 ? VAR : family == 2 ? UNITS : RESET;
            std::vector<Call> calls;
            calls.reserve(256);
            long excludedHere = 0;
            std::vector<int> aliveK[NKINDS];
            for (size_t i = 0; i < w.objs.size(); ++i) {
                if (w.objs[i].alive) {
                    aliveK[w.objs[i].kind].push_back(static_cast<int>(i));
                }
            }
            const std::vector<int> &fam = aliveK[famKind];
            std::vector<int> containers;
            for (int k = 0; k < NKINDS; ++k) {
                if ((famKind == COMP && (k == MODEL || k == COMP)) || ((famKind == VAR || famKind == RESET) && k == COMP) || (famKind == UNITS && k == MODEL)) {
                    containers.insert(containers.end(), aliveK[k].begin(), aliveK[k].end());
                }
            }
            std::sort(containers.begin(), containers.end());
            for (size_t oi = 0; oi < OPS.size(); ++oi) {
                const OpDef &d = OPS[oi];
                if (d.fam != famKind) {
                    continue;
                }
                Call base;
                base.op = static_cast<int>(oi);
                if (d.act == SETVAR || d.act == SETTEST) {
                    if (d.act == SETTEST) {
                        continue;
                    }
                    for (int r : aliveK[RESET]) {
                        for (int v : aliveK[VAR]) {
                            base.K = r;
                            base.a = v;
                            calls.push_back(base);
                        }
                    }
                    continue;
                }
                if (d.act == EQADD || d.act == EQADD4 || d.act == EQREMOVE) {
                    for (int v1 : aliveK[VAR]) {
                        for (int v2 : aliveK[VAR]) {
                            if (d.act == EQADD4 && v1 >= v2) {
                                continue; // the 4-argument form only for ordered distinct pairs
                            }
                            base.K = v1;
                            base.a = v2;
                            calls.push_back(base);
                        }
                    }
                    continue;
                }
                if (d.act == EQCLEAR) {
                    for (int v : aliveK[VAR]) {
                        base.K = v;
                        calls.push_back(base);
                    }
                    continue;
                }
                bool emptyDone = false; // one representative childless receiver per op
                for (int K : containers) {
                    const auto &kids = w.o(K).kids[d.fam];
                    base.K = K;
                    if (d.act == ADD) {
                        for (int a : fam) {
                            base.a = a;
                            if (w.o(a).parent == K) {
                                ++excludedHere;
                                continue;
                            }
                            calls.push_back(base);
                        }
                        continue;
                    }
                    if (kids.empty()) {
                        if (emptyDone) {
                            continue;
                        }
                        emptyDone = true;
                    }
                    if (d.act == CLEAR) {
                        if (!kids.empty()) {
                            calls.push_back(base);
                        }
                        continue;
                    }
                    bool nested = false;
                    if (d.fam == COMP) {
                        for (int x : kids) {
                            nested = nested || !w.o(x).kids[COMP].empty();
                        }
                    }
                    int nEnc = (d.fam == COMP && d.sel != IDX && nested) ? 2 : 1;
                    static const std::vector<int> none = {-1};
                    const std::vector<int> &news = d.act == REPLACE ? fam : none;
                    for (int e = 0; e < nEnc; ++e) {
                        base.enc = e == 1;
                        for (int nw : news) {
                            base.b = nw;
                            auto emit = [&]() {
                                // replacing an object by itself (addressed by index or pointer) is a trivial no-op: left to rc
                                if (d.act == REPLACE && ((d.sel == IDX && base.idx < kids.size() && kids[base.idx] == base.b) || (d.sel == PTR && base.a == base.b))) {
                                    return;
                                }
                                calls.push_back(base);
                            };
                            if (d.sel == IDX) {
                                for (size_t i = 0; i <= kids.size(); ++i) {
                                    base.idx = i;
                                    emit();
                                }
                            } else if (d.sel == NAME) {
                                base.name = names[d.fam][0];
                                emit();
                            } else {
                                for (int a : fam) {
                                    base.a = a;
                                    emit();
                                }
                            }
                        }
                    }
                }
            }
            // lifetime: drop any held object (re-holding is pointless in bounded histories)
            for (size_t i = 0; i < w.objs.size(); ++i) {
                if (w.objs[i].alive && w.objs[i].sp != nullptr) {
                    Call dcl;
                    dcl.op = dropOp;
                    dcl.a = static_cast<int>(i);
                    calls.push_back(dcl);
                }
            }
            if (excludedHere > 0) {
                c.count("excluded:already-held-by-that-container", excludedHere);
            }
            if (calls.empty()) {
                break;
            }
            cl = calls[src.below(calls.size())];
            have = true;
        } else {
            // rc: weighted op kind, then operands
            long r = static_cast<long>(src.below(static_cast<uint64_t>(totalWeight)));
            size_t oi = 0;
            while (r >= OPS[oi].weight) {
                r -= OPS[oi].weight;
                ++oi;
            }
            const OpDef &d = OPS[oi];
            cl.op = static_cast<int>(oi);
            auto pickFrom = [&](const std::vector<int> &v) { return v.empty() ? -1 : v[src.below(v.size())]; };
            switch (d.act) {
            case ADD:
            case REMOVE:
            case TAKE:
            case REPLACE:
            case CLEAR: {
                auto ks = w.containersFor(d.fam);
                if (d.act != ADD && src.flip(70)) {
                    // prefer receivers that have children of the family
                    std::vector<int> full;
                    for (int k : ks) {
                        if (!w.o(k).kids[d.fam].empty()) {
                            full.push_back(k);
                        }
                    }
                    if (!full.empty()) {
                        ks = full;
                    }
                }
                cl.K = pickFrom(ks);
                if (cl.K < 0) {
                    break;
                }
                have = true;
                std::vector<int> deep;
                w.scope(cl.K, d.fam, true, deep);
                if (d.act == ADD) {
                    cl.a = pickFrom(w.aliveOf(d.fam));
                    have = cl.a >= 0;
                }
                if (d.sel == PTR) {
                    // mostly an object the receiver (or its subtree) really holds, otherwise any object of the family
                    cl.a = (!deep.empty() && src.flip(60)) ? pickFrom(deep) : pickFrom(w.aliveOf(d.fam));
                    have = cl.a >= 0;
                }
                if (d.sel == IDX) {
                    size_t n = w.o(cl.K).kids[d.fam].size();
                    cl.idx = src.below(n + 1); // n = one past the end
                    if (cl.idx == n && src.flip(20)) {
                        cl.idx = static_cast<size_t>(-1);
                    }
                }
                if (d.sel == NAME) {
                    cl.name = (!deep.empty() && src.flip(70)) ? intern(w.o(pickFrom(deep)).name) : names[d.fam][src.below(3)];
                }
                if (d.fam == COMP && d.sel != IDX && d.act != ADD && d.act != CLEAR) {
                    cl.enc = src.flip(50);
                }
                if (d.act == REPLACE) {
                    cl.b = pickFrom(w.aliveOf(d.fam));
                    have = have && cl.b >= 0;
                }
                if (d.act == TAKE) {
                    cl.keep = src.flip(60);
                }
                break;
            }
            case SETVAR:
            case SETTEST:
                cl.K = pickFrom(w.aliveOf(RESET));
                cl.a = pickFrom(w.aliveOf(VAR));
                have = cl.K >= 0 && cl.a >= 0;
                break;
            case EQADD:
            case EQADD4:
            case EQREMOVE:
                cl.K = pickFrom(w.aliveOf(VAR));
                cl.a = pickFrom(w.aliveOf(VAR));
                have = cl.K >= 0 && cl.a >= 0;
                break;
            case EQCLEAR:
                cl.K = pickFrom(w.aliveOf(VAR));
                have = cl.K >= 0;
                break;
            case DROP: {
                std::vector<int> held;
                for (size_t i = 0; i < w.objs.size(); ++i) {
                    if (w.objs[i].alive && w.objs[i].sp != nullptr) {
                        held.push_back(static_cast<int>(i));
                    }
                }
                cl.a = pickFrom(held);
                have = cl.a >= 0;
                break;
            }
            case HOLD: {
                std::vector<int> loose;
                for (size_t i = 0; i < w.objs.size(); ++i) {
                    if (w.objs[i].alive && w.objs[i].sp == nullptr) {
                        loose.push_back(static_cast<int>(i));
                    }
                }
                cl.a = pickFrom(loose);
                have = cl.a >= 0;
                break;
            }
            case RECREATE: {
                cl.kind = static_cast<Kind>(src.below(NKINDS));
                cl.tmpl = static_cast<int>(src.below(5));
                have = w.objs.size() < 48;
                break;
            }
            }
            if (!have) {
                c.count("skipped:no-operand");
                continue;
            }
        }
        const OpDef &d = OPS[static_cast<size_t>(cl.op)];
        World::Analysis an = w.analyse(cl);
        if (an.excluded) {
            c.count("excluded:already-held-by-that-container");
            continue;
        }
        if (!allowKnown) {
            std::string k = knownShape(d, an);
            if (!k.empty()) {
                c.count("excluded:known:" + k);
                continue;
            }
        }
        ok = w.step(cl, an);
        if (ok) {
            ok = w.probes();
        }
    }

    c.text = (gExhaustive ? "exhaustive family " + std::to_string(family) : std::string(allowKnown ? "allow-known" : "avoid-known")) + " preset " + std::to_string(preset) + "\n" + w.log;
    c.hash = hashStr(c.text);
    c.weight = w.steps;
    c.nontrivial = w.sawLookalikeOp || w.sawLinkedDrop;
    if (w.sawLookalikeOp) {
        c.cls("lookalike-operand");
    }
    if (w.sawLinkedDrop) {
        c.cls("linked-drop");
    }
    c.count("steps", static_cast<long>(w.steps));
    c.cls(w.steps < 5 ? "len<5" : w.steps < 20 ? "len5-19" : w.steps < 50 ? "len20-49" : "len>=50");
}

void setMode(const std::string &mode, long bound)
{
    // A saved tape does not say which generator wrote it, and `--replay` does not either: the binary decides.
    // C09 decodes replays with the random-history generator, C09_ex (built with C09_EX_ONLY) with the exhaustive one.
    gReplay = mode == "replay";
#ifdef C09_EX_ONLY
    gExhaustive = true;
#else
    gExhaustive = mode == "ex";
#endif
    gBound = bound;
}

} // namespace

namespace vp {
Property property = {
    "C09",
    "exploration",
    "Histories of object-model calls (add/remove/take/replace by index, name and pointer, removeAll, moves between parents, self/ancestor insertion, equivalences, dropping and re-acquiring references) "
    "over 2 models, 5 components, 5 variables, 3 units, 3 resets with structurally identical members; after every call all lists, parent links, equivalence sets and liveness are compared with an "
    "identity-based containment model (I1-I5), under ASan/UBSan (I6). rc: random histories up to ~100 calls; ex: every history of <bound> calls over a one-family reduced universe. "
    "Non-trivial: the history executes a remove/take/replace/move whose operand has an equals()-identical sibling, or drops an entity that is still linked (parent, child, equivalence, reset). Distinct = hash of the call list.",
    run,
    setMode,
    {"adding an entity to the container that already holds it (and replacing by an entity the searched container already lists) is outside the claim: never generated, counted",
     "by-name operations may affect any object of that name within the searched scope; lookup order is not part of the claim", "null arguments are the subject of the C09_args table, histories never pass null"},
    init,
};
}

// C20 — external variables turn unknowns into inputs without disturbing the rest.
//
// A ground-truth model (kit/gt) or an under-constrained variant of it (definitions of a known set U of classes removed)
// is analysed with a set of variables marked external (plain primaries, non-primary members, two members of one class,
// the VOI, variables of another model), each with 0-3 declared dependencies. The analyser model is compared with the
// analysis of the complete model without externals, the messages with the markings, and the generated C and Python code
// is run with a recording callback that returns harness-chosen values; the arrays are compared with a re-evaluation of
// the ground truth in which the marked classes are bound to those values (kit/c20_ref).
#include <libcellml>

#include <libxml/parser.h>

#include <algorithm>
#include <cmath>
#include <functional>
#include <iostream>
#include <map>
#include <set>
#include <sstream>

#include "c20_ref.h"
#include "gt.h"
#include "gtrun.h"
#include "prop.h"
#include "runner.h"
#include "spec.h"

using namespace vp;
using namespace libcellml;

namespace {

CodeRunner *gRunner = nullptr;
const double kTol = 1e-7;

enum Special
{
    PLAIN, // the primary variable of the class
    NON_PRIMARY, // another member of the class
    DUPLICATE, // two members of the class, each through its own AnalyserExternalVariable
    VOI, // a member of the class of the variable of integration
    FOREIGN, // the same variable of a second, identical model
    LEFT, // (not a marking) a declared dependency that has left the model by the time it is analysed
};
const char *specialName(Special s)
{
    switch (s) {
    case PLAIN: return "primary";
    case NON_PRIMARY: return "non-primary";
    case DUPLICATE: return "duplicate";
    case VOI: return "voi";
    case FOREIGN: return "foreign";
    case LEFT: return "dependency-that-left-the-model";
    }
    return "?";
}

struct Marking
{
    Special special = PLAIN;
    int cls = -1;
    std::vector<int> insts; // members handed to AnalyserExternalVariable::create (two for DUPLICATE)
    std::vector<std::pair<int, int>> deps; // declared dependencies (class, instance), as accepted by addDependency
    bool underconstrained = false; // the class is one of U
    std::vector<std::pair<int, int>> forced; // dependencies to declare first (aimed markings)
    std::vector<std::pair<int, int>> onSecondObject; // dependencies declared on the second object of a DUPLICATE marking
};

const char *ruleName(Issue::ReferenceRule r)
{
    switch (r) {
    case Issue::ReferenceRule::ANALYSER_EXTERNAL_VARIABLE_DIFFERENT_MODEL: return "DIFFERENT_MODEL";
    case Issue::ReferenceRule::ANALYSER_EXTERNAL_VARIABLE_VOI: return "VOI";
    case Issue::ReferenceRule::ANALYSER_EXTERNAL_VARIABLE_USE_PRIMARY_VARIABLE: return "USE_PRIMARY_VARIABLE";
    default: return "OTHER";
    }
}

// What the analyser says about one class.
struct ClassView
{
    bool present = false;
    bool isState = false;
    int inst = -1;
    size_t index = 0;
    AnalyserVariable::Type type = AnalyserVariable::Type::CONSTANT;
    std::vector<std::string> eqTypes; // sorted
    AnalyserVariablePtr av;
    int copies = 0;
};

std::vector<ClassView> viewOf(const GtModel &gt, const GtMapping &map)
{
    std::vector<ClassView> v(gt.classes.size());
    auto put = [&](const std::pair<int, int> &ci, const AnalyserVariablePtr &av, bool isState, size_t index) {
        ClassView &cv = v[static_cast<size_t>(ci.first)];
        ++cv.copies;
        cv.present = true;
        cv.isState = isState;
        cv.inst = ci.second;
        cv.index = index;
        cv.type = av->type();
        cv.av = av;
        cv.eqTypes.clear();
        for (size_t i = 0; i < av->equationCount(); ++i) {
            auto e = av->equation(i);
            cv.eqTypes.push_back(e == nullptr ? "null" : AnalyserEquation::typeAsString(e->type()));
        }
        std::sort(cv.eqTypes.begin(), cv.eqTypes.end());
    };
    for (size_t i = 0; i < map.states.size(); ++i) {
        put(map.states[i], map.am->state(i), true, i);
    }
    for (size_t i = 0; i < map.vars.size(); ++i) {
        put(map.vars[i], map.am->variable(i), false, i);
    }
    return v;
}

std::string join(const std::vector<std::string> &v, const char *sep)
{
    std::string s;
    for (size_t i = 0; i < v.size(); ++i) {
        s += (i != 0 ? sep : "") + v[i];
    }
    return s;
}

std::string instLabel(const GtModel &gt, int cls, int inst)
{
    const auto &in = gt.classes[static_cast<size_t>(cls)].inst[static_cast<size_t>(inst)];
    const auto &cs = gt.spec.comps[static_cast<size_t>(in.comp)];
    return cs.name + "." + cs.vars[static_cast<size_t>(in.var)].name;
}

struct Call
{
    int point = 0, stage = 0;
    size_t index = 0;
    double voi = 0;
    std::vector<double> states, vars;
};

bool parseCall(const std::string &line, Call &k)
{
    // "<point> <index> <stage> <voi> | <states> | <variables>"
    size_t b1 = line.find('|'), b2 = b1 == std::string::npos ? b1 : line.find('|', b1 + 1);
    if (b2 == std::string::npos) {
        return false;
    }
    auto doubles = [](const std::string &s) {
        std::vector<double> v;
        std::istringstream is(s);
        std::string t;
        while (is >> t) {
            if (t == "nan" || t == "-nan") {
                v.push_back(std::nan(""));
            } else if (t == "inf") {
                v.push_back(INFINITY);
            } else if (t == "-inf") {
                v.push_back(-INFINITY);
            } else {
                v.push_back(strtod(t.c_str(), nullptr));
            }
        }
        return v;
    };
    auto head = doubles(line.substr(0, b1));
    if (head.size() != 4) {
        return false;
    }
    k.point = static_cast<int>(head[0]);
    k.index = static_cast<size_t>(head[1]);
    k.stage = static_cast<int>(head[2]);
    k.voi = head[3];
    k.states = doubles(line.substr(b1 + 1, b2 - b1 - 1));
    k.vars = doubles(line.substr(b2 + 1));
    return true;
}

const char *stageName(int s)
{
    return s == 0 ? "initialiseVariables" : (s == 1 ? "computeRates" : "computeVariables");
}

bool sameValue(double a, double b)
{
    return (std::isnan(a) && std::isnan(b)) || a == b;
}

void run(Src &src, Case &c)
{
    xmlKeepBlanksDefault(1);
    if (gRunner == nullptr) {
        gRunner = new CodeRunner();
    }
    // ---- plan (drawn first, so that short tapes still mark something)
    const size_t nMark = 1 + src.below(4);
    unsigned kindSel[4], specialSel[4], clsSel[4], instSel[4], nDeps[4], depCls[4][3], depInst[4][3], valSel[4];
    for (size_t i = 0; i < 4; ++i) {
        kindSel[i] = static_cast<unsigned>(src.below(8));
        specialSel[i] = static_cast<unsigned>(src.below(14));
        clsSel[i] = static_cast<unsigned>(src.below(1u << 16));
        instSel[i] = static_cast<unsigned>(src.below(1u << 16));
        nDeps[i] = static_cast<unsigned>(src.below(4));
        for (size_t k = 0; k < 3; ++k) {
            depCls[i][k] = static_cast<unsigned>(src.below(1u << 16));
            depInst[i][k] = static_cast<unsigned>(src.below(1u << 16));
        }
        valSel[i] = static_cast<unsigned>(src.below(6));
    }
    const size_t nUnder = src.flip(35) ? 1 + src.below(2) : 0;
    unsigned underSel[2];
    bool underMarked[2];
    for (size_t i = 0; i < 2; ++i) {
        underSel[i] = static_cast<unsigned>(src.below(1u << 16));
        underMarked[i] = !src.flip(12);
    }

    GtOptions opt;
    GtModel gt = genGroundTruthModel(src, opt);
    // Two later additions to the plan. They are decided from selectors that were already drawn at the start of the tape
    // (16-bit values of the fourth marking, of which the marking code only uses the residue modulo a handful of
    // candidates), not from new reads: the tape layout is unchanged, so recorded tapes still decode to the same model and
    // the same random markings, and short tapes - rapidcheck's vectors are often shorter than the model generator's
    // appetite, reads past the end give 0 - still reach both choices.
    const bool wantStaleOrder = (instSel[3] / 16) % 100 < 60; // run the code under the stale-order protocol (ODE / DAE models)
    // One appended shape per case at most (kit/c20_ref.h), chosen by the same kind of derived selector:
    //   rate chain 36 % (aimStale), initial-value chain 12 %, NLA parameter 10 %, rate read 8 %, none 34 %.
    const unsigned shapeSel = (clsSel[3] / 16) % 100;
    const bool aimStale = shapeSel < 36; // aim one marking at "state based only through an external variable"
    const bool leavingDependency = (depInst[3][0] / 16) % 100 >= 88; // history: a declared dependency leaves the model before the analysis
    const unsigned aimSel = depCls[3][2] / 16, aimDepSel = depInst[3][2] / 16, aimDepKind = (depCls[3][1] / 16) % 3;
    // The generated models rarely contain an equation-computed variable that a rate needs and that reads no state, so an
    // aimed case appends one (constant zE, zA computed from it, state zS with dzS/dt = zA) before anything is analysed.
    const int injected = aimStale ? c20InjectRateChain(gt, (depInst[3][1] / 16) % 4) : -1;
    int shapeTarget = -1, shapeOther = -1;
    const char *shape = "";
    if (shapeSel >= 36 && shapeSel < 48) {
        shapeTarget = c20InjectInitialValueChain(gt, (depInst[3][1] / 16) % 4);
        shape = "initial-value-chain";
    } else if (shapeSel >= 48 && shapeSel < 58) {
        shapeTarget = c20InjectNlaParameter(gt, (depInst[3][1] / 16) % 4, &shapeOther);
        shape = "nla-parameter";
    } else if (shapeSel >= 58 && shapeSel < 66) {
        shapeTarget = c20InjectRateRead(gt, (depInst[3][1] / 16) % 4, &shapeOther);
        shape = "rate-read";
    }
    for (const auto &k : gt.counters) {
        c.count("gen:" + k.first, k.second);
    }
    const size_t n = gt.classes.size();
    auto failNow = [&](const std::string &sig, const std::string &msg) { c.fail(sig, msg); };
    // A failure that is a listed finding does not end the case: the remaining oracles still run.
    std::string sigNote; // input-class token appended to every signature once set (localises a listed finding)
    auto report = [&](const std::string &sig0, const std::string &msg) -> bool {
        const std::string sig = sig0 + sigNote;
        c.alsoFailed.emplace_back(sig, msg);
        return knownFindingIndex("C20", sig) >= 0;
    };

    // ---- baseline: the complete model without externals
    Built b0 = buildApi(gt.spec);
    auto analyser0 = Analyser::create();
    analyser0->analyseModel(b0.model);
    auto am0 = analyser0->model();
    c.text = specToText(gt.spec) + "\n" + gt.describe();
    if (am0 == nullptr || !am0->isValid()) {
        // whether the valid-by-construction model is classified as such is C05's claim
        c.count("baseline-not-valid");
        c.hash = hashStr(c.text);
        return;
    }
    GtMapping map0;
    if (!mapAnalyserModel(am0, gt, map0)) {
        failNow("C20.mapping|baseline", map0.problem);
        return;
    }
    std::vector<ClassView> view0 = viewOf(gt, map0);
    std::vector<int> primary(n, 0);
    for (size_t k = 0; k < n; ++k) {
        primary[k] = view0[k].present ? view0[k].inst : 0;
    }
    if (map0.hasVoi) {
        primary[static_cast<size_t>(map0.voiCls)] = map0.voiInst;
    }
    // The member of each class the analyser tracks before it has assigned equations: the initialised member if there is
    // one, else the member of the first component (model order, depth first) that holds one. Used to localise findings.
    std::vector<int> firstMet(n, 0);
    {
        std::vector<std::string> order;
        std::function<void(const ComponentPtr &)> walk = [&](const ComponentPtr &comp) {
            order.push_back(comp->name());
            for (size_t i = 0; i < comp->componentCount(); ++i) {
                walk(comp->component(i));
            }
        };
        for (size_t i = 0; i < b0.model->componentCount(); ++i) {
            walk(b0.model->component(i));
        }
        for (size_t k = 0; k < n; ++k) {
            size_t best = order.size();
            for (size_t j = 0; j < gt.classes[k].inst.size(); ++j) {
                const auto &in = gt.classes[k].inst[j];
                const auto &cs = gt.spec.comps[static_cast<size_t>(in.comp)];
                if (!cs.vars[static_cast<size_t>(in.var)].initial.empty()) {
                    firstMet[k] = static_cast<int>(j);
                    break;
                }
                size_t pos = static_cast<size_t>(std::find(order.begin(), order.end(), cs.name) - order.begin());
                if (pos < best) {
                    best = pos;
                    firstMet[k] = static_cast<int>(j);
                }
            }
        }
    }
    auto memberNote = [&](int cls) { return std::string(firstMet[static_cast<size_t>(cls)] == primary[static_cast<size_t>(cls)] ? "|first-met-member-is-the-primary" : "|first-met-member-is-another"); };
    const auto dep = c20Dependence(gt);
    std::vector<bool> readByOthers(n, false);
    for (size_t a = 0; a < n; ++a) {
        for (size_t d = 0; d < n; ++d) {
            if (a != d && dep[a][d]) {
                readByOthers[d] = true;
            }
        }
    }

    // ---- U: classes whose definition is removed
    std::vector<int> U;
    {
        std::vector<int> cand;
        for (size_t k = 0; k < n; ++k) {
            std::string why;
            if (c20CanUnderconstrain(gt, static_cast<int>(k), &why)) {
                cand.push_back(static_cast<int>(k));
            } else if (nUnder > 0 && why != "voi") {
                c.count("excluded:underconstrain:" + why);
            }
        }
        for (size_t i = 0; i < nUnder && !cand.empty(); ++i) {
            int k = cand[underSel[i] % cand.size()];
            if (std::find(U.begin(), U.end(), k) == U.end()) {
                U.push_back(k);
            }
        }
    }

    // ---- S: markings
    std::vector<Marking> marks;
    std::vector<bool> marked(n, false);
    auto addMarking = [&](Marking m) {
        if (m.special != VOI && m.special != FOREIGN) {
            if (marked[static_cast<size_t>(m.cls)]) {
                return;
            }
            marked[static_cast<size_t>(m.cls)] = true;
        }
        marks.push_back(m);
    };
    for (size_t i = 0; i < U.size(); ++i) {
        if (underMarked[i]) {
            Marking m;
            m.cls = U[i];
            m.underconstrained = true;
            const auto &cl = gt.classes[static_cast<size_t>(U[i])];
            m.insts.push_back(static_cast<int>(instSel[i] % cl.inst.size())); // which member becomes the primary of an unknown is the analyser's choice
            addMarking(m);
        }
    }
    // Aimed marking: a class E that an equation-computed class A reads, A being read (transitively) by the rate of a
    // state and not depending on any state itself; E is declared to depend on a state, or on a variable computed from
    // states. A is then state based only through the declaration - what the generator must know to recompute A in
    // computeVariables.
    if (aimStale && gt.voi >= 0) {
        std::vector<int> states, stateBasedVars;
        for (size_t k = 0; k < n; ++k) {
            if (gt.classes[k].role == GtRole::STATE) {
                states.push_back(static_cast<int>(k));
            }
        }
        auto readsAState = [&](size_t a) {
            for (int s : states) {
                if (dep[a][static_cast<size_t>(s)]) {
                    return true;
                }
            }
            return false;
        };
        for (size_t k = 0; k < n; ++k) {
            if (gt.classes[k].role == GtRole::ALGEBRAIC && readsAState(k)) {
                stateBasedVars.push_back(static_cast<int>(k));
            }
        }
        std::vector<int> cand;
        for (size_t e = 0; e < n; ++e) {
            const GtRole er = gt.classes[e].role;
            if (er == GtRole::VOI || er == GtRole::STATE || marked[e] || std::find(U.begin(), U.end(), static_cast<int>(e)) != U.end()) {
                continue;
            }
            bool ok = false;
            for (size_t a = 0; a < n && !ok; ++a) {
                const GtRole ar = gt.classes[a].role;
                if (a == e || !dep[a][e] || marked[a] || (ar != GtRole::COMPUTED_CONSTANT && ar != GtRole::ALGEBRAIC) || readsAState(a)) {
                    continue;
                }
                for (int s : states) {
                    ok = ok || dep[static_cast<size_t>(s)][a];
                }
            }
            if (ok) {
                cand.push_back(static_cast<int>(e));
            }
        }
        if (injected >= 0 && std::find(cand.begin(), cand.end(), injected) != cand.end() && aimSel % 4 != 3) {
            cand.assign(1, injected); // mostly the appended chain, sometimes whatever the model offers
        }
        if (!cand.empty() && !states.empty()) {
            Marking m;
            m.cls = cand[aimSel % cand.size()];
            m.insts.push_back(primary[static_cast<size_t>(m.cls)]);
            int d = (aimDepKind == 2 && !stateBasedVars.empty()) ? stateBasedVars[aimDepSel % stateBasedVars.size()] : states[aimDepSel % states.size()];
            if (d != m.cls && aimDepKind != 1) { // a third of the aimed markings declare nothing about states
                m.forced.emplace_back(d, static_cast<int>((aimDepSel / 7) % gt.classes[static_cast<size_t>(d)].inst.size()));
            }
            addMarking(m);
            c.cls("aimed-marking");
        }
    }
    if (shapeTarget >= 0 && !marked[static_cast<size_t>(shapeTarget)] && std::find(U.begin(), U.end(), shapeTarget) == U.end() && aimSel % 8 != 7) {
        Marking m;
        m.cls = shapeTarget;
        m.insts.push_back(primary[static_cast<size_t>(m.cls)]);
        addMarking(m);
        c.cls(std::string("shape-marked:") + shape);
    }
    for (size_t i = 0; i < nMark && marks.size() < 4; ++i) {
        Marking m;
        unsigned sp = specialSel[i];
        if (sp == 10 && gt.voi >= 0) {
            m.special = VOI;
            m.cls = gt.voi;
            m.insts.push_back(static_cast<int>(instSel[i] % gt.classes[static_cast<size_t>(gt.voi)].inst.size()));
            addMarking(m);
            continue;
        }
        std::vector<int> cand, any;
        static const GtRole wanted[] = {GtRole::CONSTANT, GtRole::COMPUTED_CONSTANT, GtRole::ALGEBRAIC, GtRole::STATE, GtRole::NLA};
        for (size_t k = 0; k < n; ++k) {
            const auto &cl = gt.classes[k];
            if (cl.role == GtRole::VOI || marked[k] || std::find(U.begin(), U.end(), static_cast<int>(k)) != U.end()) {
                continue;
            }
            any.push_back(static_cast<int>(k));
            bool initialisesState = false;
            for (const auto &o : gt.classes) {
                initialisesState = initialisesState || o.initialisedBy == static_cast<int>(k);
            }
            if (kindSel[i] < 5 ? cl.role == wanted[kindSel[i]] : (kindSel[i] == 5 ? readByOthers[k] : (kindSel[i] == 6 ? initialisesState : true))) {
                cand.push_back(static_cast<int>(k));
            }
        }
        if (cand.empty()) {
            cand = any;
        }
        if (cand.empty()) {
            continue;
        }
        m.cls = cand[clsSel[i] % cand.size()];
        const auto &cl = gt.classes[static_cast<size_t>(m.cls)];
        const int prim = primary[static_cast<size_t>(m.cls)];
        std::vector<int> others;
        for (size_t k = 0; k < cl.inst.size(); ++k) {
            if (static_cast<int>(k) != prim) {
                others.push_back(static_cast<int>(k));
            }
        }
        if (sp == 11) {
            m.special = FOREIGN;
            m.insts.push_back(static_cast<int>(instSel[i] % cl.inst.size()));
        } else if ((sp == 7 || sp == 12) && !others.empty()) {
            m.special = NON_PRIMARY;
            m.insts.push_back(others[instSel[i] % others.size()]);
        } else if ((sp == 8 || sp == 9 || sp == 13) && !others.empty()) {
            m.special = DUPLICATE;
            if (sp == 9 && others.size() >= 2) {
                // two members, neither of them the primary
                size_t a = instSel[i] % others.size();
                m.insts.push_back(others[a]);
                m.insts.push_back(others[(a + 1) % others.size()]);
            } else if (sp == 13) {
                m.insts.push_back(others[instSel[i] % others.size()]);
                m.insts.push_back(prim);
            } else {
                m.insts.push_back(prim);
                m.insts.push_back(others[instSel[i] % others.size()]);
            }
        } else {
            m.insts.push_back(prim);
        }
        addMarking(m);
    }
    // declared dependencies: never a cycle through the model's own equations and the declarations made so far
    {
        std::vector<std::vector<bool>> g(n, std::vector<bool>(n, false));
        for (size_t a = 0; a < n; ++a) {
            if (marked[a]) {
                continue; // the defining equation of a marked class is replaced by the callback
            }
            const auto &cl = gt.classes[a];
            // The value of a state does not depend on what its rate reads (an external variable that feeds the rate of a
            // state may well be declared to depend on that state): only its initialising constant counts.
            for (int d : cl.deps) {
                if (static_cast<size_t>(d) != a && cl.role != GtRole::STATE) {
                    g[a][static_cast<size_t>(d)] = true;
                }
            }
            if (cl.initialisedBy >= 0) {
                g[a][static_cast<size_t>(cl.initialisedBy)] = true;
            }
            if (cl.nlaSystem >= 0) {
                for (int u : gt.nla[static_cast<size_t>(cl.nlaSystem)].unknowns) {
                    if (static_cast<size_t>(u) != a) {
                        g[a][static_cast<size_t>(u)] = true;
                    }
                }
            }
        }
        auto reaches = [&](size_t from, size_t to) {
            std::vector<bool> seen(n, false);
            std::vector<size_t> stack = {from};
            while (!stack.empty()) {
                size_t x = stack.back();
                stack.pop_back();
                if (x == to) {
                    return true;
                }
                if (seen[x]) {
                    continue;
                }
                seen[x] = true;
                for (size_t y = 0; y < n; ++y) {
                    if (g[x][y] && !seen[y]) {
                        stack.push_back(y);
                    }
                }
            }
            return false;
        };
        for (size_t i = 0; i < marks.size(); ++i) {
            Marking &m = marks[i];
            if (m.special == FOREIGN) {
                continue;
            }
            for (unsigned k = 0; k < m.forced.size() + nDeps[i] && n > 1; ++k) {
                const bool isForced = k < m.forced.size();
                const unsigned kk = isForced ? 0 : k - static_cast<unsigned>(m.forced.size());
                size_t d = isForced ? static_cast<size_t>(m.forced[k].first) : depCls[i][kk] % n;
                if (static_cast<int>(d) == m.cls) {
                    d = (d + 1) % n;
                }
                if (m.special != VOI && reaches(d, static_cast<size_t>(m.cls))) {
                    c.count("excluded:cyclic-declared-dependency");
                    continue;
                }
                int di = isForced ? m.forced[k].second : static_cast<int>(depInst[i][kk] % gt.classes[d].inst.size());
                if (std::find(m.deps.begin(), m.deps.end(), std::make_pair(static_cast<int>(d), di)) != m.deps.end()) {
                    continue;
                }
                m.deps.emplace_back(static_cast<int>(d), di);
                if (m.special != VOI) {
                    g[static_cast<size_t>(m.cls)][d] = true;
                }
            }
        }
    }

    // ---- the document that is analysed with externals
    GtModel gtV = gt;
    bool underOk = U.empty() || c20Underconstrain(gtV, U);
    Built bV = U.empty() ? b0 : buildApi(gtV.spec);
    Built bF; // the "other model"
    bool needForeign = false;
    for (const auto &m : marks) {
        needForeign = needForeign || m.special == FOREIGN;
    }
    if (needForeign) {
        bF = buildApi(gt.spec);
    }
    auto varOf = [&](const Built &b, int cls, int inst) {
        const auto &in = gt.classes[static_cast<size_t>(cls)].inst[static_cast<size_t>(inst)];
        return b.vars[static_cast<size_t>(in.comp)][static_cast<size_t>(in.var)];
    };

    if (!U.empty()) {
        // The removed definitions must leave the classes of U unknown. The analyser reads some documents differently
        // (an equation of an NLA system with initial guesses that mentions the class is taken for its definition):
        // those variants are not under-constrained models in its eyes and the statement does not speak about them.
        auto analyserV = Analyser::create();
        analyserV->analyseModel(bV.model);
        if (analyserV->model() != nullptr && analyserV->model()->isValid()) {
            c.count("excluded:variant-without-definitions-still-valid");
            c.hash = hashStr(c.text + "|variant-valid");
            return;
        }
        c.cls(std::string("variant-without-externals:") + (analyserV->model() != nullptr ? AnalyserModel::typeAsString(analyserV->model()->type()) : "null"));
        // ... and each class of U on its own: with two removed definitions the variant may be invalid because of one of them
        // while the analyser reads an NLA equation as the definition of the other.
        if (U.size() > 1) {
            for (int u : U) {
                GtModel one = gt;
                if (!c20Underconstrain(one, {u})) {
                    continue;
                }
                Built bOne = buildApi(one.spec);
                auto analyserOne = Analyser::create();
                analyserOne->analyseModel(bOne.model);
                if (analyserOne->model() != nullptr && analyserOne->model()->isValid()) {
                    c.count("excluded:variant-without-definitions-still-valid");
                    c.hash = hashStr(c.text + "|variant-valid");
                    return;
                }
            }
        }
    }
    auto analyser = Analyser::create();
    std::ostringstream desc;
    desc << "\n--- C20\n";
    for (int u : U) {
        desc << "definition removed: class " << u << " (" << gtRoleName(gt.classes[static_cast<size_t>(u)].role) << ") " << instLabel(gt, u, 0) << (marked[static_cast<size_t>(u)] ? "" : "  [NOT marked external]") << "\n";
    }
    struct Expect
    {
        Issue::ReferenceRule rule;
        int cls;
        VariablePtr foreign;
        bool optional;
        Special special;
        bool matched = false;
    };
    std::vector<Expect> expects;
    std::vector<VariablePtr> foreignVars;
    VariablePtr leftVariable; // the dependency that leaves the model (history)
    Built bLeft;
    std::string leftHow;
    for (auto &m : marks) {
        desc << "external (" << specialName(m.special) << (m.underconstrained ? ", unknown" : "") << "): class " << m.cls << " (" << gtRoleName(gt.classes[static_cast<size_t>(m.cls)].role) << ")";
        std::vector<std::pair<int, int>> accepted;
        size_t object = 0;
        for (int inst : m.insts) {
            VariablePtr v = varOf(m.special == FOREIGN ? bF : bV, m.cls, inst);
            auto ev = AnalyserExternalVariable::create(v);
            desc << " " << instLabel(gt, m.cls, inst);
            // Two objects for one class: the declarations alternate between them (the first one goes to the first object);
            // the class has to honour all of them.
            for (size_t di = 0; di < m.deps.size(); ++di) {
                if (di % m.insts.size() != object) {
                    continue;
                }
                const auto &d = m.deps[di];
                if (ev->addDependency(varOf(bV, d.first, d.second))) {
                    accepted.push_back(d);
                    if (object > 0) {
                        m.onSecondObject.push_back(d);
                        c.cls("dependency-declared-on-second-object-of-class");
                    }
                } else {
                    report("C20.addDependency|refused", "addDependency(" + instLabel(gt, d.first, d.second) + ") on external variable " + instLabel(gt, m.cls, inst) + " returned false for a variable of the same model that is not equivalent to it");
                }
            }
            // 3. history: a variable that is a legitimate dependency when declared and has left the model when it is analysed
            if (leavingDependency && object == 0 && m.special != FOREIGN && !leftVariable) {
                const auto &in0 = gt.classes[static_cast<size_t>(m.cls)].inst[static_cast<size_t>(inst)];
                auto comp = bV.comps[static_cast<size_t>(in0.comp)];
                leftVariable = Variable::create("zLeaving");
                leftVariable->setUnits("dimensionless");
                if ((depInst[3][0] / 1600) % 3 != 2) {
                    leftVariable->setInitialValue("1");
                }
                comp->addVariable(leftVariable);
                bool added = ev->addDependency(leftVariable);
                comp->removeVariable(leftVariable);
                if ((depInst[3][0] / 1600) % 3 == 0) {
                    bLeft = buildApi(gt.spec);
                    bLeft.comps[0]->addVariable(leftVariable);
                    leftHow = "moved-to-another-model";
                } else {
                    leftHow = leftVariable->initialValue().empty() ? "removed-uninitialised" : "removed-initialised";
                }
                desc << " [+ dependency zLeaving, " << leftHow << " before the analysis" << (added ? "" : ", refused") << "]";
                if (!added) {
                    leftVariable = nullptr;
                }
            }
            ++object;
            if (!analyser->addExternalVariable(ev)) {
                report("C20.addExternalVariable|refused", "addExternalVariable returned false for a new external variable object");
            }
            if (m.special == FOREIGN) {
                foreignVars.push_back(v);
                expects.push_back({Issue::ReferenceRule::ANALYSER_EXTERNAL_VARIABLE_DIFFERENT_MODEL, m.cls, v, false, FOREIGN});
            }
        }
        m.deps = accepted;
        if (leftVariable != nullptr && std::find(foreignVars.begin(), foreignVars.end(), leftVariable) == foreignVars.end()) {
            foreignVars.push_back(leftVariable);
            expects.push_back({Issue::ReferenceRule::ANALYSER_EXTERNAL_VARIABLE_DIFFERENT_MODEL, m.cls, leftVariable, false, LEFT});
        }
        if (!m.deps.empty()) {
            desc << "  depends on:";
            for (const auto &d : m.deps) {
                desc << " " << instLabel(gt, d.first, d.second);
            }
        }
        desc << "\n";
        const int prim = primary[static_cast<size_t>(m.cls)];
        switch (m.special) {
        case VOI:
            expects.push_back({Issue::ReferenceRule::ANALYSER_EXTERNAL_VARIABLE_VOI, m.cls, nullptr, false, VOI});
            break;
        case NON_PRIMARY:
        case DUPLICATE:
            expects.push_back({Issue::ReferenceRule::ANALYSER_EXTERNAL_VARIABLE_USE_PRIMARY_VARIABLE, m.cls, nullptr, m.underconstrained, m.special});
            break;
        case PLAIN:
            if (m.underconstrained) {
                // which member of a class without definition is its primary variable is the analyser's choice
                expects.push_back({Issue::ReferenceRule::ANALYSER_EXTERNAL_VARIABLE_USE_PRIMARY_VARIABLE, m.cls, nullptr, true, PLAIN});
            }
            (void)prim;
            break;
        case FOREIGN:
        case LEFT:
            break;
        }
    }
    // the VOI class marked through several objects yields one message
    {
        bool seenVoi = false;
        for (auto it = expects.begin(); it != expects.end();) {
            if (it->special == VOI) {
                if (seenVoi) {
                    it = expects.erase(it);
                    continue;
                }
                seenVoi = true;
            }
            ++it;
        }
    }
    c.text += desc.str();
    if (!U.empty()) {
        c.text += "--- the document analysed with externals (definitions removed)\n" + specToText(gtV.spec) + "\n";
    }
    c.hash = hashStr(c.text);
    c.weight = c.text.size();
    VP_CHECK(c, underOk, "C20.harness|underconstrain", "could not locate the defining equation of a class in the spec");

    // ---- class labels
    std::vector<int> M;
    for (size_t k = 0; k < n; ++k) {
        if (marked[k]) {
            M.push_back(static_cast<int>(k));
        }
    }
    bool uSubset = true;
    for (int u : U) {
        uSubset = uSubset && marked[static_cast<size_t>(u)];
    }
    bool anyRead = false, anyDeps = false, anyNlaOrState = false, partialNla = false;
    std::set<std::string> markedRoles, underRoles;
    for (const auto &m : marks) {
        c.cls(std::string("special:") + specialName(m.special));
        if (m.special == VOI || m.special == FOREIGN) {
            continue;
        }
        const auto &cl = gt.classes[static_cast<size_t>(m.cls)];
        c.cls(std::string("marked:") + gtRoleName(cl.role) + (m.underconstrained ? ":unknown" : ""));
        (m.underconstrained ? underRoles : markedRoles).insert(gtRoleName(cl.role));
        anyRead = anyRead || readByOthers[static_cast<size_t>(m.cls)];
        anyDeps = anyDeps || !m.deps.empty();
        anyNlaOrState = anyNlaOrState || cl.role == GtRole::NLA || cl.role == GtRole::STATE;
        c.cls("declared-deps:" + std::to_string(m.deps.size()));
        for (const auto &d : m.deps) {
            const auto &dc = gt.classes[static_cast<size_t>(d.first)];
            c.cls(std::string("dep-on:") + (marked[static_cast<size_t>(d.first)] ? "external" : gtRoleName(dc.role)));
        }
    }
    for (const auto &sys : gt.nla) {
        size_t e = 0;
        for (int u : sys.unknowns) {
            e += marked[static_cast<size_t>(u)] ? 1 : 0;
        }
        // fewer unknowns left than equations (generated systems have as many equations as unknowns; the appended
        // NLA-parameter shape has one equation for two initialised variables)
        partialNla = partialNla || (e != 0 && e != sys.unknowns.size() && sys.unknowns.size() - e < sys.equations.size());
    }
    // Reference for "state/rate based" with and without the declarations, and the class the stale-order protocol is
    // aimed at: an unmarked equation-computed class that a rate needs and that is state based only through the declared
    // dependencies of an external variable.
    std::map<int, std::vector<int>> declaredClasses;
    for (const auto &m : marks) {
        if (m.special == VOI || m.special == FOREIGN) {
            continue;
        }
        for (const auto &d : m.deps) {
            declaredClasses[m.cls].push_back(d.first);
            if (gt.classes[static_cast<size_t>(d.first)].role == GtRole::STATE && !marked[static_cast<size_t>(d.first)]) {
                c.cls("declared-dep-on-unmarked-state");
            }
        }
    }
    const C20Staleness staleness = c20Staleness(gt, marked, declaredClasses);
    bool staleSensitive = false;
    std::vector<bool> needed(n, false); // what the rates of the unmarked states need, through unmarked classes only
    {
        const C20Staleness without = c20Staleness(gt, marked, {});
        std::vector<size_t> stack;
        for (size_t k = 0; k < n; ++k) {
            if (gt.classes[k].role == GtRole::STATE && !marked[k]) {
                stack.push_back(k);
            }
        }
        std::vector<bool> seen(n, false);
        while (!stack.empty()) {
            size_t x = stack.back();
            stack.pop_back();
            if (seen[x] || marked[x]) {
                continue;
            }
            seen[x] = true;
            for (int d : gt.classes[x].deps) {
                if (static_cast<size_t>(d) != x && !marked[static_cast<size_t>(d)]) {
                    needed[static_cast<size_t>(d)] = true;
                    stack.push_back(static_cast<size_t>(d));
                }
            }
        }
        for (size_t k = 0; k < n; ++k) {
            const GtRole r = gt.classes[k].role;
            if (!marked[k] && needed[k] && (r == GtRole::COMPUTED_CONSTANT || r == GtRole::ALGEBRAIC || r == GtRole::NLA) && staleness.stateBased[k] && !without.stateBased[k]) {
                staleSensitive = true;
            }
        }
    }
    if (staleSensitive) {
        c.cls("state-based-only-through-declared-dependency(feeds-a-rate)");
    }
    c.cls(U.empty() ? "U:empty" : (uSubset ? "U:subset-of-S" : "U:not-subset-of-S"));
    c.cls("markings:" + std::to_string(marks.size()));
    c.nontrivial = anyRead && (anyDeps || anyNlaOrState);
    std::string ctx = "mark:" + join(std::vector<std::string>(markedRoles.begin(), markedRoles.end()), "+") + (underRoles.empty() ? "" : "|unknown:" + join(std::vector<std::string>(underRoles.begin(), underRoles.end()), "+"));

    // ---- analysis with externals
    if (leftVariable != nullptr) {
        // input class of a finding fixed elsewhere (notes/C09-fix-10.diff): localised, and tried in a child process first
        // because a dependency that was removed from its component used to bring the analyser or the generator down
        // (the class carried the signature token |dependency-left-the-model while the finding was open)
        c.cls("history:dependency-left-the-model:" + leftHow);
        struct Probe
        {
            AnalyserPtr analyser;
            ModelPtr model;
        } probe {analyser, bV.model};
        std::string diag;
        int rc = runIsolated([](void *arg) {
            auto *p = static_cast<Probe *>(arg);
            p->analyser->analyseModel(p->model);
            auto am = p->analyser->model();
            if (am != nullptr && am->isValid()) {
                auto gen = Generator::create();
                gen->setModel(am);
                (void)gen->interfaceCode();
                (void)gen->implementationCode();
            } }, &probe, 60, &diag);
        if (rc != 0) {
            report("C20.crash|analyse-or-generate|" + leftHow, "analysing the model (and generating code) with a declared dependency that has left the model kills the process (status " + std::to_string(rc) + "): " + diag.substr(0, 1500));
            return;
        }
    }
    analyser->analyseModel(bV.model);
    {
        std::string lg = checkLogger(analyser);
        VP_CHECK(c, lg.empty(), "C15.monitor|Analyser|" + lg.substr(0, lg.find('|')), lg);
    }
    auto am1 = analyser->model();
    VP_CHECK(c, am1 != nullptr, "C20.null-model", "Analyser::model() is null after analyseModel()");
    std::string type1 = AnalyserModel::typeAsString(am1->type());
    std::string issuesText;
    for (size_t i = 0; i < analyser->issueCount(); ++i) {
        auto is = analyser->issue(i);
        issuesText += "  [" + std::to_string(static_cast<int>(is->level())) + "] " + is->description() + "\n";
    }
    c.cls("type:" + type1);

    // Input class of a listed finding: a marked variable that keeps its defining equation, and that equation reads
    // (directly or through other equations) a class without definition. Both are unknown when the analyser promotes
    // "unknown externals" to initialised variables, and the equation is then taken for an NLA equation.
    for (int m : M) {
        const GtClass &mc = gt.classes[static_cast<size_t>(m)];
        if (std::find(U.begin(), U.end(), m) != U.end() || (mc.role != GtRole::COMPUTED_CONSTANT && mc.role != GtRole::ALGEBRAIC && mc.role != GtRole::NLA)) {
            continue;
        }
        for (int u : U) {
            if (dep[static_cast<size_t>(m)][static_cast<size_t>(u)]) {
                if (sigNote.find("|external-equation-reads-unknown") == std::string::npos) {
                    sigNote += "|external-equation-reads-unknown";
                }
            }
        }
    }
    if (sigNote.find("|external-equation-reads-unknown") != std::string::npos) {
        c.cls("external-equation-reads-unknown");
    }

    // (4) messages
    for (size_t i = 0; i < analyser->issueCount(); ++i) {
        auto is = analyser->issue(i);
        if (is->level() == Issue::Level::WARNING) {
            c.count("warnings");
            continue;
        }
        if (is->level() != Issue::Level::MESSAGE) {
            continue;
        }
        auto item = is->item();
        VariablePtr iv = item != nullptr && item->type() == CellmlElementType::VARIABLE ? item->variable() : nullptr;
        int icls = -1, iinst = -1;
        if (iv != nullptr) {
            auto comp = std::dynamic_pointer_cast<Component>(iv->parent());
            if (comp != nullptr) {
                gt.findInstance(comp->name(), iv->name(), icls, iinst);
            }
        }
        bool found = false;
        for (auto &e : expects) {
            if (e.matched || e.rule != is->referenceRule()) {
                continue;
            }
            if ((e.special == FOREIGN || e.special == LEFT) ? iv == e.foreign : (icls == e.cls && std::find(foreignVars.begin(), foreignVars.end(), iv) == foreignVars.end())) {
                e.matched = true;
                found = true;
                break;
            }
        }
        if (!found) {
            std::string how = "?";
            for (const auto &m : marks) {
                if (m.cls == icls && m.special != FOREIGN) {
                    how = specialName(m.special);
                }
            }
            if (!report(std::string("C20.message|unexpected|") + ruleName(is->referenceRule()) + "|marking:" + how + (icls >= 0 ? memberNote(icls) : ""), "message not called for by the markings: " + is->description() + "\nissues:\n" + issuesText)) {
                return;
            }
        }
    }
    for (const auto &e : expects) {
        if (!e.matched && !e.optional) {
            if (!report(std::string("C20.message|missing|") + ruleName(e.rule) + "|marking:" + specialName(e.special) + memberNote(e.cls), std::string("no message with rule ANALYSER_EXTERNAL_VARIABLE_") + ruleName(e.rule) + " for the " + specialName(e.special) + " marking of class " + std::to_string(e.cls) + "\nissues:\n" + issuesText)) {
                return;
            }
        }
    }

    // Input class of another finding: an NLA system keeps unknowns while one of its initialised variables is marked (the
    // appended NLA-parameter shape): the pruned unknown used not to become a dependency of the equation.
    for (const auto &sys : gt.nla) {
        size_t e = 0;
        for (int u : sys.unknowns) {
            e += marked[static_cast<size_t>(u)] ? 1 : 0;
        }
        if (e != 0 && e != sys.unknowns.size() && !partialNla) {
            // (signature token |nla-system-pruned-of-an-external-unknown while the finding was open)
            c.cls("nla-system-pruned-of-an-external-unknown");
            break;
        }
    }

    // (3) validity
    if (partialNla) {
        // n equations for fewer unknowns: the library documents the outcome (over-constrained); not part of the statement
        c.cls("nla-system-partly-marked:" + type1);
        c.count("not-executed:nla-system-partly-marked");
        return;
    }
    const std::string shapeName = shape;
    if (shapeName == "rate-read" && shapeTarget >= 0 && shapeOther >= 0 && marked[static_cast<size_t>(shapeTarget)] && marked[static_cast<size_t>(shapeOther)]) {
        // input class of a listed finding (notes/C20-fix-10.diff): the only reader of the rate is itself marked, so its
        // equation is replaced as well and nothing uses the rate any more
        sigNote += "|rate-of-marked-state-read-only-by-a-marked-variable";
        c.cls("rate-of-marked-state-read-only-by-a-marked-variable");
    }
    if (shapeName == "nla-parameter" && shapeTarget >= 0 && !marked[static_cast<size_t>(shapeTarget)]) {
        // zP is not marked: one equation for two unknowns (the driver's solver stub expects as many residuals as unknowns), or zY
        // alone is marked, which the truth does not describe
        c.count("not-executed:nla-parameter-shape-without-its-marking");
        return;
    }
    if (shapeName == "rate-read" && shapeTarget >= 0 && shapeOther >= 0 && marked[static_cast<size_t>(shapeTarget)] && !marked[static_cast<size_t>(shapeOther)] && uSubset) {
        // An equation reads the RATE of a state that is marked external. The callback supplies values only, so either the
        // analyser refuses the model or the generated code has to get the rate right; it used to print the state instead.
        c.cls("rate-of-marked-state-is-read");
        if (!am1->isValid()) {
            c.cls("rate-of-marked-state-is-read:refused");
            c.count("not-executed:rate-of-marked-state-is-read(refused)");
            return;
        }
        report("C20.value|rate-of-marked-state-is-read|model-stays-valid", "zR is computed from the rate of " + instLabel(gt, shapeTarget, 0) + ", which is marked external (its ODE is replaced by the callback, which cannot supply a rate); the analyser accepts the model (" + type1 + ") without any issue and the generator writes the state where the rate is meant\nissues:\n" + issuesText);
        return;
    }
    if (!uSubset) {
        // The statement promises nothing here. (The model may even be valid: when a marked variable keeps an equation
        // that mentions the unbound unknown, the analyser solves that equation for the unknown.)
        c.cls(std::string("U-not-subset-of-S:") + (am1->isValid() ? "valid" : "not-valid"));
        c.count("not-executed:U-not-subset-of-S");
        return;
    }
    if (!am1->isValid() || analyser->errorCount() != 0) {
        report("C20.validity|" + type1 + "|" + ctx, "every unknown is marked external, but the model is " + type1 + " with " + std::to_string(analyser->errorCount()) + " error(s)\nissues:\n" + issuesText);
        return;
    }
    {
        bool nlaLeft = false;
        for (const auto &sys : gt.nla) {
            bool all = true;
            for (int u : sys.unknowns) {
                all = all && marked[static_cast<size_t>(u)];
            }
            nlaLeft = nlaLeft || !all;
        }
        AnalyserModel::Type want = am0->type();
        if (!nlaLeft && want == AnalyserModel::Type::DAE) {
            want = AnalyserModel::Type::ODE;
        } else if (!nlaLeft && want == AnalyserModel::Type::NLA) {
            want = AnalyserModel::Type::ALGEBRAIC;
        }
        if (am1->type() != want) {
            if (!report("C20.model-type|" + AnalyserModel::typeAsString(want) + "->" + type1, "with the externals treated as inputs the model should be " + AnalyserModel::typeAsString(want) + " (without externals: " + AnalyserModel::typeAsString(am0->type()) + "), the analyser says " + type1)) {
                return;
            }
        }
    }
    if (getenv("C20_DEBUG") != nullptr) {
        auto vname = [](const AnalyserVariablePtr &v) { return std::dynamic_pointer_cast<Component>(v->variable()->parent())->name() + "." + v->variable()->name(); };
        for (size_t i = 0; i < am1->equationCount(); ++i) {
            auto e = am1->equation(i);
            std::cerr << "equation " << i << " " << AnalyserEquation::typeAsString(e->type()) << " computes";
            for (const auto &v : e->variables()) {
                std::cerr << " " << vname(v) << "[" << AnalyserVariable::typeAsString(v->type()) << "]";
            }
            std::cerr << " deps:";
            for (const auto &d : e->dependencies()) {
                for (const auto &v : d->variables()) {
                    std::cerr << " " << vname(v);
                }
                std::cerr << ";";
            }
            std::cerr << "\n";
        }
    }
    GtMapping map1;
    if (!mapAnalyserModel(am1, gt, map1)) {
        report("C20.mapping|externals", map1.problem);
        return;
    }
    std::vector<ClassView> view1 = viewOf(gt, map1);

    // (1) exactly the marked classes are external, through their primary variable, with a placeholder equation
    bool structureOk = true, voiListed = false;
    for (size_t k = 0; k < n; ++k) {
        const ClassView &v1 = view1[k];
        const std::string role = gtRoleName(gt.classes[k].role);
        const std::string who = "class " + std::to_string(k) + " (" + role + ") " + instLabel(gt, static_cast<int>(k), 0);
        if (v1.copies > 1) {
            structureOk = report("C20.external-set|class-listed-twice|" + role, who + " appears " + std::to_string(v1.copies) + " times among the states and variables") && structureOk;
            continue;
        }
        if (static_cast<int>(k) == gt.voi) {
            if (v1.present) {
                voiListed = true;
                structureOk = report(std::string("C20.external-set|voi-listed-as-variable|") + AnalyserVariable::typeAsString(v1.type), who + " is the variable of integration, yet it is listed in the variables array with type " + AnalyserVariable::typeAsString(v1.type) + "\nissues:\n" + issuesText) && structureOk;
            }
            continue;
        }
        if (!v1.present) {
            structureOk = report("C20.external-set|class-missing|" + role, who + " is neither a state nor a variable of the model analysed with externals") && structureOk;
            continue;
        }
        const bool isExt = v1.type == AnalyserVariable::Type::EXTERNAL;
        if (marked[k]) {
            bool isU = std::find(U.begin(), U.end(), static_cast<int>(k)) != U.end();
            if (!isExt) {
                structureOk = report("C20.external-set|marked-not-external|" + role, who + " is marked external but has type " + AnalyserVariable::typeAsString(v1.type)) && structureOk;
                continue;
            }
            if (v1.isState || v1.av->index() != v1.index) {
                structureOk = report("C20.external-set|index|" + role, who + ": external variable is not at its index of the variables array") && structureOk;
            }
            if (!isU && v1.inst != primary[k]) {
                structureOk = report("C20.external-set|not-the-primary|" + role, who + ": the external variable is " + instLabel(gt, static_cast<int>(k), v1.inst) + " but the primary variable of the class (analysis without externals) is " + instLabel(gt, static_cast<int>(k), primary[k])) && structureOk;
            }
            bool eqOk = v1.av->equationCount() == 1 && v1.av->equation(0) != nullptr && v1.av->equation(0)->type() == AnalyserEquation::Type::EXTERNAL && v1.av->equation(0)->ast() == nullptr
                        && v1.av->equation(0)->variableCount() == 1 && v1.av->equation(0)->variable(0) == v1.av;
            if (!eqOk) {
                structureOk = report("C20.external-set|placeholder-equation|" + role, who + ": expected exactly one equation of type EXTERNAL without AST computing only this variable; equation types: " + join(v1.eqTypes, ",")) && structureOk;
            }
        } else if (isExt) {
            structureOk = report("C20.external-set|unmarked-external|" + role, who + " has type EXTERNAL although no member of its class is marked") && structureOk;
        } else {
            // (2) independent classes keep type, equation types and primary variable
            bool independent = true;
            for (int m : M) {
                independent = independent && !dep[k][static_cast<size_t>(m)];
            }
            const ClassView &v0 = view0[k];
            if (independent && v0.present) {
                if (v1.type != v0.type || v1.isState != v0.isState) {
                    structureOk = report("C20.independent|variable-type|" + AnalyserVariable::typeAsString(v0.type) + "->" + AnalyserVariable::typeAsString(v1.type), who + " does not depend on a marked variable but its type changed") && structureOk;
                } else if (v1.eqTypes != v0.eqTypes) {
                    structureOk = report("C20.independent|equation-type|" + role, who + " does not depend on a marked variable but its equations changed from " + join(v0.eqTypes, ",") + " to " + join(v1.eqTypes, ",")) && structureOk;
                } else if (v1.inst != v0.inst) {
                    structureOk = report("C20.independent|primary|" + role, who + " does not depend on a marked variable but its primary variable changed from " + instLabel(gt, static_cast<int>(k), v0.inst) + " to " + instLabel(gt, static_cast<int>(k), v1.inst)) && structureOk;
                }
                c.count("independent-classes-compared");
            }
        }
    }
    if (map0.hasVoi != map1.hasVoi || (map0.hasVoi && (map0.voiCls != map1.voiCls || map0.voiInst != map1.voiInst))) {
        structureOk = report("C20.independent|voi", "the variable of integration differs between the analyses with and without externals") && structureOk;
    }
    if (am1->hasExternalVariables() != !M.empty()) {
        structureOk = report(std::string("C20.has-external-variables|") + (M.empty() ? "true-without-marked-class" : "false-with-marked-class"), std::string("hasExternalVariables() is ") + (am1->hasExternalVariables() ? "true" : "false") + " with " + std::to_string(M.size()) + " marked classes\nissues:\n" + issuesText) && structureOk;
    }
    if (!structureOk) {
        return;
    }
    // AnalyserEquation::isStateRateBased() against the reference (dependency on a state through equations and through
    // the declared dependencies of external variables)
    for (size_t k = 0; k < n; ++k) {
        const ClassView &v1 = view1[k];
        if (!v1.present || static_cast<int>(k) == gt.voi || voiListed) {
            continue;
        }
        for (size_t i = 0; i < v1.av->equationCount(); ++i) {
            auto e = v1.av->equation(i);
            if (e == nullptr) {
                continue;
            }
            c.count("isStateRateBased-compared");
            if (e->isStateRateBased() != staleness.stateBased[k]) {
                const std::string role = marked[k] ? "external" : gtRoleName(gt.classes[k].role);
                if (!report(std::string("C20.state-rate-based|") + (staleness.stateBased[k] ? "false-for-state-based|" : "true-for-not-state-based|") + role,
                            "equation (" + AnalyserEquation::typeAsString(e->type()) + ") of class " + std::to_string(k) + " " + instLabel(gt, static_cast<int>(k), v1.inst) + ": isStateRateBased() is " + (e->isStateRateBased() ? "true" : "false")
                                + ", but the variable " + (staleness.stateBased[k] ? "depends on a state (through equations / declared dependencies of external variables)" : "does not depend on any state"))) {
                    return;
                }
                break;
            }
        }
    }
    if (voiListed) {
        // known finding: the variables array has an entry for the VOI that no equation writes; running the code would only repeat it
        c.count("excluded:voi-listed-as-variable(not executed)");
        return;
    }

    // ---- reference values with the externals bound to r_k
    static const double deltas[] = {0.37, -0.23, 1.1, -0.7, 0.09, 1.9, -1.3, 0.61};
    C20Ref ref;
    int attempt = 0;
    for (; attempt < 4; ++attempt) {
        std::vector<C20Binding> bind;
        for (size_t i = 0; i < M.size(); ++i) {
            const auto &cl = gt.classes[static_cast<size_t>(M[i])];
            C20Binding b;
            b.cls = M[i];
            for (int p = 0; p < 2; ++p) {
                double d = attempt == 3 ? 0.0 : deltas[(valSel[i % 4] + static_cast<unsigned>(attempt) * 3 + static_cast<unsigned>(p) * 5 + i) % 8];
                b.home[p] = cl.value[p] + d;
            }
            bind.push_back(b);
        }
        ref = c20Evaluate(gt, bind);
        if (ref.safe) {
            break;
        }
    }
    if (!ref.safe) {
        c.count("not-executed:unsafe-even-with-original-values");
        return;
    }
    c.cls(attempt == 3 ? "values:original(fallback)" : "values:perturbed");
    c.count("value-attempts", attempt + 1);

    RunPlan plan = makeRunPlan(ref.model, map1);
    plan.externals = am1->hasExternalVariables();
    plan.poisonExternals = true;
    bool anyStaleThroughExternalOnly = false;
    for (size_t k = 0; k < n; ++k) {
        anyStaleThroughExternalOnly = anyStaleThroughExternalOnly || (staleness.staleThroughExternalOnly[k] && needed[k]);
    }
    plan.staleOrder = (wantStaleOrder || staleSensitive || anyStaleThroughExternalOnly) && plan.ode;
    if (plan.staleOrder && anyStaleThroughExternalOnly) {
        c.cls("stale-order+rate-needs-consumer-of-external-without-state-dependence");
    }
    if (plan.staleOrder) {
        plan.staleResolve = c20StaleResolve(ref.model, map1, staleness);
        c.cls("stale-order");
        if (staleSensitive) {
            c.cls("stale-order+state-based-only-through-declared-dependency");
        }
        if (!plan.staleResolve.empty()) {
            c.cls("stale-order+nla-system-to-solve-again");
        }
    }
    std::vector<bool> isExtIndex(map1.vars.size(), false);
    std::vector<int> indexOfClass(n, -1), stateIndexOfClass(n, -1);
    for (size_t i = 0; i < map1.vars.size(); ++i) {
        indexOfClass[static_cast<size_t>(map1.vars[i].first)] = static_cast<int>(i);
        if (am1->variable(i)->type() == AnalyserVariable::Type::EXTERNAL) {
            isExtIndex[i] = true;
            for (int p = 0; p < 2; ++p) {
                plan.externalValues[p].emplace_back(i, ref.model.instanceValue(map1.vars[i].first, map1.vars[i].second, p));
            }
        }
    }
    for (size_t i = 0; i < map1.states.size(); ++i) {
        stateIndexOfClass[static_cast<size_t>(map1.states[i].first)] = static_cast<int>(i);
    }
    auto rOf = [&](size_t index, int p) {
        for (const auto &e : plan.externalValues[p]) {
            if (e.first == index) {
                return e.second;
            }
        }
        return std::nan("");
    };
    bool nlaLeft = false;
    for (const auto &cl : ref.model.classes) {
        nlaLeft = nlaLeft || cl.role == GtRole::NLA;
    }
    if (map1.hasVoi) c.cls("ode");
    if (nlaLeft) c.cls("nla-system-left");
    if (map1.states.empty() && map1.hasVoi) c.cls("ode-without-states");

    // declared dependencies per external variable index
    std::map<size_t, std::vector<std::pair<int, int>>> declared, declaredOnSecondObject;
    for (const auto &m : marks) {
        if (m.special == VOI || m.special == FOREIGN) {
            continue;
        }
        declared[static_cast<size_t>(indexOfClass[static_cast<size_t>(m.cls)])] = m.deps;
        declaredOnSecondObject[static_cast<size_t>(indexOfClass[static_cast<size_t>(m.cls)])] = m.onSecondObject;
    }

    long comparisons = 0;
    auto checkTrace = [&](const char *lang, const RunResult &r, const std::string &impl, std::vector<std::string> &sequence) -> bool {
        const std::string L = lang;
        auto bad = [&](const std::string &sig, const std::string &msg) { return report(sig, msg + "\n--- implementation ---\n" + impl.substr(0, 8000)); };
        // arrays reported after the methods
        for (size_t i = 0; i < isExtIndex.size(); ++i) {
            if (!isExtIndex[i]) {
                continue;
            }
            const std::string who = "variables[" + std::to_string(i) + "] (" + instLabel(gt, map1.vars[i].first, map1.vars[i].second) + ")";
            auto at = [&](const std::vector<double> &a) { return i < a.size() ? a[i] : std::nan(""); };
            ++comparisons;
            if (!sameValue(at(r.initVars), rOf(i, 0))) {
                if (!bad("C20.callback|" + L + "|entry-after-initialiseVariables", who + " is " + std::to_string(at(r.initVars)) + " after initialiseVariables, the callback returns " + std::to_string(rOf(i, 0)))) return false;
            }
            if (!std::isnan(at(r.ccVars))) {
                if (!bad("C20.callback|" + L + "|written-by-computeComputedConstants", who + " was reset to NaN before computeComputedConstants (which takes no callback) and is " + std::to_string(at(r.ccVars)) + " afterwards")) return false;
            }
            for (int p = 0; p < 2; ++p) {
                if (map1.hasVoi && !std::isnan(at(r.varsAfterRates[p])) && !sameValue(at(r.varsAfterRates[p]), rOf(i, p))) {
                    if (!bad("C20.callback|" + L + "|entry-after-computeRates", who + " is " + std::to_string(at(r.varsAfterRates[p])) + " after computeRates at point " + std::to_string(p) + ", the callback returns " + std::to_string(rOf(i, p)))) return false;
                }
                if (!sameValue(at(r.vars[p]), rOf(i, p))) {
                    if (!bad("C20.callback|" + L + "|entry-after-computeVariables", who + " is " + std::to_string(at(r.vars[p])) + " after computeVariables at point " + std::to_string(p) + ", the callback returns " + std::to_string(rOf(i, p)) + " (the entry is reset to NaN between the methods)")) return false;
                }
            }
        }
        // invocations
        for (const auto &line : r.externalCalls) {
            Call k;
            if (!parseCall(line, k) || k.point < 0 || k.point > 1 || k.stage < 0 || k.stage > 2) {
                return bad("C20.harness|trace", "unreadable callback trace line: " + line.substr(0, 200));
            }
            sequence.push_back(std::to_string(k.point) + ":" + std::to_string(k.stage) + ":" + std::to_string(k.index));
            c.count("callback-invocations");
            if (k.index >= isExtIndex.size() || !isExtIndex[k.index]) {
                if (!bad("C20.callback|" + L + "|index-not-external", "the callback was invoked for index " + std::to_string(k.index) + " which is not an external variable")) return false;
                continue;
            }
            if (k.vars.size() != isExtIndex.size() || k.states.size() != map1.states.size()) {
                return bad("C20.harness|trace-size", "snapshot sizes do not match the model: " + line.substr(0, 200));
            }
            const std::string where = std::string(stageName(k.stage)) + " at point " + std::to_string(k.point) + ", invocation for variables[" + std::to_string(k.index) + "] (" + instLabel(gt, map1.vars[k.index].first, map1.vars[k.index].second) + ")";
            if (map1.hasVoi && !sameValue(k.voi, plan.voi[k.stage == 0 ? 0 : k.point])) {
                if (!bad("C20.callback|" + L + "|voi-argument", where + ": voi argument is " + std::to_string(k.voi))) return false;
            }
            for (size_t j = 0; j < isExtIndex.size(); ++j) {
                ++comparisons;
                if (isExtIndex[j] && !std::isnan(k.vars[j]) && !sameValue(k.vars[j], rOf(j, k.point))) {
                    if (!bad("C20.callback|" + L + "|entry-not-last-return", where + ": variables[" + std::to_string(j) + "] holds " + std::to_string(k.vars[j]) + " which is neither NaN (reset) nor the value the callback returns for it, " + std::to_string(rOf(j, k.point)))) return false;
                }
            }
            for (const auto &d : declared[k.index]) {
                const GtClass &dc = ref.model.classes[static_cast<size_t>(d.first)];
                const GtClass &dorig = gt.classes[static_cast<size_t>(d.first)];
                if (dorig.role == GtRole::VOI) {
                    continue;
                }
                const bool dExt = marked[static_cast<size_t>(d.first)];
                bool due = true;
                if (k.stage == 0) {
                    // initialiseVariables computes constants, computed constants without inputs, states and externals
                    due = dExt || dc.role == GtRole::CONSTANT || dc.role == GtRole::STATE || (dc.role == GtRole::COMPUTED_CONSTANT && dc.deps.empty());
                }
                if (!due) {
                    c.count("declared-dependency-not-due-in-initialiseVariables");
                    continue;
                }
                if (plan.staleOrder && k.point == 1 && k.stage == 2 && !staleness.strict[static_cast<size_t>(d.first)]) {
                    // varies with the VOI (or a dependency-less external) only: computed by computeRates, not again by
                    // computeVariables (upstream design), so under stale order it holds its first-point value
                    c.count("stale-order:declared-dependency-exempt(not state based)");
                    continue;
                }
                double got, want;
                int si = stateIndexOfClass[static_cast<size_t>(d.first)], vi = indexOfClass[static_cast<size_t>(d.first)];
                if (si >= 0) {
                    got = k.states[static_cast<size_t>(si)];
                    want = ref.model.instanceValue(map1.states[static_cast<size_t>(si)].first, map1.states[static_cast<size_t>(si)].second, k.point);
                } else if (vi >= 0) {
                    got = k.vars[static_cast<size_t>(vi)];
                    want = ref.model.instanceValue(map1.vars[static_cast<size_t>(vi)].first, map1.vars[static_cast<size_t>(vi)].second, k.point);
                } else {
                    continue;
                }
                ++comparisons;
                c.count("declared-dependencies-checked");
                if (!closeEnough(got, want, kTol)) {
                    std::string drole = dExt ? "external" : gtRoleName(dc.role);
                    // Open corner of the initialisation order (notes/C20.md, fix-3 / fix-9): the external variable for which the
                    // callback is invoked initialises something itself (directly or through a chain) and declares a dependency
                    // on a state that is in turn initialised from another external variable.
                    std::string cornerNote;
                    if (k.stage == 0 && si >= 0) {
                        auto endsInMarked = [&](int cls) {
                            for (int hop = 0, kk = cls; hop < 8; ++hop) {
                                int by = gt.classes[static_cast<size_t>(kk)].initialisedBy;
                                if (by < 0) {
                                    return -1;
                                }
                                if (marked[static_cast<size_t>(by)]) {
                                    return by;
                                }
                                kk = by;
                            }
                            return -1;
                        };
                        const int self = map1.vars[k.index].first;
                        bool selfInitialises = false;
                        for (size_t q = 0; q < n; ++q) {
                            selfInitialises = selfInitialises || (!marked[q] && endsInMarked(static_cast<int>(q)) == self);
                        }
                        (void)selfInitialises; // the callback may also come early as a declared dependency of such an external
                        if (endsInMarked(d.first) >= 0 && endsInMarked(d.first) != self) {
                            cornerNote = "|initialising-external-depends-on-externally-initialised-state";
                        }
                    }
                    const auto &second = declaredOnSecondObject[k.index];
                    const std::string objectNote = std::find(second.begin(), second.end(), d) != second.end() ? "|declared-on-second-object-of-class" : "";
                    if (!bad("C20.order|" + L + "|" + stageName(k.stage) + "|dependency:" + drole + memberNote(d.first) + objectNote + cornerNote,
                             where + ": declared dependency " + instLabel(gt, d.first, d.second) + " (" + drole + ") holds " + std::to_string(got) + " but its value is " + std::to_string(want) + " - the callback is invoked before the dependency has been computed")) return false;
                }
            }
        }
        return true;
    };

    RunResult rc, rp;
    std::vector<std::string> seqC, seqP;
    auto valuesOk = [&](const char *lang, const RunResult &r, const std::string &impl) -> bool {
        // A state whose initial value is the name of a constant that is marked external (localised on its own: a listed
        // finding; every later value at point 0 would only repeat it, so the case ends here when it shows).
        auto chainEnd = [&](int cls) {
            // the marked class the chain of initial values of cls ends in, or -1
            for (int hop = 0, k = cls; hop < 8; ++hop) {
                int by = gt.classes[static_cast<size_t>(k)].initialisedBy;
                if (by < 0) {
                    return -1;
                }
                if (marked[static_cast<size_t>(by)]) {
                    return by;
                }
                k = by;
            }
            return -1;
        };
        for (size_t i = 0; i < map1.vars.size(); ++i) {
            const int cls = map1.vars[i].first;
            if (marked[static_cast<size_t>(cls)] || gt.classes[static_cast<size_t>(cls)].role != GtRole::CONSTANT || chainEnd(cls) < 0) {
                continue;
            }
            c.cls("constant-initialised-by-external");
            double want = ref.model.instanceValue(cls, map1.vars[i].second, 0);
            double got = i < r.initVars.size() ? r.initVars[i] : std::nan("");
            if (!closeEnough(got, want, kTol)) {
                report(std::string("C20.value|") + lang + "|after-initialiseVariables|constant-initialised-by-external", "variables[" + std::to_string(i) + "] (" + instLabel(gt, cls, map1.vars[i].second) + ") has an initial value that names (through " + instLabel(gt, gt.classes[static_cast<size_t>(cls)].initialisedBy, 0) + ") the external " + instLabel(gt, chainEnd(cls), 0) + ": after initialiseVariables it is " + std::to_string(got) + ", the callback returned " + std::to_string(want) + "\n--- implementation ---\n" + impl.substr(0, 8000));
                c.count("excluded:initial-value-chain-ends-in-external(rest not compared)");
                return false;
            }
        }
        for (size_t i = 0; i < map1.states.size(); ++i) {
            const GtClass &sc = gt.classes[static_cast<size_t>(map1.states[i].first)];
            if (sc.initialisedBy >= 0 && !marked[static_cast<size_t>(sc.initialisedBy)] && chainEnd(map1.states[i].first) >= 0) {
                c.cls("state-initialised-through-chain-ending-in-external");
                double want = ref.model.instanceValue(map1.states[i].first, map1.states[i].second, 0);
                double got = i < r.initStates.size() ? r.initStates[i] : std::nan("");
                if (!closeEnough(got, want, kTol)) {
                    report(std::string("C20.value|") + lang + "|init-states|state-initialised-through-chain-ending-in-external", "states[" + std::to_string(i) + "] (" + instLabel(gt, map1.states[i].first, map1.states[i].second) + ") is initialised through " + instLabel(gt, sc.initialisedBy, 0) + " from the external " + instLabel(gt, chainEnd(map1.states[i].first), 0) + ": after initialiseVariables it is " + std::to_string(got) + ", expected " + std::to_string(want) + "\n--- implementation ---\n" + impl.substr(0, 8000));
                    c.count("excluded:initial-value-chain-ends-in-external(rest not compared)");
                    return false;
                }
            }
            if (sc.initialisedBy < 0 || !marked[static_cast<size_t>(sc.initialisedBy)]) {
                continue;
            }
            c.cls("state-initialised-by-external-constant");
            double want = ref.model.instanceValue(map1.states[i].first, map1.states[i].second, 0);
            double got = i < r.initStates.size() ? r.initStates[i] : std::nan("");
            if (!closeEnough(got, want, kTol)) {
                report(std::string("C20.value|") + lang + "|init-states|state-initialised-by-external-constant", "states[" + std::to_string(i) + "] (" + instLabel(gt, map1.states[i].first, map1.states[i].second) + ") is initialised with the value of " + instLabel(gt, sc.initialisedBy, 0) + ", which is external: after initialiseVariables it is " + std::to_string(got) + ", the callback returned " + std::to_string(want) + "\n--- implementation ---\n" + impl.substr(0, 8000));
                c.count("excluded:state-initialised-by-external-constant(rest not compared)");
                return false;
            }
        }
        long tolerated = 0;
        std::string d = plan.staleOrder ? compareRunWithTruth(ref.model, map1, c20TolerateStale(ref.model, map1, r, staleness, &tolerated), kTol, &comparisons) : compareRunWithTruth(ref.model, map1, r, kTol, &comparisons);
        c.count("stale-order:variables-exempt(not state based)", tolerated);
        if (!d.empty()) {
            if (!report(std::string("C20.value|") + lang + "|" + d.substr(0, d.find('\n')) + (plan.staleOrder ? "|stale-order" : "") + "|" + ctx, d.substr(d.find('\n') + 1) + "\n--- implementation ---\n" + impl.substr(0, 8000))) {
                return false;
            }
        }
        if (d.empty() && plan.staleOrder && anyStaleThroughExternalOnly) {
            // listed finding: what is computed from an external variable but from no state is not recomputed by
            // computeVariables although the callback is invoked again there
            std::string d2 = compareRunWithTruth(ref.model, map1, c20TolerateStale(ref.model, map1, r, staleness, nullptr, true), kTol, &comparisons);
            if (!d2.empty()) {
                if (!report(std::string("C20.value|") + lang + "|variables-1|stale-order|reads-external-but-no-state", d2.substr(d2.find('\n') + 1) + "\n(the variable depends on an external variable but on no state: computeVariables invokes the callback again but does not recompute it)\n--- implementation ---\n" + impl.substr(0, 8000))) {
                    return false;
                }
            }
        }
        if (nlaLeft) {
            if (r.nlaCalls <= 0 && !report(std::string("C20.nla-not-called|") + lang, "an NLA system is left but the solver was never called")) {
                return false;
            }
            if (!(r.nlaResidual <= 1e-6) && !report(std::string("C20.nla-residual|") + lang + "|" + ctx, "objective function does not vanish at the solution computed with the externals bound: max |f| = " + std::to_string(r.nlaResidual) + "\n--- implementation ---\n" + impl.substr(0, 8000))) {
                return false;
            }
        }
        return true;
    };
    {
        auto gen = Generator::create();
        gen->setModel(am1);
        std::string iface = gen->interfaceCode(), impl = gen->implementationCode();
        VP_CHECK(c, !iface.empty() && !impl.empty(), "C20.empty-code|C", "generator returned empty C code for a valid analyser model");
        if (!gRunner->runC(iface, impl, plan, rc)) {
            report("C20.run|C|" + rc.error.substr(0, 30), rc.error + "\n--- implementation ---\n" + impl.substr(0, 6000));
            return;
        }
        c.count("programs");
        if (!valuesOk("C", rc, impl) || !checkTrace("C", rc, impl, seqC)) {
            return;
        }
    }
    {
        auto gen = Generator::create();
        gen->setProfile(GeneratorProfile::create(GeneratorProfile::Profile::PYTHON));
        gen->setModel(am1);
        std::string impl = gen->implementationCode();
        VP_CHECK(c, !impl.empty(), "C20.empty-code|Python", "generator returned empty Python code for a valid analyser model");
        if (!gRunner->runPython(impl, plan, rp)) {
            report("C20.run|Python|" + rp.error.substr(0, 30), rp.error + "\n--- implementation ---\n" + impl.substr(0, 6000));
            return;
        }
        c.count("programs");
        if (!valuesOk("Python", rp, impl) || !checkTrace("Python", rp, impl, seqP)) {
            return;
        }
    }
    {
        std::string d = compareRuns(rc, rp, kTol, &comparisons);
        if (!d.empty()) {
            if (!report("C20.profiles-disagree|" + d.substr(0, d.find('\n')), d.substr(d.find('\n') + 1))) {
                return;
            }
        }
        if (seqC != seqP) {
            if (!report("C20.profiles-disagree|callback-sequence", "C invokes the callback as [" + join(seqC, " ") + "], Python as [" + join(seqP, " ") + "] (point:stage:index)")) {
                return;
            }
        }
    }
    c.count("comparisons", comparisons);
    c.cls("executed");
}

} // namespace

namespace vp {
Property property = {
    "C20",
    "exploration",
    "rapidcheck tapes drive the ground-truth model generator of C03 (constants, computed constants, algebraic variables, states, NLA systems over 1-4 connected components with scaled units); 0-2 classes lose their definition (set U), 1-4 "
    "variables are marked external (primary / non-primary / two members of a class / the VOI / a variable of a second model) with 0-3 acyclic declared dependencies each; the analysis is compared with the analysis of the complete model "
    "without externals and the generated C and Python code is run with a recording callback whose return values are chosen by the harness; all arrays are compared with a re-evaluation of the ground truth with the marked classes bound. "
    "Non-trivial: at least one marked variable that other equations read and (a declared dependency or a marked state / NLA unknown). Distinct = hash of model text + markings.",
    run,
    nullptr,
    {"callback return values are the ground-truth values shifted by fixed offsets, re-drawn (3 attempts) and finally left unshifted when a shifted value would move an expression within 2e-3 of a pole / branch point / equality; relative tolerance 1e-7",
     "declared dependencies never form a cycle with the model's own equations (such a declaration cannot be honoured by any order); only the first AnalyserExternalVariable object of a class carries dependencies",
     "NLA systems are not solved: unknowns are pre-loaded with the solution computed for the bound values and the objective function must vanish there; an NLA system of which only some unknowns are marked is not executed",
     "entries of external variables are reset to NaN between the methods, which assumes (as the generator does) that every method calls the callback for each external variable it reads",
     "system cc (C99) and system python3 execute the generated code"},
};
}

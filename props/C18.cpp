// C18 (domain 1) — variable-equivalence queries agree with the connection graph.
// Generated connection graphs (chains, stars, cycles, cliques, trees, random parts, isolated variables, several
// disconnected parts, equivalences that are added and later removed) are built through the public API. Every ordered
// pair of variables is queried through Variable::hasEquivalentVariable(v, true) and through
// AnalyserModel::areEquivalentVariables() of an analyser model obtained from a real analysis, in tape-chosen orders,
// repeatedly and interleaved. Oracle: reachability over the set of equivalences the harness added and did not remove
// (its own edge set), cross-checked against a BFS over the equivalentVariable(i) lists.
#include <libcellml>

#include <algorithm>
#include <cstdio>
#include <cstdlib>
#include <map>
#include <numeric>
#include <set>
#include <sstream>

#include "prop.h"
#include "spec.h"

using namespace vp;
using namespace libcellml;

namespace {

struct Affine
{
    uint64_t n = 1, a = 1, b = 0;
    uint64_t at(uint64_t i) const { return (a * i + b) % n; }
    std::string str() const { return "affine(" + std::to_string(a) + "," + std::to_string(b) + ")"; }
};

// A permutation of [0, n) chosen by two tape values; (0, 0) is the identity.
Affine genAffine(Src &src, uint64_t n)
{
    Affine f;
    f.n = n == 0 ? 1 : n;
    uint64_t a = 1 + src.below(std::min<uint64_t>(f.n, 97));
    while (std::gcd(a, f.n) != 1) {
        ++a;
    }
    f.a = a % f.n == 0 ? 1 : a;
    f.b = src.below(f.n);
    return f;
}

struct Op
{
    enum Kind
    {
        ADD,
        REMOVE,
        REMOVE_ALL
    } kind;
    int a, b; // REMOVE_ALL: a only
    bool swap; // argument order of the API call
};

struct Part
{
    std::string shape;
    std::vector<int> members;
};

struct Plan
{
    int nVars = 2, nComps = 1;
    bool valid = true;
    std::vector<int> compOf;
    std::vector<Part> parts;
    std::vector<Op> ops;
    std::set<std::pair<int, int>> finalEdges; // a < b
    std::set<std::pair<int, int>> everEdges;
    std::vector<int> classOf; // final connected part of each variable
    int nClasses = 0;
    std::vector<int> defKind; // 0 none, 1 initial value, 2 equation
    uint64_t defSeed = 0;
    bool removedSomething = false, removalSplit = false, tempBridge = false, readd = false, removeAll = false;
};

std::pair<int, int> ord(int a, int b)
{
    return a < b ? std::make_pair(a, b) : std::make_pair(b, a);
}

// Connected parts of an edge set (the harness's own reference: union-find).
int components(int n, const std::set<std::pair<int, int>> &edges, std::vector<int> &cls)
{
    std::vector<int> p(static_cast<size_t>(n));
    std::iota(p.begin(), p.end(), 0);
    auto find = [&](int x) {
        while (p[static_cast<size_t>(x)] != x) {
            p[static_cast<size_t>(x)] = p[static_cast<size_t>(p[static_cast<size_t>(x)])];
            x = p[static_cast<size_t>(x)];
        }
        return x;
    };
    for (const auto &e : edges) {
        p[static_cast<size_t>(find(e.first))] = find(e.second);
    }
    std::map<int, int> id;
    cls.assign(static_cast<size_t>(n), 0);
    for (int i = 0; i < n; ++i) {
        int r = find(i);
        auto it = id.find(r);
        if (it == id.end()) {
            it = id.emplace(r, static_cast<int>(id.size())).first;
        }
        cls[static_cast<size_t>(i)] = it->second;
    }
    return static_cast<int>(id.size());
}

// Distance in the edge set (1 = direct, >= 2 indirect, -1 unreachable), for localisation only.
int distance(int n, const std::set<std::pair<int, int>> &edges, int from, int to)
{
    std::vector<int> d(static_cast<size_t>(n), -1);
    std::vector<int> q {from};
    d[static_cast<size_t>(from)] = 0;
    for (size_t h = 0; h < q.size(); ++h) {
        int x = q[h];
        for (const auto &e : edges) {
            int y = e.first == x ? e.second : (e.second == x ? e.first : -1);
            if (y >= 0 && d[static_cast<size_t>(y)] < 0) {
                d[static_cast<size_t>(y)] = d[static_cast<size_t>(x)] + 1;
                q.push_back(y);
            }
        }
    }
    return d[static_cast<size_t>(to)];
}

// Valid mode: exactly one variable of every class is defined (initial value, or an equation if it lives in the one
// component that may carry math: the validator parses the MathML DTD once per math block, which is costly).
std::vector<int> validDefinitions(const Plan &p, const std::vector<int> &classOf, int nClasses)
{
    std::vector<int> defKind(static_cast<size_t>(p.nVars), 0);
    bool withMath = (p.defSeed & 1) != 0;
    int mathComp = static_cast<int>((p.defSeed >> 1) % static_cast<uint64_t>(p.nComps));
    std::vector<std::vector<int>> members(static_cast<size_t>(nClasses));
    for (int v = 0; v < p.nVars; ++v) {
        members[static_cast<size_t>(classOf[static_cast<size_t>(v)])].push_back(v);
    }
    for (size_t k = 0; k < members.size(); ++k) {
        int rep = members[k][(p.defSeed + k) % members[k].size()];
        bool eqn = withMath && p.compOf[static_cast<size_t>(rep)] == mathComp && ((p.defSeed >> 3) + k) % 2 == 1;
        defKind[static_cast<size_t>(rep)] = eqn ? 2 : 1;
    }
    return defKind;
}

Plan genPlan(Src &src)
{
    Plan p;
    // plan-shaping choices first
    p.nVars = 2 + static_cast<int>(src.below(39));
    p.nComps = 1 + static_cast<int>(src.below(8));
    p.valid = !src.flip(40);
    int nTemp = static_cast<int>(src.below(6));
    int nRemove = static_cast<int>(src.below(4));
    p.removeAll = src.flip(15);
    p.readd = src.flip(20);
    Affine varPerm = genAffine(src, static_cast<uint64_t>(p.nVars));
    if (p.valid && p.nComps < 2) {
        p.nComps = 2;
    }
    const int n = p.nVars;

    // parts and their shapes
    std::vector<std::pair<int, int>> shapeEdges;
    int next = 0;
    while (next < n) {
        int cap = std::min(n - next, p.valid ? p.nComps : 12);
        int size = 1 + static_cast<int>(src.below(static_cast<uint64_t>(cap)));
        Part part;
        for (int i = 0; i < size; ++i) {
            part.members.push_back(static_cast<int>(varPerm.at(static_cast<uint64_t>(next + i))));
        }
        next += size;
        const auto &m = part.members;
        if (size == 1) {
            part.shape = "isolated";
        } else if (size == 2) {
            part.shape = "pair";
            shapeEdges.emplace_back(m[0], m[1]);
        } else {
            switch (src.below(6)) {
            case 0:
                part.shape = "chain";
                for (int i = 0; i + 1 < size; ++i) {
                    shapeEdges.emplace_back(m[static_cast<size_t>(i)], m[static_cast<size_t>(i + 1)]);
                }
                break;
            case 1:
                part.shape = "star";
                for (int i = 1; i < size; ++i) {
                    shapeEdges.emplace_back(m[0], m[static_cast<size_t>(i)]);
                }
                break;
            case 2:
                part.shape = "cycle";
                for (int i = 0; i < size; ++i) {
                    shapeEdges.emplace_back(m[static_cast<size_t>(i)], m[static_cast<size_t>((i + 1) % size)]);
                }
                break;
            case 3:
                part.shape = "clique";
                for (int i = 0; i < size; ++i) {
                    for (int j = i + 1; j < size; ++j) {
                        shapeEdges.emplace_back(m[static_cast<size_t>(i)], m[static_cast<size_t>(j)]);
                    }
                }
                break;
            case 4:
                part.shape = "tree";
                for (int i = 1; i < size; ++i) {
                    shapeEdges.emplace_back(m[src.below(static_cast<uint64_t>(i))], m[static_cast<size_t>(i)]);
                }
                break;
            default: {
                part.shape = "random";
                for (int i = 1; i < size; ++i) {
                    shapeEdges.emplace_back(m[src.below(static_cast<uint64_t>(i))], m[static_cast<size_t>(i)]);
                }
                int chords = static_cast<int>(src.below(static_cast<uint64_t>(size)));
                for (int k = 0; k < chords; ++k) {
                    int x = static_cast<int>(src.below(static_cast<uint64_t>(size)));
                    int y = static_cast<int>(src.below(static_cast<uint64_t>(size - 1)));
                    y = y >= x ? y + 1 : y;
                    shapeEdges.emplace_back(m[static_cast<size_t>(x)], m[static_cast<size_t>(y)]);
                }
                break;
            }
            }
        }
        p.parts.push_back(part);
    }

    // components
    p.compOf.assign(static_cast<size_t>(n), 0);
    if (p.valid) {
        // the variables of one part live in pairwise different components (parts have at most nComps members)
        for (const auto &part : p.parts) {
            int off = static_cast<int>(src.below(static_cast<uint64_t>(p.nComps)));
            for (size_t i = 0; i < part.members.size(); ++i) {
                p.compOf[static_cast<size_t>(part.members[i])] = (off + static_cast<int>(i)) % p.nComps;
            }
        }
    } else {
        Affine ca = genAffine(src, 64);
        for (int v = 0; v < n; ++v) {
            p.compOf[static_cast<size_t>(v)] = static_cast<int>(ca.at(static_cast<uint64_t>(v)) % static_cast<uint64_t>(p.nComps));
        }
    }

    // temporary equivalences (any two variables; removed later, in free mode possibly kept)
    struct Temp
    {
        int a, b;
        bool keep;
    };
    std::vector<Temp> temps;
    for (int k = 0; k < nTemp; ++k) {
        int x = static_cast<int>(src.below(static_cast<uint64_t>(n)));
        int y = static_cast<int>(src.below(static_cast<uint64_t>(n - 1)));
        y = y >= x ? y + 1 : y;
        bool keep = !p.valid && src.flip(30);
        temps.push_back({x, y, keep});
    }

    // operations: all additions in a tape-chosen order, then the removals
    std::vector<std::pair<int, int>> adds = shapeEdges;
    for (const auto &t : temps) {
        adds.emplace_back(t.a, t.b);
    }
    Affine addOrder = genAffine(src, adds.size());
    uint64_t swapBits = src.below(1u << 16);
    std::set<std::pair<int, int>> cur;
    for (size_t i = 0; i < adds.size(); ++i) {
        auto e = adds[addOrder.at(i)];
        p.ops.push_back({Op::ADD, e.first, e.second, ((swapBits >> (i % 16)) & 1) != 0});
        cur.insert(ord(e.first, e.second));
    }
    p.everEdges = cur;
    std::vector<int> clsBefore;
    int partsBefore = components(n, cur, clsBefore);
    {
        // does a temporary equivalence join two generated parts?
        std::set<std::pair<int, int>> shapeOnly;
        for (const auto &e : shapeEdges) {
            shapeOnly.insert(ord(e.first, e.second));
        }
        std::vector<int> c0;
        p.tempBridge = components(n, shapeOnly, c0) != partsBefore;
    }
    std::vector<std::pair<int, int>> removedList;
    for (const auto &t : temps) {
        if (!t.keep) {
            p.ops.push_back({Op::REMOVE, t.a, t.b, src.flip(50)});
            if (cur.erase(ord(t.a, t.b)) > 0) {
                removedList.push_back(ord(t.a, t.b));
            }
        }
    }
    for (int k = 0; k < nRemove && !shapeEdges.empty(); ++k) {
        auto e = shapeEdges[src.below(shapeEdges.size())];
        p.ops.push_back({Op::REMOVE, e.first, e.second, src.flip(50)});
        if (cur.erase(ord(e.first, e.second)) > 0) {
            removedList.push_back(ord(e.first, e.second));
        }
    }
    if (p.removeAll) {
        int v = static_cast<int>(src.below(static_cast<uint64_t>(n)));
        p.ops.push_back({Op::REMOVE_ALL, v, v, false});
        for (auto it = cur.begin(); it != cur.end();) {
            if (it->first == v || it->second == v) {
                removedList.push_back(*it);
                it = cur.erase(it);
            } else {
                ++it;
            }
        }
    }
    if (p.readd && !removedList.empty()) {
        auto e = removedList[src.below(removedList.size())];
        // re-adding must keep a valid-mode model valid: only equivalences between different components
        if (!p.valid || p.compOf[static_cast<size_t>(e.first)] != p.compOf[static_cast<size_t>(e.second)]) {
            p.ops.push_back({Op::ADD, e.first, e.second, src.flip(50)});
            cur.insert(e);
        } else {
            p.readd = false;
        }
    } else {
        p.readd = false;
    }
    p.removedSomething = !removedList.empty();
    p.finalEdges = cur;
    p.nClasses = components(n, cur, p.classOf);
    p.removalSplit = p.nClasses > partsBefore;

    if (p.valid) {
        // In valid mode a final class must not have two variables in one component (a kept re-added temporary
        // equivalence or a bridge cannot exist here: temporaries are all removed, re-adds are subsets of shapes or
        // temporaries...). A re-added temporary could join two parts that share a component: undo it then.
        std::set<std::pair<int, int>> seen;
        bool clash = false;
        for (int v = 0; v < n; ++v) {
            clash = clash || !seen.insert({p.classOf[static_cast<size_t>(v)], p.compOf[static_cast<size_t>(v)]}).second;
        }
        if (clash && p.readd) {
            Op last = p.ops.back();
            p.ops.push_back({Op::REMOVE, last.a, last.b, false});
            cur.erase(ord(last.a, last.b));
            p.finalEdges = cur;
            p.nClasses = components(n, cur, p.classOf);
        }
    }

    // definitions: in valid mode exactly one variable of every final class is defined (initial value or equation)
    p.defKind.assign(static_cast<size_t>(n), 0);
    uint64_t defSeed = src.below(1u << 16);
    bool withMath = (defSeed & 1) != 0;
    int mathComp = static_cast<int>((defSeed >> 1) % static_cast<uint64_t>(p.nComps));
    p.defSeed = defSeed;
    if (p.valid) {
        p.defKind = validDefinitions(p, p.classOf, p.nClasses);
    } else {
        for (int v = 0; v < n; ++v) {
            uint64_t r = (defSeed + static_cast<uint64_t>(v) * 7) % 5;
            p.defKind[static_cast<size_t>(v)] = r == 0 ? 1 : (r == 1 && withMath && p.compOf[static_cast<size_t>(v)] == mathComp ? 2 : 0);
        }
    }
    return p;
}

std::string planText(const Plan &p)
{
    std::ostringstream o;
    o << "variables=" << p.nVars << " components=" << p.nComps << " mode=" << (p.valid ? "valid" : "free") << "\nparts:";
    for (const auto &part : p.parts) {
        o << " " << part.shape << "{";
        for (size_t i = 0; i < part.members.size(); ++i) {
            o << (i ? "," : "") << "v" << part.members[i];
        }
        o << "}";
    }
    o << "\ncomponent of variable:";
    for (int v = 0; v < p.nVars; ++v) {
        o << " v" << v << "@c" << p.compOf[static_cast<size_t>(v)];
    }
    o << "\nhistory:";
    for (const auto &op : p.ops) {
        int a = op.swap ? op.b : op.a;
        int b = op.swap ? op.a : op.b;
        if (op.kind == Op::ADD) {
            o << " +(v" << a << ",v" << b << ")";
        } else if (op.kind == Op::REMOVE) {
            o << " -(v" << a << ",v" << b << ")";
        } else {
            o << " v" << op.a << ".removeAllEquivalences()";
        }
    }
    o << "\nfinal equivalences:";
    for (const auto &e : p.finalEdges) {
        o << " v" << e.first << "~v" << e.second;
    }
    o << "\nfinal parts=" << p.nClasses << " defined:";
    for (int v = 0; v < p.nVars; ++v) {
        if (p.defKind[static_cast<size_t>(v)] != 0) {
            o << " v" << v << (p.defKind[static_cast<size_t>(v)] == 1 ? "(init)" : "(eqn)");
        }
    }
    return o.str();
}

struct Pass
{
    Affine order;
    uint64_t stride = 1, phase = 0; // the pass visits the indices with idx % stride == phase
    int funcs = 0; // 0 analyser model then variable, 1 variable then analyser model, 2 analyser model only, 3 alternate
    int model = 0; // which analyser model
    bool transposed = false;
};

std::string kindOf(bool expected, int dist, bool same)
{
    if (same) {
        return "same-variable";
    }
    if (expected) {
        return dist == 1 ? "false-negative:direct" : "false-negative:indirect";
    }
    return "false-positive";
}

void run(Src &src, Case &c)
{
    Plan p = genPlan(src);
    const int n = p.nVars;
    // query plan (read before anything is executed so that short tapes still give every phase)
    int nPasses = 2 + static_cast<int>(src.below(2));
    bool twoModels = src.flip(30);
    std::vector<Pass> passes;
    for (int k = 0; k < nPasses; ++k) {
        Pass ps;
        ps.order = genAffine(src, static_cast<uint64_t>(n) * static_cast<uint64_t>(n));
        ps.stride = k == 0 ? 1 : 1 + src.below(4);
        ps.phase = src.below(ps.stride);
        ps.funcs = static_cast<int>(src.below(4));
        ps.model = twoModels ? static_cast<int>(src.below(2)) : 0;
        ps.transposed = src.flip(50);
        passes.push_back(ps);
    }
    Affine preOrder = genAffine(src, static_cast<uint64_t>(n) * static_cast<uint64_t>(n));
    // history dimension (read last, so that tapes saved before it existed keep their meaning): the FIRST analyser is
    // reused for 1-3 further analyses, with edits of the equivalence graph / a freshly built model in between
    struct Round
    {
        int kind = 0; // 0 edit (toggle equivalences), 1 rewire (move one end of an equivalence), 2 fresh model after releasing the previous one, 3 unchanged
        std::vector<std::pair<int, int>> edits;
        Affine order;
        int funcs = 0;
    };
    static const char *roundNames[] = {"edit", "rewire", "fresh-model", "unchanged"};
    std::vector<Round> rounds(1 + src.below(3));
    for (auto &r : rounds) {
        r.kind = static_cast<int>(src.below(4));
        size_t nEdits = 1 + src.below(3);
        for (size_t e = 0; e < nEdits; ++e) {
            int x = static_cast<int>(src.below(static_cast<uint64_t>(n)));
            int y = static_cast<int>(src.below(static_cast<uint64_t>(n - 1)));
            r.edits.emplace_back(x, y >= x ? y + 1 : y);
        }
        r.order = genAffine(src, static_cast<uint64_t>(n) * static_cast<uint64_t>(n));
        r.funcs = static_cast<int>(src.below(3));
    }

    std::ostringstream text;
    text << planText(p) << "\nqueries:";
    for (const auto &ps : passes) {
        text << " pass{order=" << ps.order.str() << (ps.transposed ? "T" : "") << " every=" << ps.stride << "+" << ps.phase << " funcs=" << ps.funcs << " model=" << ps.model << "}";
    }
    text << " before-analysis order=" << preOrder.str() << "\nhistory (same Analyser re-used):";
    for (const auto &r : rounds) {
        text << " " << roundNames[r.kind] << "{";
        for (const auto &e : r.edits) {
            text << "(v" << e.first << ",v" << e.second << ")";
        }
        text << " order=" << r.order.str() << " funcs=" << r.funcs << "}";
    }
    c.text = text.str();
    c.hash = hashStr(c.text);
    c.weight = c.text.size();

    // ---- classes
    std::vector<int> classSize(static_cast<size_t>(p.nClasses), 0);
    for (int v = 0; v < n; ++v) {
        ++classSize[static_cast<size_t>(p.classOf[static_cast<size_t>(v)])];
    }
    int bigParts = 0, isolated = 0;
    for (int s : classSize) {
        bigParts += s >= 2 ? 1 : 0;
        isolated += s == 1 ? 1 : 0;
    }
    c.nontrivial = bigParts >= 2 && nPasses >= 2;
    for (const auto &part : p.parts) {
        c.cls("shape:" + part.shape);
    }
    c.cls(p.valid ? "mode=valid" : "mode=free");
    c.cls(n <= 5 ? "vars:2-5" : (n <= 15 ? "vars:6-15" : "vars:16-40"));
    c.cls(bigParts >= 2 ? "parts(size>=2)>=2" : "parts(size>=2)<2");
    if (isolated > 0) c.cls("isolated-variable");
    if (p.removedSomething) c.cls("equivalence-removed");
    if (p.removalSplit) c.cls("removal-splits-a-part");
    if (p.tempBridge) c.cls("temporary-bridge-between-parts");
    if (p.readd) c.cls("removed-then-re-added");
    if (p.removeAll) c.cls("removeAllEquivalences");
    if (twoModels) c.cls("two-analyser-models");
    c.cls("passes=" + std::to_string(nPasses));
    bool sameCompEdge = false;
    for (const auto &e : p.finalEdges) {
        sameCompEdge = sameCompEdge || p.compOf[static_cast<size_t>(e.first)] == p.compOf[static_cast<size_t>(e.second)];
    }
    if (sameCompEdge) c.cls("equivalence-within-one-component");

    // ---- build through the API
    ModelPtr model;
    std::vector<ComponentPtr> comps;
    std::vector<VariablePtr> vars;
    std::map<const Variable *, int> indexOf;
    // (Re)defines the variables of the current world: initial values and the math block of every component.
    auto applyDefinitions = [&](const std::vector<int> &defKind) {
        std::vector<std::string> mathOf(static_cast<size_t>(p.nComps));
        for (int v = 0; v < n; ++v) {
            const auto &var = vars[static_cast<size_t>(v)];
            int dk = defKind[static_cast<size_t>(v)];
            var->removeInitialValue();
            if (dk == 1) {
                var->setInitialValue(static_cast<double>(v + 1));
            } else if (dk == 2) {
                mathOf[static_cast<size_t>(p.compOf[static_cast<size_t>(v)])] += "<apply><eq/><ci>v" + std::to_string(v) + "</ci><cn cellml:units=\"dimensionless\">" + std::to_string(v + 1) + "</cn></apply>";
            }
        }
        for (int k = 0; k < p.nComps; ++k) {
            comps[static_cast<size_t>(k)]->removeMath();
            if (!mathOf[static_cast<size_t>(k)].empty()) {
                comps[static_cast<size_t>(k)]->setMath("<math xmlns=\"http://www.w3.org/1998/Math/MathML\" xmlns:cellml=\"http://www.cellml.org/cellml/2.0#\">" + mathOf[static_cast<size_t>(k)] + "</math>");
            }
        }
    };
    // Builds a fresh world (new objects; the previous one is released by the assignments) with the given equivalences.
    auto buildWorld = [&](const std::vector<int> &defKind, const std::set<std::pair<int, int>> &edges) {
        indexOf.clear();
        vars.clear();
        comps.clear();
        model = Model::create("m");
        for (int k = 0; k < p.nComps; ++k) {
            auto comp = Component::create("c" + std::to_string(k));
            model->addComponent(comp);
            comps.push_back(comp);
        }
        for (int v = 0; v < n; ++v) {
            auto var = Variable::create("v" + std::to_string(v));
            var->setUnits("dimensionless");
            var->setInterfaceType("public");
            comps[static_cast<size_t>(p.compOf[static_cast<size_t>(v)])]->addVariable(var);
            vars.push_back(var);
        }
        applyDefinitions(defKind);
        for (int v = 0; v < n; ++v) {
            indexOf[vars[static_cast<size_t>(v)].get()] = v;
        }
        for (const auto &e : edges) {
            Variable::addEquivalence(vars[static_cast<size_t>(e.first)], vars[static_cast<size_t>(e.second)]);
        }
    };
    buildWorld(p.defKind, {});

    // Reference answers for an edge set: reachability by the harness's union-find; adjacency lists read back through
    // equivalentVariable(i) must describe the same graph (otherwise the "chain of equivalences" is not well defined).
    auto checkAdjacency = [&](const std::set<std::pair<int, int>> &edges, const std::string &phase) -> bool {
        std::set<std::pair<int, int>> api;
        for (int v = 0; v < n; ++v) {
            const auto &var = vars[static_cast<size_t>(v)];
            for (size_t k = 0; k < var->equivalentVariableCount(); ++k) {
                auto w = var->equivalentVariable(k);
                auto it = w == nullptr ? indexOf.end() : indexOf.find(w.get());
                if (it == indexOf.end()) {
                    c.fail("C18.adjacency|" + phase + "|foreign-or-null-neighbour", "v" + std::to_string(v) + " lists a neighbour that is not a variable of the model");
                    return false;
                }
                api.insert({v, it->second});
            }
        }
        for (const auto &e : edges) {
            for (auto d : {std::make_pair(e.first, e.second), std::make_pair(e.second, e.first)}) {
                if (api.count(d) == 0) {
                    c.fail("C18.adjacency|" + phase + "|missing", "v" + std::to_string(d.first) + " does not list v" + std::to_string(d.second) + " although the equivalence was added and not removed");
                    return false;
                }
            }
        }
        for (const auto &d : api) {
            if (edges.count(ord(d.first, d.second)) == 0) {
                c.fail("C18.adjacency|" + phase + "|stale", "v" + std::to_string(d.first) + " lists v" + std::to_string(d.second) + " although that equivalence was removed or never added");
                return false;
            }
        }
        // BFS over the API lists agrees with the union-find by construction once the edge sets are equal.
        return true;
    };

    long queries = 0;
    auto checkHas = [&](const std::set<std::pair<int, int>> &edges, const std::vector<int> &cls, int i, int j, const std::string &phase) -> bool {
        if (i == j) {
            return true; // not judged (the statement makes the same-variable claim for the analyser model only)
        }
        bool expected = cls[static_cast<size_t>(i)] == cls[static_cast<size_t>(j)];
        bool got = vars[static_cast<size_t>(i)]->hasEquivalentVariable(vars[static_cast<size_t>(j)], true);
        ++queries;
        if (got != expected) {
            int d = distance(n, edges, i, j);
            std::ostringstream m;
            m << "v" << i << "->hasEquivalentVariable(v" << j << ", true) = " << got << ", expected " << expected << " (distance in the connection graph: " << d << ") in phase " << phase;
            c.fail("C18.has|" + phase + "|" + kindOf(expected, d, false), m.str());
            return false;
        }
        return true;
    };

    // ---- history of additions, then queries, then removals, then queries
    std::set<std::pair<int, int>> cur;
    bool afterAdds = false;
    size_t opIndex = 0;
    auto phaseQueries = [&](const std::string &phase) -> bool {
        std::vector<int> cls;
        components(n, cur, cls);
        if (!checkAdjacency(cur, phase)) {
            return false;
        }
        uint64_t total = static_cast<uint64_t>(n) * static_cast<uint64_t>(n);
        // large graphs: a strided sample of the pairs in the intermediate phase keeps the case cheap
        uint64_t step = phase == "built" && n > 20 ? 3 : 1;
        for (uint64_t q = 0; q < total; q += step) {
            uint64_t idx = preOrder.at(q);
            if (!checkHas(cur, cls, static_cast<int>(idx / static_cast<uint64_t>(n)), static_cast<int>(idx % static_cast<uint64_t>(n)), phase)) {
                return false;
            }
        }
        return true;
    };
    for (const auto &op : p.ops) {
        if (op.kind != Op::ADD && !afterAdds) {
            afterAdds = true;
            if (!phaseQueries("built")) {
                return;
            }
        }
        const auto &va = vars[static_cast<size_t>(op.swap ? op.b : op.a)];
        const auto &vb = vars[static_cast<size_t>(op.swap ? op.a : op.b)];
        if (op.kind == Op::ADD) {
            Variable::addEquivalence(va, vb);
            cur.insert(ord(op.a, op.b));
        } else if (op.kind == Op::REMOVE) {
            Variable::removeEquivalence(va, vb);
            cur.erase(ord(op.a, op.b));
        } else {
            vars[static_cast<size_t>(op.a)]->removeAllEquivalences();
            for (auto it = cur.begin(); it != cur.end();) {
                it = (it->first == op.a || it->second == op.a) ? cur.erase(it) : std::next(it);
            }
        }
        ++opIndex;
    }
    VP_CHECK(c, cur == p.finalEdges, "C18.harness|plan-replay", "the executed history does not end in the planned edge set");
    if (!phaseQueries(afterAdds ? "after-removal" : "built")) {
        return;
    }

    // ---- real analysis; the analyser model refers to the model as it is now (no edits from here on)
    std::vector<AnalyserPtr> analysers;
    std::vector<AnalyserModelPtr> ams;
    for (int k = 0; k < (twoModels ? 2 : 1); ++k) {
        auto analyser = Analyser::create();
        analyser->analyseModel(model);
        auto am = analyser->model();
        VP_CHECK(c, am != nullptr, "C18.harness|no-analyser-model", "Analyser::model() returned null after analyseModel()");
        analysers.push_back(analyser);
        ams.push_back(am);
    }
    bool analysedValid = ams[0]->isValid();
    c.cls(analysedValid ? "analysis=valid" : "analysis=invalid");
    if (p.valid && !analysedValid) {
        c.cls("valid-mode-but-analysis-invalid");
        c.count("valid_mode_analysis_invalid");
        if (getenv("C18_DEBUG") != nullptr) {
            fprintf(stderr, "valid-mode model not analysable:\n%s\n%s\n", c.text.c_str(), dumpIssues(analysers[0]).c_str());
        }
    }

    // handles obtained through the model (other shared_ptr instances of the same objects)
    std::vector<VariablePtr> handles;
    for (int v = 0; v < n; ++v) {
        handles.push_back(comps[static_cast<size_t>(p.compOf[static_cast<size_t>(v)])]->variable("v" + std::to_string(v)));
    }
    const auto &cls = p.classOf;
    std::set<std::pair<int, int>> asked; // (model, unordered pair) already asked -> "repeat"
    std::set<std::pair<int, std::pair<int, int>>> askedAm;
    uint64_t total = static_cast<uint64_t>(n) * static_cast<uint64_t>(n);
    long amQueries = 0, repeats = 0;
    for (size_t k = 0; k < passes.size(); ++k) {
        const Pass &ps = passes[k];
        for (uint64_t q = 0; q < total; ++q) {
            if (q % ps.stride != ps.phase) {
                continue;
            }
            uint64_t idx = ps.order.at(q);
            int i = static_cast<int>(idx / static_cast<uint64_t>(n));
            int j = static_cast<int>(idx % static_cast<uint64_t>(n));
            if (ps.transposed) {
                std::swap(i, j);
            }
            bool doAm = true, doHas = ps.funcs != 2, amFirst = ps.funcs == 0 || ps.funcs == 2 || (ps.funcs == 3 && q % 2 == 0);
            for (int step = 0; step < 2; ++step) {
                bool amNow = (step == 0) == amFirst;
                if (amNow && doAm) {
                    bool same = i == j;
                    bool expected = same || cls[static_cast<size_t>(i)] == cls[static_cast<size_t>(j)];
                    const auto &x = (q & 4) != 0 ? handles[static_cast<size_t>(i)] : vars[static_cast<size_t>(i)];
                    const auto &y = (q & 8) != 0 ? handles[static_cast<size_t>(j)] : vars[static_cast<size_t>(j)];
                    bool got = ams[static_cast<size_t>(ps.model)]->areEquivalentVariables(x, y);
                    ++amQueries;
                    bool repeat = !askedAm.insert({ps.model, ord(i, j)}).second;
                    repeats += repeat ? 1 : 0;
                    if (got != expected) {
                        int d = same ? 0 : distance(n, p.finalEdges, i, j);
                        std::ostringstream m;
                        m << "AnalyserModel::areEquivalentVariables(v" << i << ", v" << j << ") = " << got << ", expected " << expected << " (distance in the connection graph: " << d << "), "
                          << (repeat ? "pair asked before on this analyser model" : "first time this pair is asked") << ", pass " << k + 1 << ", analyser model " << ps.model << " (" << AnalyserModel::typeAsString(ams[static_cast<size_t>(ps.model)]->type()) << ")";
                        c.fail(std::string("C18.am|") + (repeat ? "repeat" : "first") + "|" + kindOf(expected, d, same), m.str());
                        return;
                    }
                } else if (!amNow && doHas) {
                    if (!checkHas(p.finalEdges, cls, i, j, "analysed")) {
                        return;
                    }
                }
            }
        }
    }
    // ---- history: the first Analyser is used again after the connection graph was edited (or for a freshly built
    // model). Every analysis must yield an analyser model that answers for the graph as it is at that analysis, and the
    // verdict (type, issues) must be that of a fresh Analyser on the same model.
    {
        AnalyserPtr reused = analysers[0];
        AnalyserModelPtr previous = ams[0];
        ams.clear(); // the harness keeps no old analyser model alive
        if (analysers.size() > 1) {
            analysers.pop_back();
        }
        std::set<std::pair<int, int>> edges = p.finalEdges;
        std::vector<int> defKind = p.defKind;
        std::vector<int> rcls = p.classOf;
        int rClasses = p.nClasses;
        auto admissible = [&](int x, int y) -> bool {
            if (x == y || edges.count(ord(x, y)) != 0) {
                return false;
            }
            if (!p.valid) {
                return true;
            }
            // valid mode: the merged class must not have two variables in one component
            std::set<int> used;
            for (int v = 0; v < n; ++v) {
                if (rcls[static_cast<size_t>(v)] == rcls[static_cast<size_t>(x)] || rcls[static_cast<size_t>(v)] == rcls[static_cast<size_t>(y)]) {
                    if (!used.insert(p.compOf[static_cast<size_t>(v)]).second) {
                        return false;
                    }
                }
            }
            return true;
        };
        long edited = 0;
        for (size_t r = 0; r < rounds.size(); ++r) {
            const Round &rd = rounds[r];
            const std::string rname = roundNames[rd.kind];
            c.cls("history:" + rname);
            bool live = rd.kind != 2; // kind 2 edits the specification only and then builds new objects
            auto add = [&](int x, int y) {
                edges.insert(ord(x, y));
                rClasses = components(n, edges, rcls);
                if (live) {
                    Variable::addEquivalence(vars[static_cast<size_t>(x)], vars[static_cast<size_t>(y)]);
                }
                ++edited;
            };
            auto remove = [&](int x, int y) {
                edges.erase(ord(x, y));
                rClasses = components(n, edges, rcls);
                if (live) {
                    Variable::removeEquivalence(vars[static_cast<size_t>(x)], vars[static_cast<size_t>(y)]);
                }
                ++edited;
            };
            auto addNear = [&](int x, int y, int avoid) -> bool {
                for (int dy = 0; dy < n; ++dy) {
                    int yy = (y + dy) % n;
                    if (yy != avoid && admissible(x, yy)) {
                        add(x, yy);
                        return true;
                    }
                }
                return false;
            };
            if (rd.kind != 3) {
                for (const auto &e : rd.edits) {
                    if (rd.kind == 1 && !edges.empty()) {
                        // move one end of an existing equivalence to another variable
                        auto it = edges.begin();
                        std::advance(it, static_cast<long>(static_cast<size_t>(e.first) % edges.size()));
                        int a = it->first, b = it->second;
                        remove(a, b);
                        addNear(a, e.second, b);
                    } else if (edges.count(ord(e.first, e.second)) != 0) {
                        remove(e.first, e.second);
                    } else if (!addNear(e.first, e.second, -1)) {
                        // nothing can be added at this variable: remove one of its equivalences instead, if any
                        for (const auto &ex : edges) {
                            if (ex.first == e.first || ex.second == e.first) {
                                remove(ex.first, ex.second);
                                break;
                            }
                        }
                    }
                }
                if (p.valid) {
                    defKind = validDefinitions(p, rcls, rClasses);
                }
                if (live) {
                    applyDefinitions(defKind);
                } else {
                    handles.clear();
                    buildWorld(defKind, edges);
                }
                handles.clear();
                for (int v = 0; v < n; ++v) {
                    handles.push_back(comps[static_cast<size_t>(p.compOf[static_cast<size_t>(v)])]->variable("v" + std::to_string(v)));
                }
            }
            if (!checkAdjacency(edges, "history")) {
                return;
            }
            reused->analyseModel(model);
            AnalyserModelPtr am = reused->model();
            auto fresh = Analyser::create();
            fresh->analyseModel(model);
            AnalyserModelPtr fam = fresh->model();
            VP_CHECK(c, am != nullptr && fam != nullptr, "C18.harness|no-analyser-model", "Analyser::model() returned null after analyseModel()");
            // When validation fails Analyser::analyseModel() keeps its previous AnalyserModel object (it belongs to the
            // earlier snapshot; DESIGN section 3 row 12, property C12): such a model is not judged against the new graph.
            bool replaced = am.get() != previous.get();
            if (!replaced) {
                c.cls("history:analyser-model-not-replaced");
                c.count("excluded:analyser-model-not-replaced");
            }
            if (p.valid && !am->isValid()) {
                c.count("valid_mode_analysis_invalid");
            }
            for (uint64_t q = 0; q < total; ++q) {
                uint64_t idx = rd.order.at(q);
                int i = static_cast<int>(idx / static_cast<uint64_t>(n));
                int j = static_cast<int>(idx % static_cast<uint64_t>(n));
                bool same = i == j;
                bool expected = same || rcls[static_cast<size_t>(i)] == rcls[static_cast<size_t>(j)];
                const auto &x = (q & 4) != 0 ? handles[static_cast<size_t>(i)] : vars[static_cast<size_t>(i)];
                const auto &y = (q & 8) != 0 ? handles[static_cast<size_t>(j)] : vars[static_cast<size_t>(j)];
                for (int which = 0; which < 2; ++which) {
                    bool useFresh = (which == 0) == (rd.funcs == 1);
                    if ((useFresh && rd.funcs == 2 && (q & 1) != 0) || (!useFresh && !replaced)) {
                        continue;
                    }
                    bool got = (useFresh ? fam : am)->areEquivalentVariables(x, y);
                    ++amQueries;
                    if (got != expected) {
                        int d = same ? 0 : distance(n, edges, i, j);
                        std::ostringstream m;
                        m << "analysis " << r + 2 << " (" << rname << "): AnalyserModel::areEquivalentVariables(v" << i << ", v" << j << ") of the " << (useFresh ? "fresh" : "re-used") << " Analyser's model = " << got << ", expected "
                          << expected << " (distance in the current connection graph: " << d << "); current equivalences:";
                        for (const auto &e : edges) {
                            m << " v" << e.first << "~v" << e.second;
                        }
                        c.fail(std::string("C18.am-history") + (useFresh ? "-fresh" : "") + "|" + rname + "|" + kindOf(expected, d, same), m.str());
                        return;
                    }
                }
                if (!checkHas(edges, rcls, i, j, "history")) {
                    return;
                }
            }
            // verdict of the re-used analyser == verdict of a fresh one (judged after the queries: the statement is about the answers)
            if (am->type() != fam->type()) {
                c.fail("C18.verdict|" + rname + "|type", "analysis " + std::to_string(r + 2) + " with the re-used Analyser gives type " + AnalyserModel::typeAsString(am->type()) + ", a fresh Analyser gives "
                                                             + AnalyserModel::typeAsString(fam->type()) + "\nre-used: " + dumpIssues(reused).substr(0, 1500) + "\nfresh: " + dumpIssues(fresh).substr(0, 1500));
                return;
            }
            {
                std::string i1 = dumpIssues(reused), i2 = dumpIssues(fresh);
                if (i1 != i2) {
                    c.fail("C18.verdict|" + rname + "|issues", "analysis " + std::to_string(r + 2) + ": issues of the re-used Analyser differ from those of a fresh Analyser\n" + firstDiff(i2, i1));
                    return;
                }
            }
            previous = am;
        }
        c.count("history:analyses", static_cast<long>(rounds.size()));
        c.count("history:edits", edited);
    }
    c.count("queries:hasEquivalentVariable", queries);
    c.count("queries:areEquivalentVariables", amQueries);
    c.count("queries:areEquivalentVariables-repeats", repeats);
    (void)opIndex;
}

} // namespace

namespace vp {
Property property = {
    "C18",
    "exploration",
    "rapidcheck tapes generate connection graphs over 2-40 variables in 1-8 components (parts shaped as chain, star, cycle, clique, tree, random, pair, isolated variable; temporary equivalences between any two variables; "
    "removals by removeEquivalence / removeAllEquivalences; re-additions) and build them through the API, either valid by construction (analysis succeeds) or free (equivalences inside one component, undefined variables). "
    "Every ordered pair is asked through Variable::hasEquivalentVariable(v,true) after the additions, after the removals and after the analysis, and through AnalyserModel::areEquivalentVariables of one or two analyser models "
    "in 2-3 passes with tape-chosen affine orders, strides, transposition and interleaving of the two functions. History: the first Analyser is then re-used for 1-3 further analyses, each after tape-chosen edits "
    "(toggle equivalences, move one end of an equivalence, build the edited graph afresh from new objects after releasing the old ones, or no edit; valid mode stays valid, definitions are re-assigned); after each analysis all ordered pairs are asked on the "
    "re-used Analyser's new model, on a fresh Analyser's model and through hasEquivalentVariable, and type and issues of the two analysers must be equal. Oracle: union-find reachability over the harness's own edge set, which must equal the adjacency read back through "
    "equivalentVariable(i). Domain 2 (props/C18_addr.cpp, plain build that owns operator new) places the Variable objects at constructed addresses. "
    "Non-trivial: the final graph has at least two connected parts of size >= 2 and there are at least two query passes (a pair is revisited after unrelated pairs); for domain 2 every address quadruple. Distinct = hash of the plan text.",
    run,
    nullptr,
    {"hasEquivalentVariable(v, true) of a variable with itself is not judged (the statement claims the same-variable case for the analyser model only)",
     "the analyser model is queried only while the model is unchanged since the analysis (the cache is documented to assume a static model)",
     "domain 1 runs with whatever addresses the ASan allocator hands out (freed blocks are quarantined, so a freshly built model does not recycle addresses there); constructed and recycled addresses are domain 2",
     "when validation fails Analyser::analyseModel() keeps its previous AnalyserModel object (C12 territory): that object is not judged against the edited graph, only counted"},
};
}

// VP-BUILD: standalone
// Triage tool (not a check): C06_tool <directory> [main file name] — parses <directory>/<main> (default main.cellml), resolves its
// imports from the files next to it, flattens, prints the flat model, validates it and analyses it. With the environment
// variable C06_TOOL_DUMP_LIBS set, prints the dump of every library model before and after flattenModel.
#include <libcellml>

#include <fstream>
#include <iostream>
#include <sstream>

#include "prop.h"
#include "spec.h"

namespace vp {
Property property = {"tool", "other", "", nullptr};
}

using namespace libcellml;

int main(int argc, char **argv)
{
    if (argc < 2) {
        std::cerr << "usage: C06_tool <directory> [main file]\n";
        return 2;
    }
    std::string dir = std::string(argv[1]) + "/";
    std::ifstream in(dir + (argc > 2 ? argv[2] : "main.cellml"));
    std::stringstream ss;
    ss << in.rdbuf();
    auto parser = Parser::create();
    auto model = parser->parseModel(ss.str());
    std::cout << "--- parser issues\n" << vp::dumpIssues(parser);
    auto importer = Importer::create();
    bool ok = importer->resolveImports(model, dir);
    std::cout << "--- resolveImports: " << (ok ? "true" : "false") << ", hasUnresolvedImports: " << (model->hasUnresolvedImports() ? "true" : "false") << "\n" << vp::dumpIssues(importer);
    for (int round = 0; round < 4 && model->hasUnresolvedImports(); ++round) {
        for (size_t i = 0; i < importer->libraryCount(); ++i) {
            auto lib = importer->library(i);
            if (lib->hasUnresolvedImports()) {
                std::string key = importer->key(i);
                importer->resolveImports(lib, key.substr(0, key.find_last_of('/') + 1));
                std::cout << "    (resolved library " << key << " explicitly)\n";
            }
        }
    }
    auto validator = Validator::create();
    validator->validateModel(model);
    std::cout << "--- validator on the importing model: " << validator->errorCount() << " errors\n" << vp::dumpIssues(validator);
    std::vector<std::string> before;
    for (size_t i = 0; i < importer->libraryCount(); ++i) {
        validator->validateModel(importer->library(i));
        std::cout << "--- validator on " << importer->key(i) << ": " << validator->errorCount() << " errors\n" << vp::dumpIssues(validator);
        before.push_back(vp::dumpModel(importer->library(i), vp::DUMP_ORDERED | vp::DUMP_RAW_MATH));
    }
    std::string mainBefore = vp::dumpModel(model, vp::DUMP_ORDERED | vp::DUMP_RAW_MATH);
    auto flat = importer->flattenModel(model);
    std::cout << "--- flattenModel: " << (flat == nullptr ? "null" : "model") << "\n" << vp::dumpIssues(importer);
    std::cout << "--- importing model " << (mainBefore == vp::dumpModel(model, vp::DUMP_ORDERED | vp::DUMP_RAW_MATH) ? "unchanged" : "CHANGED") << "\n";
    for (size_t i = 0; i < importer->libraryCount(); ++i) {
        std::string after = vp::dumpModel(importer->library(i), vp::DUMP_ORDERED | vp::DUMP_RAW_MATH);
        std::cout << "--- library " << importer->key(i) << " " << (after == before[i] ? "unchanged" : "CHANGED: " + vp::firstDiff(before[i], after)) << "\n";
    }
    if (flat == nullptr) {
        return 0;
    }
    std::cout << "--- flat model (hasImports: " << (flat->hasImports() ? "true" : "false") << ")\n" << Printer::create()->printModel(flat);
    validator->validateModel(flat);
    std::cout << "--- validator on the flat model: " << validator->errorCount() << " errors\n" << vp::dumpIssues(validator);
    auto analyser = Analyser::create();
    analyser->analyseModel(flat);
    std::cout << "--- analyser on the flat model: " << AnalyserModel::typeAsString(analyser->model()->type()) << "\n" << vp::dumpIssues(analyser);
    return 0;
}

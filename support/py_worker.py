#!/usr/bin/env python3
"""Persistent worker executing generated Python implementations for the C03/C17/C20 harnesses.

Protocol (line oriented, stdin/stdout):
  request:  RUN <path of a request file>
  request file lines:
     CODE <path of the generated module text>
     ODE 0|1
     EXT 0|1
     VOI <v0> <v1>
     STATES2 <values...>
     PRELOAD0 <idx> <value> ...      PRELOAD1 ...
     EXTVAL0 <idx> <value> ...       EXTVAL1 ...
     STALE 0|1                       (optional; 1 = stale-order protocol of RunPlan::staleOrder: at the second point
                                      compute_rates(point 2), compute_rates(point 1), then compute_variables(point 2))
     RESOLVE <idx> ...               (optional; stale order: variables pre-loaded with a sentinel before that
                                      compute_variables call; nla_solve replaces a sentinel by the PRELOAD1 value)
     POISON 0|1                      (optional; 1 = external entries are set to NaN before the first method and after
                                      the arrays have been reported following each method)
  Callback invocations are reported as  XC <point> <index> <stage> <voi> | <states> | <variables>
  (stage 0 = initialise_variables, 1 = compute_rates, 2 = compute_variables).
  response: lines KEY values..., terminated by END. ERROR <text> on failure (still followed by END).
"""
import math
import sys
import types


def fmt(a):
    return " ".join(repr(float(x)) for x in a)


def pairs(tokens):
    return [(int(tokens[i]), float(tokens[i + 1])) for i in range(0, len(tokens) - 1, 2)]


def run(reqfile, out):
    req = {}
    for line in open(reqfile):
        parts = line.rstrip("\n").split(" ")
        req[parts[0]] = parts[1:]
    code = open(req["CODE"][0]).read()
    ode = req["ODE"][0] == "1"
    ext = req["EXT"][0] == "1"
    voi = [float(x) for x in req["VOI"]]
    states2 = [float(x) for x in req.get("STATES2", []) if x != ""]
    preload = [pairs(req.get("PRELOAD0", [])), pairs(req.get("PRELOAD1", []))]
    extval = [dict(pairs(req.get("EXTVAL0", []))), dict(pairs(req.get("EXTVAL1", [])))]
    poison = ext and req.get("POISON", ["0"])[0] == "1"
    stale = ode and req.get("STALE", ["0"])[0] == "1"
    resolve = [int(x) for x in req.get("RESOLVE", []) if x != ""] if stale else []
    resolving = [False]

    def sentinel(k):
        return -float(k + 1) * 1.0e150
    stat = {"resid": 0.0, "calls": 0}

    def nla_solve(objective_function, u, n, data):
        f = [math.nan] * n
        if resolving[0]:
            sol = dict(preload[1])
            for i in range(n):
                for k in resolve:
                    if u[i] == sentinel(k):
                        u[i] = sol.get(k, math.nan)
        objective_function(u, f, data)
        stat["calls"] += 1
        for v in f:
            if not (abs(v) <= stat["resid"]):
                stat["resid"] = math.inf if math.isnan(v) else max(stat["resid"], abs(v))
        return u

    mod = types.ModuleType("nlasolver")
    mod.nla_solve = nla_solve
    sys.modules["nlasolver"] = mod
    ns = {"__name__": "generated_model"}
    exec(compile(code, "model.py", "exec"), ns)

    point = [0]
    stage = [0]
    trace = []

    def poison_externals(variables):
        if poison:
            for i in extval[0]:
                variables[i] = math.nan

    def external_variable(*args):
        index = args[-1]
        variables = args[-2]
        trace.append("%d:%d" % (point[0], index))
        st = args[1] if len(args) == 5 else []
        voi_seen = float(args[0]) if len(args) == 5 else math.nan
        out.write("XC %d %d %d %r | %s | %s\n" % (point[0], index, stage[0], voi_seen, fmt(st), fmt(variables)))
        return extval[point[0]].get(index, math.nan)

    def info_line(tag, e):
        out.write("%s %s|%s|%s|%s\n" % (tag, e["name"], e["units"], e["component"], e["type"].name))

    if "STATE_COUNT" in ns:
        out.write("STATE_COUNT %d\n" % ns["STATE_COUNT"])
    out.write("VARIABLE_COUNT %d\n" % ns["VARIABLE_COUNT"])
    if "VOI_INFO" in ns:
        info_line("VOI_INFO", ns["VOI_INFO"])
    for e in ns.get("STATE_INFO", []):
        info_line("STATE_INFO", e)
    for e in ns["VARIABLE_INFO"]:
        info_line("VARIABLE_INFO", e)
    variables = ns["create_variables_array"]()
    poison_externals(variables)
    if ode:
        states = ns["create_states_array"]()
        rates = ns["create_states_array"]()
        if ext:
            ns["initialise_variables"](voi[0], states, rates, variables, external_variable)
        else:
            ns["initialise_variables"](states, rates, variables)
        out.write("INIT_STATES " + fmt(states) + "\n")
        states0 = list(states)
    else:
        if ext:
            ns["initialise_variables"](variables, external_variable)
        else:
            ns["initialise_variables"](variables)
    out.write("INIT_VARS " + fmt(variables) + "\n")
    poison_externals(variables)
    for i, v in preload[0]:
        variables[i] = v
    ns["compute_computed_constants"](variables)
    out.write("CC_VARS " + fmt(variables) + "\n")
    for p in (0, 1):
        point[0] = p
        if p == 1:
            if ode:
                for i, v in enumerate(states2):
                    states[i] = v
            for i, v in preload[1]:
                variables[i] = v
        if ode:
            stage[0] = 1
            if ext:
                ns["compute_rates"](voi[p], states, rates, variables, external_variable)
            else:
                ns["compute_rates"](voi[p], states, rates, variables)
            out.write("RATES%d " % p + fmt(rates) + "\n")
            out.write("VARSR%d " % p + fmt(variables) + "\n")
            poison_externals(variables)
            if stale and p == 1:
                rates_saved = list(rates)
                for i, v in enumerate(states0):
                    states[i] = v
                for i, v in preload[0]:
                    variables[i] = v
                point[0] = 0
                stage[0] = 1
                if ext:
                    ns["compute_rates"](voi[0], states, rates, variables, external_variable)
                else:
                    ns["compute_rates"](voi[0], states, rates, variables)
                poison_externals(variables)
                point[0] = 1
                for i, v in enumerate(rates_saved):
                    rates[i] = v
                for i, v in enumerate(states2):
                    states[i] = v
                for i, v in preload[1]:
                    variables[i] = sentinel(i) if i in resolve else v
                resolving[0] = True
            stage[0] = 2
            if ext:
                ns["compute_variables"](voi[p], states, rates, variables, external_variable)
            else:
                ns["compute_variables"](voi[p], states, rates, variables)
            out.write("STATES%d " % p + fmt(states) + "\n")
        else:
            stage[0] = 2
            if ext:
                ns["compute_variables"](variables, external_variable)
            else:
                ns["compute_variables"](variables)
        out.write("VARS%d " % p + fmt(variables) + "\n")
        poison_externals(variables)
    out.write("RESID %r %d\n" % (stat["resid"], stat["calls"]))
    out.write("EXTCALLS " + " ".join(trace) + "\n")


def main():
    out = sys.stdout
    for line in sys.stdin:
        line = line.strip()
        if not line.startswith("RUN "):
            continue
        try:
            run(line[4:], out)
        except BaseException as e:  # noqa: BLE001 - the harness wants every failure reported, not a dead worker
            out.write("ERROR %s: %s\n" % (type(e).__name__, str(e).replace("\n", " ")))
        out.write("END\n")
        out.flush()


if __name__ == "__main__":
    main()

// C05: model-with-truth representation, generator extensions, metamorphic transformations, constraint variants.
#include "c05_model.h"

#include <algorithm>
#include <functional>
#include <map>
#include <sstream>

namespace vp {
namespace c05 {

namespace {

template<class T>
void shuffleVec(Src &src, std::vector<T> &v)
{
    for (size_t i = v.size(); i > 1; --i) {
        std::swap(v[i - 1], v[src.below(i)]);
    }
}

std::vector<size_t> randomPerm(Src &src, size_t n)
{
    std::vector<size_t> p(n);
    for (size_t i = 0; i < n; ++i) {
        p[i] = i;
    }
    shuffleVec(src, p);
    return p;
}

template<class T>
std::vector<T> permuted(const std::vector<T> &v, const std::vector<size_t> &perm)
{
    std::vector<T> r;
    r.reserve(v.size());
    for (size_t k : perm) {
        r.push_back(v[k]);
    }
    return r;
}

void renameCi(Expr &e, const std::map<std::string, std::string> &names)
{
    if (e.op == Op::CI) {
        auto it = names.find(e.name);
        if (it != names.end()) {
            e.name = it->second;
        }
    }
    for (auto &k : e.kids) {
        renameCi(k, names);
    }
}

void renameCnUnits(Expr &e, const std::map<std::string, std::string> &names)
{
    if (e.op == Op::CN || e.op == Op::CNE) {
        auto it = names.find(e.units);
        if (it != names.end()) {
            e.units = it->second;
        }
    }
    for (auto &k : e.kids) {
        renameCnUnits(k, names);
    }
}

std::vector<size_t> randomBlocks(Src &src, size_t n)
{
    std::vector<size_t> b;
    if (n == 0) {
        return b;
    }
    size_t want = 1 + src.below(std::min<size_t>(n, 3));
    size_t left = n;
    for (size_t i = 0; i + 1 < want && left > 1; ++i) {
        size_t take = 1 + src.below(left - 1);
        b.push_back(take);
        left -= take;
    }
    b.push_back(left);
    return b;
}

Expr lit(const std::string &t)
{
    Expr e = Expr::cn(strtod(t.c_str(), nullptr), "dimensionless", t);
    return e;
}

std::string freshName(const CompSpec &c, const std::string &stem)
{
    std::string n = stem;
    int k = 0;
    auto used = [&](const std::string &x) {
        for (const auto &v : c.vars) {
            if (v.name == x) {
                return true;
            }
        }
        return false;
    };
    while (used(n)) {
        n = stem + "_" + std::to_string(++k);
    }
    return n;
}

} // namespace

// ------------------------------------------------------------------------------------------------ TM

int TM::instanceIn(int cls, size_t comp) const
{
    for (size_t v = 0; v < classOf[comp].size(); ++v) {
        if (classOf[comp][v] == cls) {
            return static_cast<int>(v);
        }
    }
    return -1;
}

int TM::homeComp(int cls) const
{
    for (size_t ci = 0; ci < eqs.size(); ++ci) {
        for (const auto &e : eqs[ci]) {
            if (e.defines == cls) {
                return static_cast<int>(ci);
            }
            if (e.system >= 0 && classes[static_cast<size_t>(cls)].system == e.system) {
                return static_cast<int>(ci);
            }
        }
    }
    return -1;
}

std::vector<size_t> TM::compsWith(int cls) const
{
    std::vector<size_t> r;
    for (size_t ci = 0; ci < classOf.size(); ++ci) {
        if (instanceIn(cls, ci) >= 0) {
            r.push_back(ci);
        }
    }
    return r;
}

std::vector<bool> TM::dependsOn(int target) const
{
    std::vector<bool> r(classes.size(), false);
    r[static_cast<size_t>(target)] = true;
    // NLA unknowns of one system depend on everything any of them reads
    bool changed = true;
    while (changed) {
        changed = false;
        for (size_t k = 0; k < classes.size(); ++k) {
            if (r[k]) {
                continue;
            }
            bool hit = false;
            for (int d : classes[k].deps) {
                hit = hit || r[static_cast<size_t>(d)];
            }
            if (!hit && classes[k].system >= 0) {
                for (int u : systems[static_cast<size_t>(classes[k].system)]) {
                    hit = hit || r[static_cast<size_t>(u)];
                }
            }
            if (hit) {
                r[k] = true;
                changed = true;
            }
        }
    }
    return r;
}

size_t TM::equationCount() const
{
    size_t n = 0;
    for (const auto &e : eqs) {
        n += e.size();
    }
    return n;
}

std::string TM::describe() const
{
    std::ostringstream o;
    o << "expected type: " << type << "\n";
    for (size_t k = 0; k < classes.size(); ++k) {
        const auto &c = classes[k];
        o << "class " << k << " " << gtRoleName(c.role) << (c.loose ? " (computed_constant or algebraic)" : "") << (c.guess ? " guess" : "") << (c.reader ? " reader" : "") << " :";
        for (size_t ci = 0; ci < classOf.size(); ++ci) {
            int v = instanceIn(static_cast<int>(k), ci);
            if (v >= 0) {
                o << " " << spec.comps[ci].name << "." << spec.comps[ci].vars[static_cast<size_t>(v)].name << (spec.comps[ci].vars[static_cast<size_t>(v)].initial.empty() ? "" : "=" + spec.comps[ci].vars[static_cast<size_t>(v)].initial);
            }
        }
        o << "\n";
    }
    for (size_t ci = 0; ci < eqs.size(); ++ci) {
        for (const auto &e : eqs[ci]) {
            o << "eq " << spec.comps[ci].name << ": " << (e.raw.empty() ? exprToSexp(e.lhs) + " = " + exprToSexp(e.rhs) : std::string("<raw second-order ODE>"));
            if (e.defines >= 0) {
                o << "   [defines class " << e.defines << "]";
            } else if (e.system >= 0) {
                o << "   [NLA system " << e.system << "]";
            }
            o << "\n";
        }
    }
    return o.str();
}

void rebuildMath(TM &m)
{
    for (size_t ci = 0; ci < m.spec.comps.size(); ++ci) {
        auto &c = m.spec.comps[ci];
        c.math.clear();
        c.equations.clear();
        const auto &E = m.eqs[ci];
        if (E.empty()) {
            continue;
        }
        std::vector<size_t> blocks = m.blocks[ci];
        size_t sum = 0;
        for (size_t b : blocks) {
            sum += b;
        }
        if (blocks.empty() || sum != E.size()) {
            blocks = {E.size()};
        }
        size_t pos = 0;
        int layout = 0;
        for (size_t bsz : blocks) {
            std::string content;
            for (size_t k = pos; k < pos + bsz; ++k) {
                if (!E[k].raw.empty()) {
                    content += E[k].raw;
                } else {
                    content += "<apply><eq/>" + exprToMathml(E[k].lhs) + exprToMathml(E[k].rhs) + "</apply>";
                    c.equations.emplace_back(E[k].lhs, E[k].rhs);
                }
            }
            if (m.commentSeed != 0) {
                // serialisation dimension: comments before the operator of an apply, inside ci, between equations
                uint32_t lcg = m.commentSeed * 2654435761u + static_cast<uint32_t>(ci * 977u + pos * 131u);
                auto inject = [&](const std::string &at, const std::string &with, unsigned oneIn) {
                    std::string out;
                    size_t from = 0;
                    for (size_t f = content.find(at); f != std::string::npos; f = content.find(at, from)) {
                        out += content.substr(from, f - from) + at;
                        lcg = lcg * 1664525u + 1013904223u;
                        if ((lcg >> 16) % oneIn == 0) {
                            out += with;
                        }
                        from = f + at.size();
                    }
                    content = out + content.substr(from);
                };
                inject("<apply>", "<!-- op -->", 3);
                inject("<ci>", "<!--v-->", 4);
                inject("</apply>", "<!-- end -->", 6);
            }
            c.math.push_back(mathBlockRaw(content, layout++));
            pos += bsz;
        }
    }
}

bool fromGt(const GtModel &gt, TM &m, std::string &problem)
{
    m = TM();
    m.spec = gt.spec;
    m.type = gt.expectedType;
    m.voi = gt.voi;
    size_t nc = gt.spec.comps.size();
    m.eqs.resize(nc);
    m.blocks.resize(nc);
    m.classOf.resize(nc);
    m.origin.resize(nc);
    int id = 0;
    for (size_t ci = 0; ci < nc; ++ci) {
        m.classOf[ci].assign(gt.spec.comps[ci].vars.size(), -1);
        for (size_t v = 0; v < gt.spec.comps[ci].vars.size(); ++v) {
            m.origin[ci].push_back(id++);
        }
    }
    m.systems.resize(gt.nla.size());
    for (size_t k = 0; k < gt.classes.size(); ++k) {
        const GtClass &g = gt.classes[k];
        TClass t;
        t.role = g.role;
        t.deps = g.deps;
        t.system = g.nlaSystem;
        t.initByName = g.initialisedBy >= 0;
        const auto &hv = gt.spec.comps[static_cast<size_t>(g.inst[0].comp)].vars[static_cast<size_t>(g.inst[0].var)];
        if (g.role == GtRole::NLA) {
            t.guess = !hv.initial.empty();
            t.loose = !g.varying && !t.guess;
            m.systems[static_cast<size_t>(g.nlaSystem)].push_back(static_cast<int>(k));
        }
        m.classes.push_back(t);
        for (const auto &in : g.inst) {
            int &slot = m.classOf[static_cast<size_t>(in.comp)][static_cast<size_t>(in.var)];
            if (slot != -1) {
                problem = "two classes claim one variable";
                return false;
            }
            slot = static_cast<int>(k);
        }
    }
    for (size_t k = 0; k < gt.classes.size(); ++k) {
        if (gt.classes[k].initialisedBy >= 0) {
            m.classes[static_cast<size_t>(gt.classes[k].initialisedBy)].initialises = true;
        }
    }
    for (size_t ci = 0; ci < nc; ++ci) {
        for (size_t v = 0; v < m.classOf[ci].size(); ++v) {
            if (m.classOf[ci][v] < 0) {
                problem = "variable " + gt.spec.comps[ci].name + "." + gt.spec.comps[ci].vars[v].name + " belongs to no class";
                return false;
            }
        }
    }
    // relate every equation of the spec to what it defines
    auto nameOf = [&](int cls, int inst) -> const std::string & {
        const auto &in = gt.classes[static_cast<size_t>(cls)].inst[static_cast<size_t>(inst)];
        return gt.spec.comps[static_cast<size_t>(in.comp)].vars[static_cast<size_t>(in.var)].name;
    };
    std::vector<bool> usedClass(gt.classes.size(), false);
    std::vector<std::vector<bool>> usedNla(gt.nla.size());
    for (size_t s = 0; s < gt.nla.size(); ++s) {
        usedNla[s].assign(gt.nla[s].equations.size(), false);
    }
    for (size_t ci = 0; ci < nc; ++ci) {
        for (const auto &pe : gt.spec.comps[ci].equations) {
            Eq e;
            e.lhs = pe.first;
            e.rhs = pe.second;
            std::string a = exprToSexp(pe.first), b = exprToSexp(pe.second);
            bool found = false;
            for (size_t k = 0; k < gt.classes.size() && !found; ++k) {
                const GtClass &g = gt.classes[k];
                if (usedClass[k] || g.inst[0].comp != static_cast<int>(ci)) {
                    continue;
                }
                std::string L;
                if (g.role == GtRole::COMPUTED_CONSTANT || g.role == GtRole::ALGEBRAIC) {
                    L = exprToSexp(Expr::ci(nameOf(static_cast<int>(k), 0)));
                } else if (g.role == GtRole::STATE) {
                    L = exprToSexp(Expr::make(Op::DIFF, {Expr::ci(nameOf(gt.voi, g.voiLocalInst)), Expr::ci(nameOf(static_cast<int>(k), 0))}));
                } else {
                    continue;
                }
                std::string R = exprToSexp(g.rhs);
                if ((a == L && b == R) || (a == R && b == L)) {
                    e.defines = static_cast<int>(k);
                    usedClass[k] = true;
                    found = true;
                }
            }
            for (size_t s = 0; s < gt.nla.size() && !found; ++s) {
                if (gt.nla[s].comp != static_cast<int>(ci)) {
                    continue;
                }
                for (size_t q = 0; q < gt.nla[s].equations.size() && !found; ++q) {
                    if (usedNla[s][q]) {
                        continue;
                    }
                    std::string L = exprToSexp(gt.nla[s].equations[q].first), R = exprToSexp(gt.nla[s].equations[q].second);
                    if ((a == L && b == R) || (a == R && b == L)) {
                        e.system = static_cast<int>(s);
                        usedNla[s][q] = true;
                        found = true;
                    }
                }
            }
            if (!found) {
                problem = "equation " + a + " = " + b + " of component " + gt.spec.comps[ci].name + " could not be related to the ground truth";
                return false;
            }
            m.eqs[ci].push_back(e);
        }
    }
    for (size_t k = 0; k < gt.classes.size(); ++k) {
        GtRole r = gt.classes[k].role;
        if ((r == GtRole::COMPUTED_CONSTANT || r == GtRole::ALGEBRAIC || r == GtRole::STATE) && !usedClass[k]) {
            problem = "class " + std::to_string(k) + " has no defining equation in the spec";
            return false;
        }
    }
    rebuildMath(m);
    return true;
}

// ------------------------------------------------------------------------------------------------ generator extensions

bool moveInitialValues(TM &m, Src &src)
{
    bool moved = false;
    for (size_t k = 0; k < m.classes.size(); ++k) {
        const TClass &t = m.classes[k];
        bool eligible = (t.role == GtRole::CONSTANT && !t.initialises) || (t.role == GtRole::STATE && !t.initByName) || (t.role == GtRole::NLA && t.guess);
        if (!eligible) {
            continue;
        }
        auto where = m.compsWith(static_cast<int>(k));
        if (where.size() < 2 || !src.flip(70)) {
            continue;
        }
        size_t from = where.size();
        for (size_t i = 0; i < where.size(); ++i) {
            int v = m.instanceIn(static_cast<int>(k), where[i]);
            if (!m.spec.comps[where[i]].vars[static_cast<size_t>(v)].initial.empty()) {
                from = i;
            }
        }
        if (from == where.size()) {
            continue;
        }
        size_t to = src.below(where.size());
        if (to == from) {
            to = (to + 1) % where.size();
        }
        auto &vf = m.spec.comps[where[from]].vars[static_cast<size_t>(m.instanceIn(static_cast<int>(k), where[from]))];
        auto &vt = m.spec.comps[where[to]].vars[static_cast<size_t>(m.instanceIn(static_cast<int>(k), where[to]))];
        vt.initial = vf.initial;
        vf.initial.clear();
        moved = true;
    }
    return moved;
}

bool addNlaReaders(TM &m, Src &src)
{
    if (m.systems.empty()) {
        return false;
    }
    size_t s = src.below(m.systems.size());
    int u = m.systems[s][src.below(m.systems[s].size())];
    int comp = m.homeComp(u);
    if (comp < 0) {
        return false;
    }
    size_t ci = static_cast<size_t>(comp);
    size_t chain = 1 + src.below(3);
    int prev = u;
    for (size_t i = 0; i < chain; ++i) {
        TClass t;
        t.role = GtRole::ALGEBRAIC;
        t.reader = true;
        t.loose = m.classes[static_cast<size_t>(u)].loose; // follows the unknown: see checkTruth's coherence rule
        t.deps = {prev};
        VarSpec v;
        v.name = freshName(m.spec.comps[ci], i == 0 ? "ra" : (i == 1 ? "rb" : "rc"));
        v.units = "dimensionless";
        m.spec.comps[ci].vars.push_back(v);
        int cls = static_cast<int>(m.classes.size());
        m.classes.push_back(t);
        m.classOf[ci].push_back(cls);
        int maxId = -1;
        for (const auto &o : m.origin) {
            for (int x : o) {
                maxId = std::max(maxId, x);
            }
        }
        m.origin[ci].push_back(maxId + 1);
        Eq e;
        e.defines = cls;
        e.lhs = Expr::ci(v.name);
        int pv = m.instanceIn(prev, ci);
        Expr p = Expr::ci(m.spec.comps[ci].vars[static_cast<size_t>(pv)].name);
        e.rhs = src.flip(50) ? Expr::make(Op::PLUS, {p, lit("1.5")}) : Expr::make(Op::TIMES, {lit("2"), p});
        if (src.flip(30)) {
            std::swap(e.lhs, e.rhs);
        }
        size_t pos = src.below(m.eqs[ci].size() + 1);
        m.eqs[ci].insert(m.eqs[ci].begin() + static_cast<long>(pos), e);
        prev = cls;
    }
    m.blocks[ci].clear();
    return true;
}

// ------------------------------------------------------------------------------------------------ explorer shapes

const char *shapeName(int sh)
{
    switch (sh) {
    case S_RATE_READER: return "rate-reader";
    case S_DOWNSTREAM_NLA: return "downstream-nla";
    case S_SPARSE_NLA: return "sparse-nla-system";
    case S_MIXED_GUESS_NLA: return "mixed-guess-nla-system";
    case S_SELF_REFERENCE: return "self-reference";
    }
    return "none";
}

namespace {

int addClassVar(TM &m, size_t ci, const std::string &stem, const TClass &t, const std::string &initial)
{
    VarSpec v;
    v.name = freshName(m.spec.comps[ci], stem);
    v.units = "dimensionless";
    v.initial = initial;
    m.spec.comps[ci].vars.push_back(v);
    int cls = static_cast<int>(m.classes.size());
    m.classes.push_back(t);
    m.classes.back().added = true;
    m.classOf[ci].push_back(cls);
    int maxId = -1;
    for (const auto &o : m.origin) {
        for (int x : o) {
            maxId = std::max(maxId, x);
        }
    }
    m.origin[ci].push_back(maxId + 1);
    return cls;
}

Expr localCi(const TM &m, int cls, size_t ci)
{
    return Expr::ci(m.spec.comps[ci].vars[static_cast<size_t>(m.instanceIn(cls, ci))].name);
}

void insertEq(TM &m, size_t ci, Eq e, Src &src)
{
    if (e.raw.empty() && src.flip(30)) {
        std::swap(e.lhs, e.rhs);
    }
    m.eqs[ci].insert(m.eqs[ci].begin() + static_cast<long>(src.below(m.eqs[ci].size() + 1)), e);
    m.blocks[ci].clear();
}

void nowHasNla(TM &m)
{
    if (m.type == "ode") {
        m.type = "dae";
    } else if (m.type == "algebraic") {
        m.type = "nla";
    }
}

bool constantLike(const TClass &t)
{
    return t.role == GtRole::CONSTANT || t.role == GtRole::COMPUTED_CONSTANT || ((t.role == GtRole::NLA || t.reader) && t.loose);
}

} // namespace

bool addShape(TM &m, int shape, Src &src)
{
    switch (shape) {
    case S_RATE_READER: {
        // xr = ds/dt for an existing state s, and a new state whose ODE uses xr
        std::vector<std::pair<size_t, size_t>> odes;
        for (size_t ci = 0; ci < m.eqs.size(); ++ci) {
            for (size_t k = 0; k < m.eqs[ci].size(); ++k) {
                const Eq &e = m.eqs[ci][k];
                if (e.defines >= 0 && m.classes[static_cast<size_t>(e.defines)].role == GtRole::STATE && e.raw.empty()) {
                    odes.emplace_back(ci, k);
                }
            }
        }
        if (odes.empty()) {
            return false;
        }
        auto at = src.pick(odes);
        size_t ci = at.first;
        const Eq ode = m.eqs[ci][at.second];
        Expr diff = ode.lhs.op == Op::DIFF ? ode.lhs : ode.rhs;
        TClass t;
        t.role = GtRole::ALGEBRAIC;
        t.deps = {ode.defines};
        int xr = addClassVar(m, ci, "xr", t, "");
        Eq e;
        e.defines = xr;
        e.lhs = localCi(m, xr, ci);
        e.rhs = src.flip(50) ? diff : Expr::make(Op::TIMES, {lit("2"), diff});
        insertEq(m, ci, e, src);
        if (!src.flip(30)) {
            TClass ts;
            ts.role = GtRole::STATE;
            ts.deps = {xr};
            int q = addClassVar(m, ci, "qr", ts, "0.5");
            Eq o;
            o.defines = q;
            o.lhs = Expr::make(Op::DIFF, {diff.kids[0], localCi(m, q, ci)});
            o.rhs = Expr::make(Op::PLUS, {localCi(m, xr, ci), lit("1.5")});
            insertEq(m, ci, o, src);
        }
        break;
    }
    case S_DOWNSTREAM_NLA: {
        // cc (no guess) solved from 2 cc + sin(cc) = r, r preferably another NLA unknown or a state; a = cc + 1.5
        std::vector<int> pref, any;
        for (size_t k = 0; k < m.classes.size(); ++k) {
            if (m.classes[k].role == GtRole::VOI) {
                continue;
            }
            any.push_back(static_cast<int>(k));
            if (m.classes[k].role == GtRole::NLA || m.classes[k].role == GtRole::STATE || m.classes[k].reader) {
                pref.push_back(static_cast<int>(k));
            }
        }
        if (any.empty()) {
            return false;
        }
        int r = !pref.empty() && !src.flip(20) ? src.pick(pref) : src.pick(any);
        auto where = m.compsWith(r);
        int home = m.homeComp(r);
        size_t ci = home >= 0 ? static_cast<size_t>(home) : src.pick(where);
        TClass t;
        t.role = GtRole::NLA;
        t.deps = {r};
        t.loose = constantLike(m.classes[static_cast<size_t>(r)]);
        t.system = static_cast<int>(m.systems.size());
        int cc = addClassVar(m, ci, "cc", t, "");
        m.systems.push_back({cc});
        Eq e;
        e.system = t.system;
        e.lhs = Expr::make(Op::PLUS, {Expr::make(Op::TIMES, {lit("2"), localCi(m, cc, ci)}), Expr::make(Op::SIN, {localCi(m, cc, ci)})});
        e.rhs = src.flip(50) ? localCi(m, r, ci) : Expr::make(Op::PLUS, {localCi(m, r, ci), lit("0.5")});
        insertEq(m, ci, e, src);
        TClass ta;
        ta.role = GtRole::ALGEBRAIC;
        ta.reader = true;
        ta.loose = t.loose;
        ta.deps = {cc};
        int a = addClassVar(m, ci, "ca", ta, "");
        Eq ea;
        ea.defines = a;
        ea.lhs = localCi(m, a, ci);
        ea.rhs = Expr::make(Op::PLUS, {localCi(m, cc, ci), lit("1.5")});
        insertEq(m, ci, ea, src);
        nowHasNla(m);
        break;
    }
    case S_SPARSE_NLA:
    case S_MIXED_GUESS_NLA: {
        size_t ci = src.below(m.spec.comps.size());
        int sys = static_cast<int>(m.systems.size());
        bool mixed = shape == S_MIXED_GUESS_NLA;
        TClass t;
        t.role = GtRole::NLA;
        t.system = sys;
        t.guess = !mixed;
        t.loose = mixed; // the unguessed unknown of a mixed system has constant inputs only
        int x = addClassVar(m, ci, "sx", t, mixed ? "" : "1");
        t.guess = true;
        t.loose = false;
        int y = addClassVar(m, ci, "sy", t, "0.5");
        int z = addClassVar(m, ci, "sz", t, "1");
        m.systems.push_back({x, y, z});
        Expr X = localCi(m, x, ci), Y = localCi(m, y, ci), Z = localCi(m, z, ci);
        std::vector<Eq> es(3);
        if (!mixed) {
            es[0].lhs = Expr::make(Op::PLUS, {X, Y});
            es[0].rhs = lit("3");
            es[1].lhs = Expr::make(Op::PLUS, {Y, Z});
            es[1].rhs = lit("5");
            es[2].lhs = Expr::make(Op::PLUS, {Z, X});
            es[2].rhs = lit("4");
        } else {
            es[0].lhs = Expr::make(Op::PLUS, {X, Y, Z});
            es[0].rhs = lit("3");
            es[1].lhs = Expr::make(Op::TIMES, {X, Y});
            es[1].rhs = lit("2");
            es[2].lhs = Expr::make(Op::TIMES, {Y, Z});
            es[2].rhs = lit("1");
        }
        for (auto &e : es) {
            e.system = sys;
            insertEq(m, ci, e, src);
        }
        nowHasNla(m);
        break;
    }
    case S_SELF_REFERENCE: {
        // xs = 2 xs - 3: the unknown stands alone on one side AND occurs on the other: an implicit equation
        size_t ci = src.below(m.spec.comps.size());
        TClass t;
        t.role = GtRole::NLA;
        t.loose = true;
        t.system = static_cast<int>(m.systems.size());
        int xs = addClassVar(m, ci, "xs", t, "");
        m.systems.push_back({xs});
        Eq e;
        e.system = t.system;
        e.lhs = localCi(m, xs, ci);
        e.rhs = Expr::make(Op::MINUS, {Expr::make(Op::TIMES, {lit("2"), localCi(m, xs, ci)}), lit("3")});
        insertEq(m, ci, e, src);
        nowHasNla(m);
        break;
    }
    default:
        return false;
    }
    m.shape = shapeName(shape);
    return true;
}

// ------------------------------------------------------------------------------------------------ transformations

const char *transformName(int t)
{
    switch (t) {
    case T_PERMUTE_COMPONENTS: return "permute-components";
    case T_PERMUTE_VARIABLES: return "permute-variables";
    case T_PERMUTE_EQUATIONS: return "permute-equations";
    case T_REVERSE_CONNECTIONS: return "reverse-connections";
    case T_SWAP_SIDES: return "swap-sides";
    case T_RENAME_COMPONENTS: return "rename-components";
    case T_RENAME_UNITS: return "rename-units";
    case T_RENAME_VARIABLES: return "rename-variables";
    case T_COMMENTS: return "comments-in-math";
    }
    return "?";
}

namespace {

void applyVariableNames(TM &m, const std::vector<std::vector<std::string>> &newNames)
{
    for (size_t ci = 0; ci < m.spec.comps.size(); ++ci) {
        auto &c = m.spec.comps[ci];
        std::map<std::string, std::string> mp;
        for (size_t v = 0; v < c.vars.size(); ++v) {
            mp[c.vars[v].name] = newNames[ci][v];
        }
        for (size_t v = 0; v < c.vars.size(); ++v) {
            auto it = mp.find(c.vars[v].initial);
            if (!c.vars[v].initial.empty() && it != mp.end()) {
                c.vars[v].initial = it->second;
            }
        }
        for (size_t v = 0; v < c.vars.size(); ++v) {
            c.vars[v].name = newNames[ci][v];
        }
        for (auto &e : m.eqs[ci]) {
            renameCi(e.lhs, mp);
            renameCi(e.rhs, mp);
        }
    }
}

void permuteComponents(TM &m, Src &src)
{
    size_t n = m.spec.comps.size();
    auto perm = randomPerm(src, n);
    std::vector<int> inv(n);
    for (size_t k = 0; k < n; ++k) {
        inv[perm[k]] = static_cast<int>(k);
    }
    m.spec.comps = permuted(m.spec.comps, perm);
    for (auto &c : m.spec.comps) {
        if (c.parent >= 0) {
            c.parent = inv[static_cast<size_t>(c.parent)];
        }
    }
    m.eqs = permuted(m.eqs, perm);
    m.blocks = permuted(m.blocks, perm);
    m.classOf = permuted(m.classOf, perm);
    m.origin = permuted(m.origin, perm);
    for (auto &cn : m.spec.conns) {
        cn.c1 = inv[static_cast<size_t>(cn.c1)];
        cn.c2 = inv[static_cast<size_t>(cn.c2)];
    }
}

void permuteVariables(TM &m, Src &src)
{
    for (size_t ci = 0; ci < m.spec.comps.size(); ++ci) {
        size_t n = m.spec.comps[ci].vars.size();
        if (n < 2) {
            continue;
        }
        auto perm = randomPerm(src, n);
        std::vector<int> inv(n);
        for (size_t k = 0; k < n; ++k) {
            inv[perm[k]] = static_cast<int>(k);
        }
        m.spec.comps[ci].vars = permuted(m.spec.comps[ci].vars, perm);
        m.classOf[ci] = permuted(m.classOf[ci], perm);
        m.origin[ci] = permuted(m.origin[ci], perm);
        for (auto &cn : m.spec.conns) {
            for (auto &mp : cn.maps) {
                if (cn.c1 == static_cast<int>(ci)) {
                    mp.v1 = inv[static_cast<size_t>(mp.v1)];
                }
                if (cn.c2 == static_cast<int>(ci)) {
                    mp.v2 = inv[static_cast<size_t>(mp.v2)];
                }
            }
        }
    }
}

void permuteEquations(TM &m, Src &src)
{
    for (size_t ci = 0; ci < m.eqs.size(); ++ci) {
        shuffleVec(src, m.eqs[ci]);
        m.blocks[ci] = randomBlocks(src, m.eqs[ci].size());
    }
}

void reverseConnections(TM &m, Src &src)
{
    for (auto &cn : m.spec.conns) {
        if (!src.flip(40)) {
            std::swap(cn.c1, cn.c2);
            for (auto &mp : cn.maps) {
                std::swap(mp.v1, mp.v2);
            }
        }
        shuffleVec(src, cn.maps);
    }
    shuffleVec(src, m.spec.conns);
}

void swapSides(TM &m, Src &src)
{
    for (auto &ce : m.eqs) {
        for (auto &e : ce) {
            if (e.raw.empty() && !src.flip(40)) {
                std::swap(e.lhs, e.rhs);
            }
        }
    }
}

void renameComponents(TM &m, Src &src)
{
    size_t n = m.spec.comps.size();
    if (n > 1 && src.flip(50)) {
        // the same names, handed out in another order
        std::vector<std::string> names;
        for (const auto &c : m.spec.comps) {
            names.push_back(c.name);
        }
        std::rotate(names.begin(), names.begin() + 1 + static_cast<long>(src.below(n - 1)), names.end());
        for (size_t i = 0; i < n; ++i) {
            m.spec.comps[i].name = names[i];
        }
        return;
    }
    static const std::vector<std::string> stems = {"zeta", "Alpha", "_c", "m", "comp"};
    const std::string &stem = src.pick(stems);
    auto perm = randomPerm(src, n);
    for (size_t i = 0; i < n; ++i) {
        m.spec.comps[i].name = stem + std::to_string(perm[i]);
    }
}

void renameUnits(TM &m, Src &src)
{
    std::map<std::string, std::string> mp;
    auto perm = randomPerm(src, m.spec.units.size());
    for (size_t i = 0; i < m.spec.units.size(); ++i) {
        mp[m.spec.units[i].name] = "uu" + std::to_string(perm[i]) + "_renamed";
    }
    for (auto &u : m.spec.units) {
        u.name = mp[u.name];
        for (auto &c : u.units) {
            auto it = mp.find(c.ref);
            if (it != mp.end()) {
                c.ref = it->second;
            }
        }
    }
    for (size_t ci = 0; ci < m.spec.comps.size(); ++ci) {
        for (auto &v : m.spec.comps[ci].vars) {
            auto it = mp.find(v.units);
            if (it != mp.end()) {
                v.units = it->second;
            }
        }
        for (auto &e : m.eqs[ci]) {
            renameCnUnits(e.lhs, mp);
            renameCnUnits(e.rhs, mp);
        }
    }
}

void renameVariables(TM &m, Src &src, unsigned scheme)
{
    size_t nc = m.spec.comps.size();
    std::vector<std::vector<std::string>> nn(nc);
    size_t maxVars = 0;
    for (size_t ci = 0; ci < nc; ++ci) {
        maxVars = std::max(maxVars, m.spec.comps[ci].vars.size());
    }
    switch (scheme % 5) {
    case 0:
        for (size_t ci = 0; ci < nc; ++ci) {
            for (size_t v = 0; v < m.spec.comps[ci].vars.size(); ++v) {
                nn[ci].push_back(m.classOf[ci][v] >= 0 ? "v" + std::to_string(m.classOf[ci][v]) : "free" + std::to_string(v));
            }
        }
        break;
    case 1:
        for (size_t ci = 0; ci < nc; ++ci) {
            for (size_t v = 0; v < m.spec.comps[ci].vars.size(); ++v) {
                nn[ci].push_back("w" + std::to_string(m.classOf[ci][v] + 1) + "_" + std::to_string(ci) + (src.flip(30) ? "_x" : ""));
            }
        }
        break;
    case 2: {
        // a small pool shared by all components: instances of one class mostly get different names, and the name of one
        // class's instance here is frequently the name of another class's instance elsewhere
        std::vector<std::string> pool;
        for (size_t i = 0; i < maxVars + 1; ++i) {
            pool.push_back(std::string(1, static_cast<char>('a' + static_cast<char>(i % 26))) + (i >= 26 ? std::to_string(i / 26) : ""));
        }
        for (size_t ci = 0; ci < nc; ++ci) {
            auto p = pool;
            shuffleVec(src, p);
            for (size_t v = 0; v < m.spec.comps[ci].vars.size(); ++v) {
                nn[ci].push_back(p[v]);
            }
        }
        break;
    }
    case 3:
        for (size_t ci = 0; ci < nc; ++ci) {
            std::vector<std::string> names;
            for (const auto &v : m.spec.comps[ci].vars) {
                names.push_back(v.name);
            }
            shuffleVec(src, names);
            nn[ci] = names;
        }
        break;
    default: {
        // targeted: for some classes that are defined in one component and have members elsewhere, every member outside the
        // defining component gets a name that an UNRELATED variable of the defining component carries too (names are unique per
        // component only), while the member in the defining component keeps a name of its own
        for (size_t ci = 0; ci < nc; ++ci) {
            for (const auto &v : m.spec.comps[ci].vars) {
                nn[ci].push_back(v.name);
            }
        }
        auto usedIn = [&](size_t ci, const std::string &n) {
            return std::find(nn[ci].begin(), nn[ci].end(), n) != nn[ci].end();
        };
        std::vector<bool> taken; // per (component, variable) of a defining component: already lent its name
        std::vector<std::vector<bool>> lent(nc);
        for (size_t ci = 0; ci < nc; ++ci) {
            lent[ci].assign(nn[ci].size(), false);
        }
        int serial = 0;
        for (size_t k = 0; k < m.classes.size(); ++k) {
            int home = m.homeComp(static_cast<int>(k));
            auto where = m.compsWith(static_cast<int>(k));
            if (home < 0 || where.size() < 2 || src.flip(25)) {
                continue;
            }
            size_t q = static_cast<size_t>(home);
            // an unrelated variable of the defining component that has not lent its name yet
            std::vector<size_t> cand;
            for (size_t v = 0; v < nn[q].size(); ++v) {
                if (m.classOf[q][v] != static_cast<int>(k) && !lent[q][v]) {
                    cand.push_back(v);
                }
            }
            if (cand.empty()) {
                continue;
            }
            size_t z = src.pick(cand);
            std::string shared = "n" + std::to_string(serial++) + (src.flip(50) ? "_shared" : "");
            bool free = !usedIn(q, shared);
            for (size_t ci : where) {
                free = free && (ci == q || !usedIn(ci, shared));
            }
            if (!free) {
                continue;
            }
            nn[q][z] = shared;
            lent[q][z] = true;
            for (size_t ci : where) {
                if (ci != q) {
                    size_t v = static_cast<size_t>(m.instanceIn(static_cast<int>(k), ci));
                    nn[ci][v] = shared;
                    lent[ci][v] = true;
                }
            }
            int hv = m.instanceIn(static_cast<int>(k), q);
            if (hv >= 0) {
                lent[q][static_cast<size_t>(hv)] = true;
            }
        }
        (void)taken;
        break;
    }
    }
    applyVariableNames(m, nn);
}

} // namespace

void renameVariablesUniform(TM &m)
{
    std::vector<std::vector<std::string>> nn(m.spec.comps.size());
    for (size_t ci = 0; ci < m.spec.comps.size(); ++ci) {
        for (size_t v = 0; v < m.spec.comps[ci].vars.size(); ++v) {
            nn[ci].push_back(m.classOf[ci][v] >= 0 ? "v" + std::to_string(m.classOf[ci][v]) : "free" + std::to_string(v) + "_" + m.spec.comps[ci].vars[v].name);
        }
    }
    applyVariableNames(m, nn);
    rebuildMath(m);
}

void applyTransform(TM &m, int t, Src &src, unsigned renameScheme)
{
    switch (t) {
    case T_PERMUTE_COMPONENTS: permuteComponents(m, src); break;
    case T_PERMUTE_VARIABLES: permuteVariables(m, src); break;
    case T_PERMUTE_EQUATIONS: permuteEquations(m, src); break;
    case T_REVERSE_CONNECTIONS: reverseConnections(m, src); break;
    case T_SWAP_SIDES: swapSides(m, src); break;
    case T_RENAME_COMPONENTS: renameComponents(m, src); break;
    case T_RENAME_UNITS: renameUnits(m, src); break;
    case T_RENAME_VARIABLES: renameVariables(m, src, renameScheme); break;
    case T_COMMENTS: m.commentSeed = m.commentSeed != 0 ? 0 : 1 + static_cast<unsigned>(src.below(1000)); break;
    default: break;
    }
    rebuildMath(m);
}

// ------------------------------------------------------------------------------------------------ constraint variants

const char *variantName(int v)
{
    switch (v) {
    case V_DROP_EQUATION: return "drop-equation";
    case V_DROP_CONSTANT_INITIAL: return "drop-constant-initial-value";
    case V_STATE_WITHOUT_INITIAL: return "state-without-initial-value";
    case V_SECOND_DEFINITION: return "second-definition";
    case V_UNSUITABLE: return "drop-and-second-definition";
    case V_SECOND_VOI: return "second-voi";
    case V_INITIALISED_VOI: return "initialised-voi";
    case V_SECOND_ORDER: return "second-order-ode";
    case V_UNUSED_VARIABLE: return "unused-variable";
    case V_EXTRA_NLA_EQUATION: return "extra-nla-equation";
    case V_COUPLED_RATES: return "coupled-rates";
    }
    return "?";
}

namespace {

bool hasGuessSystem(const TM &m)
{
    for (const auto &c : m.classes) {
        if (c.role == GtRole::NLA && c.guess) {
            return true;
        }
    }
    return false;
}

// classes whose loss makes the model under-constrained whatever the order of the equations:
// directly defined classes (and single unknowns without a guess) that no NLA system with initial guesses reads, because such
// a system, having no unknown of its own left in the analyser's eyes, would simply be solved for the orphaned variable
std::vector<int> droppable(const TM &m)
{
    std::vector<int> r;
    for (size_t k = 0; k < m.classes.size(); ++k) {
        const TClass &t = m.classes[k];
        bool direct = t.role == GtRole::COMPUTED_CONSTANT || t.role == GtRole::ALGEBRAIC;
        bool single = t.role == GtRole::NLA && !t.guess && m.systems[static_cast<size_t>(t.system)].size() == 1;
        if ((!direct && !single) || t.added) {
            continue;
        }
        bool readByGuessSystem = false;
        if (hasGuessSystem(m)) {
            auto dep = m.dependsOn(static_cast<int>(k));
            for (size_t q = 0; q < m.classes.size(); ++q) {
                if (q != k && dep[q] && m.classes[q].role == GtRole::NLA && m.classes[q].guess) {
                    readByGuessSystem = true;
                }
            }
        }
        if (!readByGuessSystem) {
            r.push_back(static_cast<int>(k));
        }
    }
    return r;
}

std::vector<int> droppableConstants(const TM &m)
{
    std::vector<int> r;
    for (size_t k = 0; k < m.classes.size(); ++k) {
        const TClass &t = m.classes[k];
        if (t.role != GtRole::CONSTANT || t.initialises || t.added) {
            continue;
        }
        bool readByGuessSystem = false;
        if (hasGuessSystem(m)) {
            auto dep = m.dependsOn(static_cast<int>(k));
            for (size_t q = 0; q < m.classes.size(); ++q) {
                if (q != k && dep[q] && m.classes[q].role == GtRole::NLA && m.classes[q].guess) {
                    readByGuessSystem = true;
                }
            }
        }
        if (!readByGuessSystem) {
            r.push_back(static_cast<int>(k));
        }
    }
    return r;
}

// classes that can be given a second definition with an unambiguous outcome: defined by a direct equation or an ODE whose
// other side is not a bare variable (such an equation can be read the other way round) and reads no initialised non-state
// variable (the analyser would solve the now redundant equation for that variable, taking its initial value as a guess)
std::vector<int> redefinable(const TM &m)
{
    std::vector<int> r;
    for (size_t ci = 0; ci < m.eqs.size(); ++ci) {
        for (const auto &e : m.eqs[ci]) {
            if (e.defines < 0 || !e.raw.empty()) {
                continue;
            }
            const TClass &t = m.classes[static_cast<size_t>(e.defines)];
            if (t.reader || t.added) {
                continue;
            }
            if (e.lhs.op == Op::CI && e.rhs.op == Op::CI) {
                continue;
            }
            if ((e.lhs.op == Op::DIFF && e.rhs.op == Op::CI) || (e.rhs.op == Op::DIFF && e.lhs.op == Op::CI)) {
                continue;
            }
            bool bad = false;
            for (int d : t.deps) {
                GtRole dr = m.classes[static_cast<size_t>(d)].role;
                bad = bad || dr == GtRole::CONSTANT || dr == GtRole::NLA;
            }
            if (!bad) {
                r.push_back(e.defines);
            }
        }
    }
    return r;
}

void dropDefinition(TM &m, int cls)
{
    for (size_t ci = 0; ci < m.eqs.size(); ++ci) {
        auto &E = m.eqs[ci];
        for (size_t k = 0; k < E.size();) {
            bool mine = E[k].defines == cls || (E[k].system >= 0 && m.classes[static_cast<size_t>(cls)].system == E[k].system);
            if (mine) {
                E.erase(E.begin() + static_cast<long>(k));
                m.blocks[ci].clear();
            } else {
                ++k;
            }
        }
    }
}

void dropInitial(TM &m, int cls)
{
    for (size_t ci = 0; ci < m.classOf.size(); ++ci) {
        int v = m.instanceIn(cls, ci);
        if (v >= 0) {
            m.spec.comps[ci].vars[static_cast<size_t>(v)].initial.clear();
        }
    }
}

void addSecondDefinition(TM &m, int cls, Src &src, int mention = -1)
{
    for (size_t ci = 0; ci < m.eqs.size(); ++ci) {
        auto &E = m.eqs[ci];
        for (size_t k = 0; k < E.size(); ++k) {
            if (E[k].defines != cls) {
                continue;
            }
            Eq e;
            e.defines = cls;
            bool lhsIsTarget = (E[k].lhs.op == Op::CI && m.classes[static_cast<size_t>(cls)].role != GtRole::STATE) || E[k].lhs.op == Op::DIFF;
            e.lhs = lhsIsTarget ? E[k].lhs : E[k].rhs;
            e.rhs = lit(src.flip(50) ? "3" : "0.25");
            if (mention >= 0 && m.instanceIn(mention, ci) >= 0) {
                // the second definition reads the given class too, so that whichever of the two definitions ends up redundant
                // mentions it
                e.rhs = Expr::make(Op::PLUS, {localCi(m, mention, ci), e.rhs});
            }
            if (src.flip(30)) {
                std::swap(e.lhs, e.rhs);
            }
            size_t pos = src.below(E.size() + 1);
            E.insert(E.begin() + static_cast<long>(pos), e);
            m.blocks[ci].clear();
            return;
        }
    }
}

} // namespace

bool applyVariant(TM &m, int v, Src &src, std::string &expectedType, std::string &what)
{
    switch (v) {
    case V_DROP_EQUATION: {
        auto c = droppable(m);
        if (c.empty()) {
            return false;
        }
        int cls = src.pick(c);
        dropDefinition(m, cls);
        expectedType = "underconstrained";
        what = "dropped the definition of class " + std::to_string(cls);
        break;
    }
    case V_DROP_CONSTANT_INITIAL: {
        auto c = droppableConstants(m);
        if (c.empty()) {
            return false;
        }
        int cls = src.pick(c);
        dropInitial(m, cls);
        expectedType = "underconstrained";
        what = "dropped the initial value of constant class " + std::to_string(cls);
        break;
    }
    case V_STATE_WITHOUT_INITIAL: {
        std::vector<int> c;
        for (size_t k = 0; k < m.classes.size(); ++k) {
            if (m.classes[k].role == GtRole::STATE) {
                c.push_back(static_cast<int>(k));
            }
        }
        if (c.empty()) {
            return false;
        }
        int cls = src.pick(c);
        dropInitial(m, cls);
        expectedType = "underconstrained";
        what = "dropped the initial value of state class " + std::to_string(cls);
        break;
    }
    case V_SECOND_DEFINITION: {
        auto c = redefinable(m);
        if (c.empty()) {
            return false;
        }
        int cls = src.pick(c);
        addSecondDefinition(m, cls, src);
        expectedType = "overconstrained";
        what = "added a second definition of class " + std::to_string(cls);
        break;
    }
    case V_UNSUITABLE: {
        auto over = redefinable(m);
        if (over.empty()) {
            return false;
        }
        int x = src.pick(over);
        // something to lose that x does not depend on (otherwise the redundant equation could be solved for it)
        std::vector<std::pair<int, int>> lose; // (kind, class)
        for (int y : droppable(m)) {
            if (y != x && !m.dependsOn(y)[static_cast<size_t>(x)]) {
                lose.emplace_back(0, y);
            }
        }
        for (int y : droppableConstants(m)) {
            if (!m.dependsOn(y)[static_cast<size_t>(x)]) {
                lose.emplace_back(1, y);
            }
        }
        for (size_t k = 0; k < m.classes.size(); ++k) {
            // a state that is not initialised is still a state: the redundant equation may read it (it must then not be blamed
            // instead of being reported as not initialised)
            if (m.classes[k].role == GtRole::STATE && static_cast<int>(k) != x) {
                lose.emplace_back(2, static_cast<int>(k));
            }
        }
        if (lose.empty()) {
            return false;
        }
        // preferably a state the redefined class reads directly: the redundant equation then mentions a variable that is
        // under-constrained itself
        std::vector<std::pair<int, int>> direct;
        for (const auto &cand : lose) {
            const auto &dx = m.classes[static_cast<size_t>(x)].deps;
            if (cand.first == 2 && std::find(dx.begin(), dx.end(), cand.second) != dx.end()) {
                direct.push_back(cand);
            }
        }
        bool useDirect = !direct.empty() && !src.flip(25);
        auto l = useDirect ? src.pick(direct) : src.pick(lose);
        addSecondDefinition(m, x, src, useDirect ? l.second : -1);
        if (l.first == 0) {
            dropDefinition(m, l.second);
        } else {
            dropInitial(m, l.second);
        }
        expectedType = "unsuitably_constrained";
        what = "added a second definition of class " + std::to_string(x) + " and dropped the " + (l.first == 0 ? "definition" : "initial value") + " of class " + std::to_string(l.second);
        break;
    }
    case V_SECOND_VOI: {
        size_t ci = src.below(m.spec.comps.size());
        auto &c = m.spec.comps[ci];
        size_t n = m.voi >= 0 ? 1 : 2;
        for (size_t i = 0; i < n; ++i) {
            VarSpec s, z;
            s.name = freshName(c, "tau");
            s.units = "second";
            c.vars.push_back(s);
            z.name = freshName(c, "zz");
            z.units = "dimensionless";
            z.initial = "1";
            c.vars.push_back(z);
            m.classOf[ci].push_back(-1);
            m.classOf[ci].push_back(-1);
            m.origin[ci].push_back(-1);
            m.origin[ci].push_back(-1);
            Eq e;
            e.lhs = Expr::make(Op::DIFF, {Expr::ci(s.name), Expr::ci(z.name)});
            e.rhs = lit("1");
            size_t pos = src.below(m.eqs[ci].size() + 1);
            m.eqs[ci].insert(m.eqs[ci].begin() + static_cast<long>(pos), e);
        }
        m.blocks[ci].clear();
        expectedType = "invalid";
        what = "added an ODE with respect to another variable of integration";
        break;
    }
    case V_INITIALISED_VOI: {
        if (m.voi < 0) {
            return false;
        }
        auto where = m.compsWith(m.voi);
        size_t ci = src.pick(where);
        m.spec.comps[ci].vars[static_cast<size_t>(m.instanceIn(m.voi, ci))].initial = "0";
        expectedType = "invalid";
        what = "gave the variable of integration an initial value in component " + m.spec.comps[ci].name;
        break;
    }
    case V_SECOND_ORDER: {
        std::vector<std::pair<size_t, size_t>> odes;
        for (size_t ci = 0; ci < m.eqs.size(); ++ci) {
            for (size_t k = 0; k < m.eqs[ci].size(); ++k) {
                if (m.eqs[ci][k].lhs.op == Op::DIFF || m.eqs[ci][k].rhs.op == Op::DIFF) {
                    odes.emplace_back(ci, k);
                }
            }
        }
        if (odes.empty()) {
            return false;
        }
        auto at = src.pick(odes);
        Eq &e = m.eqs[at.first][at.second];
        bool left = e.lhs.op == Op::DIFF;
        const Expr &d = left ? e.lhs : e.rhs;
        const Expr &o = left ? e.rhs : e.lhs;
        std::string degree = src.flip(50) ? "2" : "3";
        std::string diff = "<apply><diff/><bvar>" + exprToMathml(d.kids[0]) + "<degree><cn cellml:units=\"dimensionless\">" + degree + "</cn></degree></bvar>" + exprToMathml(d.kids[1]) + "</apply>";
        e.raw = "<apply><eq/>" + (left ? diff + exprToMathml(o) : exprToMathml(o) + diff) + "</apply>";
        expectedType = "invalid";
        what = "made the ODE of class " + std::to_string(e.defines) + " an ODE of order " + degree;
        break;
    }
    case V_UNUSED_VARIABLE: {
        size_t ci = src.below(m.spec.comps.size());
        auto &c = m.spec.comps[ci];
        VarSpec q;
        q.name = freshName(c, "unused");
        q.units = "dimensionless";
        size_t pos = src.below(c.vars.size() + 1);
        // appended or inserted: inserting shifts the indices the connections use
        if (pos == c.vars.size()) {
            c.vars.push_back(q);
            m.classOf[ci].push_back(-1);
            m.origin[ci].push_back(-1);
        } else {
            c.vars.insert(c.vars.begin() + static_cast<long>(pos), q);
            m.classOf[ci].insert(m.classOf[ci].begin() + static_cast<long>(pos), -1);
            m.origin[ci].insert(m.origin[ci].begin() + static_cast<long>(pos), -1);
            for (auto &cn : m.spec.conns) {
                for (auto &mp : cn.maps) {
                    if (cn.c1 == static_cast<int>(ci) && mp.v1 >= static_cast<int>(pos)) {
                        ++mp.v1;
                    }
                    if (cn.c2 == static_cast<int>(ci) && mp.v2 >= static_cast<int>(pos)) {
                        ++mp.v2;
                    }
                }
            }
        }
        expectedType = "underconstrained";
        what = "added a variable that no equation mentions to component " + c.name;
        break;
    }
    case V_EXTRA_NLA_EQUATION: {
        // one equation more than unknowns in a system whose unknowns all carry an initial guess (the extra equation mentions
        // nothing but the unknowns, so it cannot be read as defining anything else)
        std::vector<size_t> sys;
        for (size_t k = 0; k < m.systems.size(); ++k) {
            bool all = !m.systems[k].empty();
            for (int u : m.systems[k]) {
                all = all && m.classes[static_cast<size_t>(u)].guess;
            }
            if (all && m.homeComp(m.systems[k][0]) >= 0) {
                sys.push_back(k);
            }
        }
        if (sys.empty()) {
            return false;
        }
        size_t k = src.pick(sys);
        size_t ci = static_cast<size_t>(m.homeComp(m.systems[k][0]));
        std::vector<Expr> terms;
        int coef = 3;
        for (int u : m.systems[k]) {
            int v = m.instanceIn(u, ci);
            if (v < 0 || (!terms.empty() && src.flip(30))) {
                continue;
            }
            terms.push_back(Expr::make(Op::TIMES, {lit(std::to_string(coef)), Expr::ci(m.spec.comps[ci].vars[static_cast<size_t>(v)].name)}));
            coef += 4;
        }
        if (terms.empty()) {
            return false;
        }
        terms.push_back(lit("0.5"));
        Eq e;
        e.system = static_cast<int>(k);
        e.lhs = Expr::make(Op::PLUS, terms);
        e.rhs = lit("7");
        if (src.flip(30)) {
            std::swap(e.lhs, e.rhs);
        }
        size_t pos = src.below(m.eqs[ci].size() + 1);
        m.eqs[ci].insert(m.eqs[ci].begin() + static_cast<long>(pos), e);
        m.blocks[ci].clear();
        expectedType = "overconstrained";
        what = "added one more implicit equation to NLA system " + std::to_string(k) + " than it has unknowns";
        break;
    }
    case V_COUPLED_RATES: {
        // two new states whose rates only occur together: dp/dt + dq/dt = 1, dp/dt - dq/dt = 0.5
        if (m.voi < 0) {
            return false;
        }
        auto where = m.compsWith(m.voi);
        size_t ci = src.pick(where);
        auto &c = m.spec.comps[ci];
        std::string t = c.vars[static_cast<size_t>(m.instanceIn(m.voi, ci))].name;
        VarSpec p, q;
        p.name = freshName(c, "cp");
        p.units = "dimensionless";
        p.initial = "0";
        c.vars.push_back(p);
        q.name = freshName(c, "cq");
        q.units = "dimensionless";
        q.initial = "1";
        c.vars.push_back(q);
        for (int i = 0; i < 2; ++i) {
            m.classOf[ci].push_back(-1);
            m.origin[ci].push_back(-1);
        }
        Expr dp = Expr::make(Op::DIFF, {Expr::ci(t), Expr::ci(p.name)}), dq = Expr::make(Op::DIFF, {Expr::ci(t), Expr::ci(q.name)});
        Eq e1, e2;
        e1.lhs = Expr::make(Op::PLUS, {dp, dq});
        e1.rhs = lit("1");
        e2.lhs = Expr::make(Op::MINUS, {dp, dq});
        e2.rhs = lit("0.5");
        if (src.flip(30)) {
            std::swap(e2.lhs, e2.rhs);
        }
        m.eqs[ci].insert(m.eqs[ci].begin() + static_cast<long>(src.below(m.eqs[ci].size() + 1)), e1);
        m.eqs[ci].insert(m.eqs[ci].begin() + static_cast<long>(src.below(m.eqs[ci].size() + 1)), e2);
        m.blocks[ci].clear();
        expectedType = "underconstrained";
        what = "added two states whose rates only occur together (dp/dt + dq/dt = 1, dp/dt - dq/dt = 0.5) to component " + c.name;
        break;
    }
    default:
        return false;
    }
    rebuildMath(m);
    return true;
}

} // namespace c05
} // namespace vp

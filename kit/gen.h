// Generators (valid-by-construction CellML models, expressions) and the reference units reduction.
#pragma once
#include <map>
#include <set>
#include <string>

#include "spec.h"
#include "tape.h"

namespace vp {

// ---- reference units algebra (written from the CellML 2.0 text, independent of src/utilities.h) ----
struct UnitsRed
{
    bool defined = true; // false: references a missing definition or an (unresolved) import
    std::map<std::string, double> base; // base unit name -> exponent (zero entries removed; "dimensionless" never listed)
    double log10scale = 0.0; // size of one of these units in SI base units, as log10
    bool exp1Regime = true; // every prefix/multiplier met on the way down sat on an exponent-1 child
};
const std::vector<std::string> &standardUnitNames();
bool isStandardUnit(const std::string &name);
int prefixValue(const std::string &prefix, bool *ok = nullptr); // named or integer prefix -> power of ten
const std::vector<std::pair<std::string, int>> &namedPrefixes();
// lookup resolves imported units: returns the spec+index defining them or nullptr
using UnitsLookup = std::function<const UnitsSpec *(const std::string &name)>;
UnitsRed reduceUnits(const std::string &name, const UnitsLookup &lookup, int depth = 0);
UnitsRed reduceUnits(const ModelSpec &spec, const std::string &name);
bool sameBase(const UnitsRed &a, const UnitsRed &b);

// ---- model generator ----
struct GenOpts
{
    bool units = true;
    bool encapsulation = true;
    bool connections = true;
    bool resets = true;
    bool imports = true;
    bool math = true;
    bool ids = true;
    bool hostileText = false; // names/ids/hrefs/initial values with XML-special and non-ASCII characters (not valid CellML)
    bool v1x = false; // only what CellML 1.x can express
    bool scaledConnections = true; // allow compatible-but-scaled units across connections
    int maxComps = 6;
    int maxVars = 4;
    int maxUnits = 4;
};
ModelSpec genValidModel(Src &src, const GenOpts &opt);

// Identifier helpers
std::string genIdent(Src &src, std::set<std::string> &used, bool hostile = false);
std::string genXmlId(Src &src, std::set<std::string> &used, bool hostile = false);

// Generic expression (not value-safe): all operators, used for structural properties.
Expr genExpr(Src &src, const std::vector<std::string> &vars, const std::vector<std::string> &unitsNames, int depth);

// Interface computation from the hierarchy: the minimal interface each variable needs for its equivalences.
std::string requiredInterface(const ModelSpec &spec, int comp, int var);

} // namespace vp

#include "c20_ref.h"

#include <cmath>

namespace vp {

namespace {

const double kC20Margin = 2e-3; // the generator's margin (kit/gt.cpp)

struct Evaluator
{
    const GtModel &m;
    explicit Evaluator(const GtModel &model)
        : m(model)
    {
    }
    // value of e written in component comp at an evaluation point; ok is cleared when the value leaves the safe domain
    double eval(const Expr &e, int comp, int point, bool &ok, std::string &why, const std::string &what) const
    {
        EvalEnv env;
        const std::string &compName = m.spec.comps[static_cast<size_t>(comp)].name;
        env.var = [&](const std::string &n) {
            int cls = -1, inst = -1;
            if (m.findInstance(compName, n, cls, inst)) {
                return m.instanceValue(cls, inst, point);
            }
            return std::nan("");
        };
        env.diff = [&](const std::string &x, const std::string &) {
            // rate of a state as seen in its home component (appended shapes only: same component, same units)
            int cls = -1, inst = -1;
            if (m.findInstance(compName, x, cls, inst) && m.classes[static_cast<size_t>(cls)].role == GtRole::STATE) {
                return m.classes[static_cast<size_t>(cls)].rate[point];
            }
            return std::nan("");
        };
        double margin = 0;
        double v = evalExpr(e, env, &margin);
        if (!(std::isfinite(v) && margin >= kC20Margin && std::fabs(v) <= 1e4)) {
            if (ok) {
                why = what + " at point " + std::to_string(point) + ": value " + std::to_string(v) + " margin " + std::to_string(margin);
            }
            ok = false;
        }
        return v;
    }
};

} // namespace

C20Ref c20Evaluate(const GtModel &gt, const std::vector<C20Binding> &bindings)
{
    C20Ref r;
    r.model = gt;
    GtModel &m = r.model;
    const size_t n = m.classes.size();
    r.external.assign(n, false);
    r.dependsOnExternal.assign(n, false);
    for (const auto &b : bindings) {
        if (b.cls >= 0 && static_cast<size_t>(b.cls) < n && m.classes[static_cast<size_t>(b.cls)].role != GtRole::VOI) {
            r.external[static_cast<size_t>(b.cls)] = true;
            m.classes[static_cast<size_t>(b.cls)].value[0] = b.home[0];
            m.classes[static_cast<size_t>(b.cls)].value[1] = b.home[1];
        }
    }
    bool ok = true;
    Evaluator ev(m);
    for (size_t c = 0; c < n; ++c) {
        GtClass &cl = m.classes[c];
        if (r.external[c]) {
            r.dependsOnExternal[c] = true;
            cl.varying = true;
            cl.role = GtRole::ALGEBRAIC;
            continue;
        }
        const int comp = cl.inst[0].comp;
        const std::string what = "class " + std::to_string(c);
        for (int d : cl.deps) {
            if (static_cast<size_t>(d) != c && r.dependsOnExternal[static_cast<size_t>(d)]) {
                r.dependsOnExternal[c] = true;
            }
        }
        switch (cl.role) {
        case GtRole::VOI:
            break;
        case GtRole::CONSTANT:
            if (cl.initialisedBy >= 0) {
                // takes the value its initialising constant has when initialiseVariables runs
                cl.value[0] = cl.value[1] = m.classes[static_cast<size_t>(cl.initialisedBy)].value[0];
                if (r.dependsOnExternal[static_cast<size_t>(cl.initialisedBy)]) {
                    r.dependsOnExternal[c] = true;
                }
            }
            break;
        case GtRole::STATE:
            if (cl.initialisedBy >= 0) {
                // same component, same units (by construction of the generator)
                cl.value[0] = m.classes[static_cast<size_t>(cl.initialisedBy)].value[0];
                if (r.dependsOnExternal[static_cast<size_t>(cl.initialisedBy)]) {
                    r.dependsOnExternal[c] = true;
                }
            }
            for (int p = 0; p < 2; ++p) {
                cl.rate[p] = ev.eval(cl.rhs, comp, p, ok, r.unsafeWhy, "rate of " + what);
            }
            break;
        case GtRole::COMPUTED_CONSTANT:
        case GtRole::ALGEBRAIC:
            for (int p = 0; p < 2; ++p) {
                cl.value[p] = ev.eval(cl.rhs, comp, p, ok, r.unsafeWhy, what);
            }
            if (r.dependsOnExternal[c]) {
                cl.varying = true;
                cl.role = GtRole::ALGEBRAIC;
            }
            break;
        case GtRole::NLA:
            for (int p = 0; p < 2; ++p) {
                cl.value[p] = ev.eval(cl.rhs, comp, p, ok, r.unsafeWhy, "solution of " + what);
            }
            if (r.dependsOnExternal[c]) {
                cl.varying = true;
            }
            break;
        }
    }
    for (size_t s = 0; s < m.nla.size(); ++s) {
        const GtNlaSystem &sys = m.nla[s];
        size_t ext = 0;
        bool dep = false;
        for (int u : sys.unknowns) {
            ext += r.external[static_cast<size_t>(u)] ? 1 : 0;
            dep = dep || r.dependsOnExternal[static_cast<size_t>(u)];
        }
        for (int u : sys.unknowns) {
            r.dependsOnExternal[static_cast<size_t>(u)] = r.dependsOnExternal[static_cast<size_t>(u)] || dep;
        }
        if (ext != 0) {
            continue; // the system is gone (all bound) or over-determined (some bound): nothing to evaluate
        }
        for (const auto &e : sys.equations) {
            for (int p = 0; p < 2; ++p) {
                ev.eval(e.first, sys.comp, p, ok, r.unsafeWhy, "nla system " + std::to_string(s) + " lhs");
                ev.eval(e.second, sys.comp, p, ok, r.unsafeWhy, "nla system " + std::to_string(s) + " rhs");
            }
        }
    }
    r.safe = ok;
    return r;
}

std::vector<std::vector<bool>> c20Dependence(const GtModel &gt)
{
    const size_t n = gt.classes.size();
    std::vector<std::vector<bool>> d(n, std::vector<bool>(n, false));
    for (size_t c = 0; c < n; ++c) {
        const GtClass &cl = gt.classes[c];
        for (int x : cl.deps) {
            if (static_cast<size_t>(x) != c) {
                d[c][static_cast<size_t>(x)] = true;
            }
        }
        if (cl.initialisedBy >= 0) {
            d[c][static_cast<size_t>(cl.initialisedBy)] = true;
        }
    }
    for (const auto &sys : gt.nla) {
        for (int u : sys.unknowns) {
            for (int w : sys.unknowns) {
                if (u != w) {
                    d[static_cast<size_t>(u)][static_cast<size_t>(w)] = true;
                }
            }
        }
    }
    for (size_t k = 0; k < n; ++k) {
        for (size_t i = 0; i < n; ++i) {
            if (!d[i][k]) {
                continue;
            }
            for (size_t j = 0; j < n; ++j) {
                if (d[k][j]) {
                    d[i][j] = true;
                }
            }
        }
    }
    return d;
}

bool c20CanUnderconstrain(const GtModel &gt, int cls, std::string *why)
{
    auto no = [&](const char *w) {
        if (why != nullptr) {
            *why = w;
        }
        return false;
    };
    const GtClass &cl = gt.classes[static_cast<size_t>(cls)];
    const auto &home = cl.inst[0];
    switch (cl.role) {
    case GtRole::VOI:
        return no("voi");
    case GtRole::STATE:
        return true; // the initial value is removed ("used in an ODE, but not initialised")
    case GtRole::CONSTANT:
        for (const auto &o : gt.classes) {
            if (o.initialisedBy == cls) {
                return no("constant-initialises-a-state");
            }
        }
        return true;
    case GtRole::COMPUTED_CONSTANT:
    case GtRole::ALGEBRAIC:
        return true;
    case GtRole::NLA:
        if (cl.nlaSystem < 0 || gt.nla[static_cast<size_t>(cl.nlaSystem)].unknowns.size() != 1) {
            return no("nla-system-of-several-unknowns");
        }
        if (!gt.spec.comps[static_cast<size_t>(home.comp)].vars[static_cast<size_t>(home.var)].initial.empty()) {
            return no("nla-unknown-with-initial-guess");
        }
        return true;
    }
    return false;
}

bool c20Underconstrain(GtModel &gt, const std::vector<int> &classes)
{
    bool all = true;
    std::vector<bool> touched(gt.spec.comps.size(), false);
    for (int cls : classes) {
        const GtClass &cl = gt.classes[static_cast<size_t>(cls)];
        const auto &home = cl.inst[0];
        CompSpec &comp = gt.spec.comps[static_cast<size_t>(home.comp)];
        if (cl.role == GtRole::CONSTANT || cl.role == GtRole::STATE) {
            comp.vars[static_cast<size_t>(home.var)].initial.clear();
            continue;
        }
        std::string a, b;
        if (cl.role == GtRole::NLA) {
            const auto &sys = gt.nla[static_cast<size_t>(cl.nlaSystem)];
            if (sys.equations.size() != 1) {
                all = false;
                continue;
            }
            a = exprToSexp(sys.equations[0].first);
            b = exprToSexp(sys.equations[0].second);
        } else {
            a = exprToSexp(Expr::ci(comp.vars[static_cast<size_t>(home.var)].name));
            b = exprToSexp(cl.rhs);
        }
        bool found = false;
        for (size_t i = 0; i < comp.equations.size(); ++i) {
            std::string x = exprToSexp(comp.equations[i].first), y = exprToSexp(comp.equations[i].second);
            if ((x == a && y == b) || (x == b && y == a)) {
                comp.equations.erase(comp.equations.begin() + static_cast<long>(i));
                touched[static_cast<size_t>(home.comp)] = true;
                found = true;
                break;
            }
        }
        all = all && found;
    }
    for (size_t ci = 0; ci < gt.spec.comps.size(); ++ci) {
        if (!touched[ci]) {
            continue;
        }
        CompSpec &comp = gt.spec.comps[ci];
        comp.math.clear();
        if (!comp.equations.empty()) {
            comp.math.push_back(mathBlock(comp.equations, 0));
        }
    }
    return all;
}

namespace {

struct Injector
{
    GtModel &gt;
    int comp;
    std::vector<std::pair<Expr, Expr>> eqs;
    Injector(GtModel &g)
        : gt(g)
        , comp(g.voi >= 0 ? g.classes[static_cast<size_t>(g.voi)].inst[0].comp : 0)
    {
    }
    CompSpec &cs() { return gt.spec.comps[static_cast<size_t>(comp)]; }
    std::string voiName() { return cs().vars[static_cast<size_t>(gt.classes[static_cast<size_t>(gt.voi)].inst[0].var)].name; }
    std::string name(int cls) { return cs().vars[static_cast<size_t>(gt.classes[static_cast<size_t>(cls)].inst[0].var)].name; }
    int add(GtRole role, const std::string &stem, const std::string &initial, double v0, double v1)
    {
        std::string n = stem;
        for (int k = 1;; ++k) {
            bool taken = false;
            for (const auto &v : cs().vars) {
                taken = taken || v.name == n;
            }
            if (!taken) {
                break;
            }
            n = stem + "_" + std::to_string(k);
        }
        VarSpec v;
        v.name = n;
        v.units = "dimensionless";
        v.initial = initial;
        cs().vars.push_back(v);
        GtClass c;
        c.role = role;
        GtInstance in;
        in.comp = comp;
        in.var = static_cast<int>(cs().vars.size()) - 1;
        in.units = "dimensionless";
        c.inst.push_back(in);
        c.value[0] = v0;
        c.value[1] = v1;
        c.varying = role == GtRole::STATE;
        gt.classes.push_back(c);
        return static_cast<int>(gt.classes.size()) - 1;
    }
    GtClass &cls(int k) { return gt.classes[static_cast<size_t>(k)]; }
    int state(const std::string &stem, const std::string &initial, double v0, double v1, const Expr &rhs, double rate, const std::vector<int> &deps)
    {
        int s = add(GtRole::STATE, stem, initial, v0, v1);
        cls(s).rhs = rhs;
        cls(s).deps = deps;
        cls(s).voiLocalInst = 0;
        cls(s).rate[0] = cls(s).rate[1] = rate;
        eqs.emplace_back(Expr::make(Op::DIFF, {Expr::ci(voiName()), Expr::ci(name(s))}), rhs);
        return s;
    }
    void finish()
    {
        for (const auto &q : eqs) {
            cs().equations.push_back(q);
        }
        if (!eqs.empty()) {
            cs().math.push_back(mathBlock(eqs, 0));
            gt.equationCount += eqs.size();
        }
    }
};

Expr lit(double v, const std::string &text)
{
    return Expr::cn(v, "dimensionless", text);
}

} // namespace

int c20InjectInitialValueChain(GtModel &gt, unsigned variant)
{
    if (gt.spec.comps.empty()) {
        return -1;
    }
    Injector in(gt);
    const int k0 = in.add(GtRole::CONSTANT, "zK0", "0.6", 0.6, 0.6);
    const int k1 = in.add(GtRole::CONSTANT, "zK1", in.name(k0), 0.6, 0.6);
    in.cls(k1).initialisedBy = k0;
    const int cc = in.add(GtRole::COMPUTED_CONSTANT, "zC", "", 1.2, 1.2);
    in.cls(cc).rhs = Expr::make(Op::TIMES, {lit(2, "2"), Expr::ci(in.name(k1))});
    in.cls(cc).deps.push_back(k1);
    in.eqs.emplace_back(Expr::ci(in.name(cc)), in.cls(cc).rhs);
    if (gt.voi >= 0) {
        const int by = (variant % 2 == 1) ? k0 : k1;
        const int x = in.state("zX", in.name(by), 0.6, 1.1, Expr::ci(in.name(k1)), 0.6, {k1});
        in.cls(x).initialisedBy = by;
    }
    in.finish();
    return k0;
}

int c20InjectNlaParameter(GtModel &gt, unsigned variant, int *other)
{
    if (gt.spec.comps.empty()) {
        return -1;
    }
    Injector in(gt);
    const int p = in.add(GtRole::NLA, "zP", "2", 2, 2);
    in.cls(p).rhs = lit(2, "2");
    const int y = in.add(GtRole::NLA, "zY", "1", 3, 3);
    in.cls(y).rhs = Expr::make(Op::MINUS, {lit(5, "5"), Expr::ci(in.name(p))});
    in.cls(y).deps.push_back(p);
    GtNlaSystem sys;
    sys.comp = in.comp;
    sys.unknowns = {p, y};
    sys.equations.emplace_back(Expr::make(Op::PLUS, {Expr::ci(in.name(p)), Expr::ci(in.name(y))}), lit(5, "5"));
    in.cls(p).nlaSystem = in.cls(y).nlaSystem = static_cast<int>(gt.nla.size());
    gt.nla.push_back(sys);
    in.eqs.push_back(sys.equations[0]);
    if (gt.voi >= 0 && variant % 2 == 1) {
        in.state("zT", "0.3", 0.3, 0.9, Expr::ci(in.name(y)), 3, {y});
    }
    in.finish();
    if (other != nullptr) {
        *other = y;
    }
    return p;
}

int c20InjectRateRead(GtModel &gt, unsigned variant, int *other)
{
    if (gt.voi < 0) {
        return -1;
    }
    Injector in(gt);
    const int z = in.state("zZ", "0.4", 0.4, 1.3, lit(3, "3"), 3, {});
    const int r = in.add(GtRole::ALGEBRAIC, "zR", "", 6, 6);
    in.cls(r).varying = true;
    Expr rate = Expr::make(Op::DIFF, {Expr::ci(in.voiName()), Expr::ci(in.name(z))});
    in.cls(r).rhs = (variant % 2 == 0) ? Expr::make(Op::TIMES, {lit(2, "2"), rate}) : Expr::make(Op::PLUS, {rate, rate});
    in.cls(r).deps.push_back(z);
    in.eqs.emplace_back(Expr::ci(in.name(r)), in.cls(r).rhs);
    in.finish();
    if (other != nullptr) {
        *other = r;
    }
    return z;
}

int c20InjectRateChain(GtModel &gt, unsigned variant)
{
    if (gt.voi < 0) {
        return -1;
    }
    const GtInstance voiHome = gt.classes[static_cast<size_t>(gt.voi)].inst[0];
    const int comp = voiHome.comp;
    CompSpec &cs = gt.spec.comps[static_cast<size_t>(comp)];
    const std::string voiName = cs.vars[static_cast<size_t>(voiHome.var)].name;
    auto fresh = [&](const std::string &stem) {
        std::string name = stem;
        for (int k = 1;; ++k) {
            bool taken = false;
            for (const auto &v : cs.vars) {
                taken = taken || v.name == name;
            }
            if (!taken) {
                return name;
            }
            name = stem + "_" + std::to_string(k);
        }
    };
    auto addClass = [&](GtRole role, const std::string &stem, const std::string &initial) {
        VarSpec v;
        v.name = fresh(stem);
        v.units = "dimensionless";
        v.initial = initial;
        cs.vars.push_back(v);
        GtClass c;
        c.role = role;
        GtInstance in;
        in.comp = comp;
        in.var = static_cast<int>(cs.vars.size()) - 1;
        in.units = "dimensionless";
        in.log10scale = 0.0;
        c.inst.push_back(in);
        gt.classes.push_back(c);
        return static_cast<int>(gt.classes.size()) - 1;
    };
    auto nameOf = [&](int cls) { return cs.vars[static_cast<size_t>(gt.classes[static_cast<size_t>(cls)].inst[0].var)].name; };
    std::vector<std::pair<Expr, Expr>> eqs;
    const int e = addClass(GtRole::CONSTANT, "zE", "0.8");
    gt.classes[static_cast<size_t>(e)].value[0] = gt.classes[static_cast<size_t>(e)].value[1] = 0.8;
    const int a = addClass(GtRole::COMPUTED_CONSTANT, "zA", "");
    {
        GtClass &ac = gt.classes[static_cast<size_t>(a)];
        ac.rhs = (variant % 2 == 0) ? Expr::make(Op::PLUS, {Expr::ci(nameOf(e)), Expr::cn(1.5, "dimensionless", "1.5")}) : Expr::make(Op::TIMES, {Expr::cn(2, "dimensionless", "2"), Expr::ci(nameOf(e))});
        ac.deps.push_back(e);
        ac.value[0] = ac.value[1] = (variant % 2 == 0) ? 0.8 + 1.5 : 2 * 0.8;
        eqs.emplace_back(Expr::ci(nameOf(a)), ac.rhs);
    }
    if ((variant / 2) % 2 == 1) {
        const int b = addClass(GtRole::COMPUTED_CONSTANT, "zB", "");
        GtClass &bc = gt.classes[static_cast<size_t>(b)];
        bc.rhs = Expr::make(Op::PLUS, {Expr::ci(nameOf(a)), Expr::cn(7, "dimensionless", "7")});
        bc.deps.push_back(a);
        bc.value[0] = bc.value[1] = gt.classes[static_cast<size_t>(a)].value[0] + 7;
        eqs.emplace_back(Expr::ci(nameOf(b)), bc.rhs);
    }
    const int s = addClass(GtRole::STATE, "zS", "0.25");
    {
        GtClass &sc = gt.classes[static_cast<size_t>(s)];
        sc.varying = true;
        sc.value[0] = 0.25;
        sc.value[1] = 1.4;
        sc.rhs = Expr::ci(nameOf(a));
        sc.deps.push_back(a);
        sc.voiLocalInst = 0;
        sc.rate[0] = sc.rate[1] = gt.classes[static_cast<size_t>(a)].value[0];
        eqs.emplace_back(Expr::make(Op::DIFF, {Expr::ci(voiName), Expr::ci(nameOf(s))}), sc.rhs);
    }
    for (const auto &q : eqs) {
        cs.equations.push_back(q);
    }
    cs.math.push_back(mathBlock(eqs, 0));
    gt.equationCount += eqs.size();
    return e;
}

C20Staleness c20Staleness(const GtModel &gt, const std::vector<bool> &external, const std::map<int, std::vector<int>> &declared)
{
    const size_t n = gt.classes.size();
    auto isExt = [&](size_t c) { return c < external.size() && external[c]; };
    auto isStateValue = [&](size_t c) { return gt.classes[c].role == GtRole::STATE && !isExt(c); };
    // what each class reads: the declared dependencies for an external class, else the variables of its equation(s)
    std::vector<std::vector<size_t>> reads(n);
    for (size_t c = 0; c < n; ++c) {
        if (isExt(c)) {
            auto it = declared.find(static_cast<int>(c));
            if (it != declared.end()) {
                for (int d : it->second) {
                    if (d >= 0 && static_cast<size_t>(d) != c && gt.classes[static_cast<size_t>(d)].role != GtRole::VOI) {
                        reads[c].push_back(static_cast<size_t>(d));
                    }
                }
            }
            continue;
        }
        const GtClass &cl = gt.classes[c];
        if (cl.role == GtRole::VOI || cl.role == GtRole::CONSTANT) {
            continue;
        }
        auto add = [&](const GtClass &from) {
            for (int d : from.deps) {
                if (static_cast<size_t>(d) != c) {
                    reads[c].push_back(static_cast<size_t>(d));
                }
            }
        };
        add(cl);
        if (cl.role == GtRole::NLA && cl.nlaSystem >= 0) {
            // every equation of the system mentions the inputs of every unknown
            for (int u : gt.nla[static_cast<size_t>(cl.nlaSystem)].unknowns) {
                if (!isExt(static_cast<size_t>(u))) {
                    add(gt.classes[static_cast<size_t>(u)]);
                }
            }
        }
    }
    C20Staleness st;
    st.stateBased.assign(n, false);
    for (bool changed = true; changed;) {
        changed = false;
        for (size_t c = 0; c < n; ++c) {
            if (st.stateBased[c]) {
                continue;
            }
            for (size_t d : reads[c]) {
                if (isStateValue(d) || st.stateBased[d]) {
                    st.stateBased[c] = true;
                    changed = true;
                    break;
                }
            }
        }
    }
    // varies at all: reads the VOI, a state or an external class (transitively)
    std::vector<bool> varies(n, false);
    for (size_t c = 0; c < n; ++c) {
        varies[c] = gt.classes[c].role == GtRole::VOI || gt.classes[c].role == GtRole::STATE || isExt(c);
    }
    for (bool changed = true; changed;) {
        changed = false;
        for (size_t c = 0; c < n; ++c) {
            if (varies[c] || isExt(c)) {
                continue;
            }
            for (int d : gt.classes[c].deps) {
                if (varies[static_cast<size_t>(d)]) {
                    varies[c] = true;
                    changed = true;
                    break;
                }
            }
        }
    }
    // may legitimately be left at its first-point value: varies, is computed by an equation, and is not state based
    std::vector<bool> tainted(n, false);
    for (size_t c = 0; c < n; ++c) {
        const GtRole r = gt.classes[c].role;
        tainted[c] = !isExt(c) && (r == GtRole::COMPUTED_CONSTANT || r == GtRole::ALGEBRAIC || r == GtRole::NLA) && varies[c] && !st.stateBased[c];
    }
    for (bool changed = true; changed;) {
        changed = false;
        for (size_t c = 0; c < n; ++c) {
            if (tainted[c] || isExt(c) || gt.classes[c].role == GtRole::STATE) {
                continue;
            }
            for (size_t d : reads[c]) {
                if (tainted[d]) {
                    tainted[c] = true;
                    changed = true;
                    break;
                }
            }
        }
    }
    st.strict.assign(n, true);
    for (size_t c = 0; c < n; ++c) {
        st.strict[c] = !tainted[c];
    }
    // the same closure without the classes that vary with an external class only: what is still tainted then is exempt
    // because of the VOI
    std::vector<bool> variesWithoutExternals(n, false);
    for (size_t c = 0; c < n; ++c) {
        variesWithoutExternals[c] = gt.classes[c].role == GtRole::VOI || gt.classes[c].role == GtRole::STATE;
    }
    for (bool changed = true; changed;) {
        changed = false;
        for (size_t c = 0; c < n; ++c) {
            if (variesWithoutExternals[c] || isExt(c)) {
                continue;
            }
            for (int d : gt.classes[c].deps) {
                if (variesWithoutExternals[static_cast<size_t>(d)]) {
                    variesWithoutExternals[c] = true;
                    changed = true;
                    break;
                }
            }
        }
    }
    std::vector<bool> voiTainted(n, false);
    for (size_t c = 0; c < n; ++c) {
        const GtRole r = gt.classes[c].role;
        voiTainted[c] = !isExt(c) && (r == GtRole::COMPUTED_CONSTANT || r == GtRole::ALGEBRAIC || r == GtRole::NLA) && variesWithoutExternals[c] && !st.stateBased[c];
    }
    for (bool changed = true; changed;) {
        changed = false;
        for (size_t c = 0; c < n; ++c) {
            if (voiTainted[c] || isExt(c) || gt.classes[c].role == GtRole::STATE) {
                continue;
            }
            for (size_t d : reads[c]) {
                if (voiTainted[d]) {
                    voiTainted[c] = true;
                    changed = true;
                    break;
                }
            }
        }
    }
    st.staleThroughExternalOnly.assign(n, false);
    for (size_t c = 0; c < n; ++c) {
        st.staleThroughExternalOnly[c] = tainted[c] && !voiTainted[c];
    }
    return st;
}

RunResult c20TolerateStale(const GtModel &truth, const GtMapping &map, const RunResult &run, const C20Staleness &st, long *tolerated, bool judgeStaleThroughExternalOnly)
{
    RunResult r = run;
    for (size_t i = 0; i < map.vars.size() && i < r.vars[1].size(); ++i) {
        const auto &ci = map.vars[i];
        if (ci.first >= 0 && static_cast<size_t>(ci.first) < st.strict.size() && !st.strict[static_cast<size_t>(ci.first)]
            && !(judgeStaleThroughExternalOnly && st.staleThroughExternalOnly[static_cast<size_t>(ci.first)])) {
            r.vars[1][i] = truth.instanceValue(ci.first, ci.second, 1);
            if (tolerated != nullptr) {
                ++*tolerated;
            }
        }
    }
    return r;
}

std::vector<size_t> c20StaleResolve(const GtModel &truth, const GtMapping &map, const C20Staleness &st)
{
    std::vector<size_t> r;
    for (size_t i = 0; i < map.vars.size(); ++i) {
        const auto &ci = map.vars[i];
        if (ci.first >= 0 && truth.classes[static_cast<size_t>(ci.first)].role == GtRole::NLA && st.stateBased[static_cast<size_t>(ci.first)]) {
            r.push_back(i);
        }
    }
    return r;
}

} // namespace vp

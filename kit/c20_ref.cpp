#include "c20_ref.h"

#include <cmath>

namespace vp {

namespace {

const double kC20Margin = 2e-3; // the generator's margin (kit/gt.cpp)

struct Evaluator
{
    const GtModel &m;
    explicit Evaluator(const GtModel &model)
        : m(model)
    {
    }
    // value of e written in component comp at an evaluation point; ok is cleared when the value leaves the safe domain
    double eval(const Expr &e, int comp, int point, bool &ok, std::string &why, const std::string &what) const
    {
        EvalEnv env;
        const std::string &compName = m.spec.comps[static_cast<size_t>(comp)].name;
        env.var = [&](const std::string &n) {
            int cls = -1, inst = -1;
            if (m.findInstance(compName, n, cls, inst)) {
                return m.instanceValue(cls, inst, point);
            }
            return std::nan("");
        };
        env.diff = [](const std::string &, const std::string &) { return std::nan(""); };
        double margin = 0;
        double v = evalExpr(e, env, &margin);
        if (!(std::isfinite(v) && margin >= kC20Margin && std::fabs(v) <= 1e4)) {
            if (ok) {
                why = what + " at point " + std::to_string(point) + ": value " + std::to_string(v) + " margin " + std::to_string(margin);
            }
            ok = false;
        }
        return v;
    }
};

} // namespace

C20Ref c20Evaluate(const GtModel &gt, const std::vector<C20Binding> &bindings)
{
    C20Ref r;
    r.model = gt;
    GtModel &m = r.model;
    const size_t n = m.classes.size();
    r.external.assign(n, false);
    r.dependsOnExternal.assign(n, false);
    for (const auto &b : bindings) {
        if (b.cls >= 0 && static_cast<size_t>(b.cls) < n && m.classes[static_cast<size_t>(b.cls)].role != GtRole::VOI) {
            r.external[static_cast<size_t>(b.cls)] = true;
            m.classes[static_cast<size_t>(b.cls)].value[0] = b.home[0];
            m.classes[static_cast<size_t>(b.cls)].value[1] = b.home[1];
        }
    }
    bool ok = true;
    Evaluator ev(m);
    for (size_t c = 0; c < n; ++c) {
        GtClass &cl = m.classes[c];
        if (r.external[c]) {
            r.dependsOnExternal[c] = true;
            cl.varying = true;
            cl.role = GtRole::ALGEBRAIC;
            continue;
        }
        const int comp = cl.inst[0].comp;
        const std::string what = "class " + std::to_string(c);
        for (int d : cl.deps) {
            if (static_cast<size_t>(d) != c && r.dependsOnExternal[static_cast<size_t>(d)]) {
                r.dependsOnExternal[c] = true;
            }
        }
        switch (cl.role) {
        case GtRole::VOI:
        case GtRole::CONSTANT:
            break;
        case GtRole::STATE:
            if (cl.initialisedBy >= 0) {
                // same component, same units (by construction of the generator)
                cl.value[0] = m.classes[static_cast<size_t>(cl.initialisedBy)].value[0];
                if (r.dependsOnExternal[static_cast<size_t>(cl.initialisedBy)]) {
                    r.dependsOnExternal[c] = true;
                }
            }
            for (int p = 0; p < 2; ++p) {
                cl.rate[p] = ev.eval(cl.rhs, comp, p, ok, r.unsafeWhy, "rate of " + what);
            }
            break;
        case GtRole::COMPUTED_CONSTANT:
        case GtRole::ALGEBRAIC:
            for (int p = 0; p < 2; ++p) {
                cl.value[p] = ev.eval(cl.rhs, comp, p, ok, r.unsafeWhy, what);
            }
            if (r.dependsOnExternal[c]) {
                cl.varying = true;
                cl.role = GtRole::ALGEBRAIC;
            }
            break;
        case GtRole::NLA:
            for (int p = 0; p < 2; ++p) {
                cl.value[p] = ev.eval(cl.rhs, comp, p, ok, r.unsafeWhy, "solution of " + what);
            }
            if (r.dependsOnExternal[c]) {
                cl.varying = true;
            }
            break;
        }
    }
    for (size_t s = 0; s < m.nla.size(); ++s) {
        const GtNlaSystem &sys = m.nla[s];
        size_t ext = 0;
        bool dep = false;
        for (int u : sys.unknowns) {
            ext += r.external[static_cast<size_t>(u)] ? 1 : 0;
            dep = dep || r.dependsOnExternal[static_cast<size_t>(u)];
        }
        for (int u : sys.unknowns) {
            r.dependsOnExternal[static_cast<size_t>(u)] = r.dependsOnExternal[static_cast<size_t>(u)] || dep;
        }
        if (ext != 0) {
            continue; // the system is gone (all bound) or over-determined (some bound): nothing to evaluate
        }
        for (const auto &e : sys.equations) {
            for (int p = 0; p < 2; ++p) {
                ev.eval(e.first, sys.comp, p, ok, r.unsafeWhy, "nla system " + std::to_string(s) + " lhs");
                ev.eval(e.second, sys.comp, p, ok, r.unsafeWhy, "nla system " + std::to_string(s) + " rhs");
            }
        }
    }
    r.safe = ok;
    return r;
}

std::vector<std::vector<bool>> c20Dependence(const GtModel &gt)
{
    const size_t n = gt.classes.size();
    std::vector<std::vector<bool>> d(n, std::vector<bool>(n, false));
    for (size_t c = 0; c < n; ++c) {
        const GtClass &cl = gt.classes[c];
        for (int x : cl.deps) {
            if (static_cast<size_t>(x) != c) {
                d[c][static_cast<size_t>(x)] = true;
            }
        }
        if (cl.initialisedBy >= 0) {
            d[c][static_cast<size_t>(cl.initialisedBy)] = true;
        }
    }
    for (const auto &sys : gt.nla) {
        for (int u : sys.unknowns) {
            for (int w : sys.unknowns) {
                if (u != w) {
                    d[static_cast<size_t>(u)][static_cast<size_t>(w)] = true;
                }
            }
        }
    }
    for (size_t k = 0; k < n; ++k) {
        for (size_t i = 0; i < n; ++i) {
            if (!d[i][k]) {
                continue;
            }
            for (size_t j = 0; j < n; ++j) {
                if (d[k][j]) {
                    d[i][j] = true;
                }
            }
        }
    }
    return d;
}

bool c20CanUnderconstrain(const GtModel &gt, int cls, std::string *why)
{
    auto no = [&](const char *w) {
        if (why != nullptr) {
            *why = w;
        }
        return false;
    };
    const GtClass &cl = gt.classes[static_cast<size_t>(cls)];
    const auto &home = cl.inst[0];
    switch (cl.role) {
    case GtRole::VOI:
        return no("voi");
    case GtRole::STATE:
        return true; // the initial value is removed ("used in an ODE, but not initialised")
    case GtRole::CONSTANT:
        for (const auto &o : gt.classes) {
            if (o.initialisedBy == cls) {
                return no("constant-initialises-a-state");
            }
        }
        return true;
    case GtRole::COMPUTED_CONSTANT:
    case GtRole::ALGEBRAIC:
        return true;
    case GtRole::NLA:
        if (cl.nlaSystem < 0 || gt.nla[static_cast<size_t>(cl.nlaSystem)].unknowns.size() != 1) {
            return no("nla-system-of-several-unknowns");
        }
        if (!gt.spec.comps[static_cast<size_t>(home.comp)].vars[static_cast<size_t>(home.var)].initial.empty()) {
            return no("nla-unknown-with-initial-guess");
        }
        return true;
    }
    return false;
}

bool c20Underconstrain(GtModel &gt, const std::vector<int> &classes)
{
    bool all = true;
    std::vector<bool> touched(gt.spec.comps.size(), false);
    for (int cls : classes) {
        const GtClass &cl = gt.classes[static_cast<size_t>(cls)];
        const auto &home = cl.inst[0];
        CompSpec &comp = gt.spec.comps[static_cast<size_t>(home.comp)];
        if (cl.role == GtRole::CONSTANT || cl.role == GtRole::STATE) {
            comp.vars[static_cast<size_t>(home.var)].initial.clear();
            continue;
        }
        std::string a, b;
        if (cl.role == GtRole::NLA) {
            const auto &sys = gt.nla[static_cast<size_t>(cl.nlaSystem)];
            if (sys.equations.size() != 1) {
                all = false;
                continue;
            }
            a = exprToSexp(sys.equations[0].first);
            b = exprToSexp(sys.equations[0].second);
        } else {
            a = exprToSexp(Expr::ci(comp.vars[static_cast<size_t>(home.var)].name));
            b = exprToSexp(cl.rhs);
        }
        bool found = false;
        for (size_t i = 0; i < comp.equations.size(); ++i) {
            std::string x = exprToSexp(comp.equations[i].first), y = exprToSexp(comp.equations[i].second);
            if ((x == a && y == b) || (x == b && y == a)) {
                comp.equations.erase(comp.equations.begin() + static_cast<long>(i));
                touched[static_cast<size_t>(home.comp)] = true;
                found = true;
                break;
            }
        }
        all = all && found;
    }
    for (size_t ci = 0; ci < gt.spec.comps.size(); ++ci) {
        if (!touched[ci]) {
            continue;
        }
        CompSpec &comp = gt.spec.comps[ci];
        comp.math.clear();
        if (!comp.equations.empty()) {
            comp.math.push_back(mathBlock(comp.equations, 0));
        }
    }
    return all;
}

} // namespace vp

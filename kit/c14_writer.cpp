#include "c14_writer.h"

#include <libxml/parser.h>
#include <libxml/tree.h>

#include <algorithm>
#include <cstdio>
#include <cstring>
#include <functional>
#include <set>
#include <sstream>

namespace vp {

const char *c14SpecialName(C14Special s)
{
    switch (s) {
    case C14Special::NONE: return "none";
    case C14Special::EXPLICIT_NONE: return "explicit-none";
    case C14Special::SPELLING_IN_MATH: return "spelling-in-math";
    case C14Special::SPLIT_GROUPS: return "split-groups";
    case C14Special::DEEP_EXTRAS: return "deep-extras";
    case C14Special::MATH_ELEMENT_ID: return "math-element-id";
    case C14Special::MATHML_NS_ANCESTOR: return "mathml-ns-on-ancestor";
    case C14Special::GROUP_CONNECTION_ID: return "group-connection-id";
    case C14Special::SPLIT_TREES: return "split-trees";
    case C14Special::SCOPED_UNITS_COPIES: return "scoped-units-copies";
    }
    return "?";
}

namespace {

const char *NS10 = "http://www.cellml.org/cellml/1.0#";
const char *NS11 = "http://www.cellml.org/cellml/1.1#";
const char *NS20 = "http://www.cellml.org/cellml/2.0#";
const char *NSMATH = "http://www.w3.org/1998/Math/MathML";
const char *NSCMETA = "http://www.cellml.org/metadata/1.0#";
const char *NSEXT = "http://example.org/c14/extension";
const char *RDF = "<rdf:RDF xmlns:rdf=\"http://www.w3.org/1999/02/22-rdf-syntax-ns#\"><rdf:Description rdf:about=\"#thing\"><dc:title xmlns:dc=\"http://purl.org/dc/elements/1.1/\">a title</dc:title></rdf:Description></rdf:RDF>";

enum MathNs
{
    ON_MATH = 1,
    ON_MODEL = 2,
    ON_COMPONENT = 3,
    ON_CN = 4,
};

using Attr = std::pair<std::string, std::string>;
using Attrs = std::vector<Attr>;

struct W
{
    const ModelSpec &spec;
    const C14Options &opt;
    Src &src;
    C14Doc doc;
    std::ostringstream o;
    int depth = 0;
    const std::string ns;
    std::string modelPfx = "cellml", compPfx = "cellml";
    bool modelDeclares = false; // xmlns:<modelPfx> on the model element
    std::vector<std::vector<std::string>> math; // transformed math blocks per component
    std::vector<bool> compDeclares; // xmlns:<compPfx> on the component element
    std::vector<int> home; // per units: component index it is declared in, -1 = model
    std::string elemPfx; // "" or "cellml:" ...: prefix of every CellML element
    std::string mathmlModelPfx; // MATHML_NS_ANCESTOR: "" = MathML is the default namespace of the document, else prefix declared on model
    bool mathmlOnModel = false;
    std::vector<std::vector<int>> copiesIn; // SCOPED_UNITS_COPIES: per units, the components holding a copy
    std::string deepKind; // DEEP_EXTRAS: chosen location
    bool deepDone = false;

    W(const ModelSpec &s, const C14Options &op, Src &sr)
        : spec(s)
        , opt(op)
        , src(sr)
        , ns(op.version == 10 ? NS10 : NS11)
    {
    }

    bool special(C14Special s) const { return opt.special == s; }

    // ---- low level
    void nl()
    {
        if (!opt.pretty) {
            return;
        }
        o << "\n";
        for (int i = 0; i < depth; ++i) {
            o << "  ";
        }
        if (src.below(12) == 11) {
            o << "<!-- a comment -->";
        }
    }
    void shuffle(Attrs &a)
    {
        if (!opt.shuffleAttrs) {
            return;
        }
        for (size_t i = a.size(); i > 1; --i) {
            size_t j = static_cast<size_t>(src.below(i)); // 0 = keep
            std::swap(a[i - 1], a[i - 1 - j]);
        }
    }
    void open(const std::string &name, Attrs attrs, bool selfClose)
    {
        nl();
        if (name.find(':') == std::string::npos) {
            ++doc.counts[name];
        }
        shuffle(attrs);
        o << "<" << (name.find(':') == std::string::npos ? elemPfx : std::string()) << name;
        for (const auto &a : attrs) {
            o << " " << a.first << "=\"" << xmlEscape(a.second) << "\"";
        }
        o << (selfClose ? "/>" : ">");
        if (!selfClose) {
            ++depth;
        }
    }
    void close(const std::string &name)
    {
        --depth;
        nl();
        o << "</" << (name.find(':') == std::string::npos ? elemPfx : std::string()) << name << ">";
    }
    void raw(const std::string &s)
    {
        nl();
        o << s;
    }
    void rdf()
    {
        raw(RDF);
        ++doc.extrasWritten;
    }
    void addId(Attrs &a, const std::string &id)
    {
        if (id.empty()) {
            return;
        }
        bool cmeta = opt.cmetaId && !(opt.mixIds && src.flip(30));
        if (cmeta) {
            doc.cmetaIdUsed = true;
        }
        a.emplace_back(cmeta ? "cmeta:id" : "id", id);
    }
    void extAttr(Attrs &a)
    {
        a.emplace_back("ext:note", "to be dropped");
        ++doc.extrasWritten;
    }
    std::string spell(const std::string &u)
    {
        if (opt.oldSpellings) {
            if (u == "litre") {
                doc.oldSpellingUsed = true;
                return "liter";
            }
            if (u == "metre") {
                doc.oldSpellingUsed = true;
                return "meter";
            }
        }
        return u;
    }
    static std::string num(double v)
    {
        char buf[64];
        for (int prec = 1; prec <= 17; ++prec) {
            snprintf(buf, sizeof buf, "%.*g", prec, v);
            if (strtod(buf, nullptr) == v) {
                break;
            }
        }
        std::string s = buf;
        size_t p = s.find("e+");
        if (p != std::string::npos) {
            s.erase(p + 1, 1);
        }
        return s;
    }
    bool deep(const char *kind)
    {
        // DEEP_EXTRAS writes exactly one deep construct: at the first opportunity of the chosen kind.
        if (!special(C14Special::DEEP_EXTRAS) || deepDone || deepKind != kind) {
            return false;
        }
        deepDone = true;
        doc.specialRealised = true;
        return true;
    }

    // ---- math
    std::string transformMath(const std::string &m, int placement, const std::string &pfx)
    {
        std::string r = m;
        // 1. drop the 2.0 declaration of the generator's math block (with the white space in front of it)
        const std::string decl = std::string("xmlns:cellml=\"") + NS20 + "\"";
        size_t p = r.find(decl);
        if (p != std::string::npos) {
            size_t b = p;
            while (b > 0 && (r[b - 1] == ' ' || r[b - 1] == '\n' || r[b - 1] == '\t')) {
                --b;
            }
            r.erase(b, p + decl.size() - b);
        }
        const std::string nsDecl = "xmlns:" + pfx + "=\"" + ns + "\"";
        // 2. the cn elements
        const std::string from = "<cn cellml:units=\"";
        size_t q = 0;
        int cns = 0;
        while ((q = r.find(from, q)) != std::string::npos) {
            size_t vs = q + from.size();
            size_t ve = r.find('"', vs);
            std::string units = r.substr(vs, ve - vs);
            if (special(C14Special::SPELLING_IN_MATH) && (units == "litre" || units == "metre")) {
                units = units == "litre" ? "liter" : "meter";
                doc.specialRealised = true;
            }
            std::string repl = "<cn ";
            if (placement == ON_CN) {
                repl += src.flip(50) ? pfx + ":units=\"" + units + "\" " + nsDecl : nsDecl + " " + pfx + ":units=\"" + units + "\"";
            } else {
                repl += pfx + ":units=\"" + units + "\"";
            }
            r.replace(q, ve + 1 - q, repl);
            q += repl.size();
            ++cns;
        }
        doc.cnCount += cns;
        if (cns > 0) {
            doc.mathWithUnits = true;
        }
        // 3. declaration on <math> (also when there is no cn: an unused declaration has to be dropped quietly)
        if (placement == ON_MATH) {
            size_t e = r.find('>');
            size_t at = 5; // after "<math"
            if (src.flip(50)) {
                at = e;
            }
            r.insert(at, " " + nsDecl);
        }
        // 4. a local xmlns:cmeta (math blocks that carry cmeta:id): keep it, or rely on the declaration on the model element
        {
            const std::string cdecl = std::string("xmlns:cmeta=\"") + NSCMETA + "\"";
            size_t cp = r.find(cdecl);
            if (cp != std::string::npos) {
                size_t tagEnd = r.find('>');
                bool idOnMath = r.substr(0, tagEnd).find("cmeta:id=") != std::string::npos;
                bool strip = special(C14Special::MATH_ELEMENT_ID) ? true : (idOnMath ? false : src.flip(50));
                if (strip) {
                    size_t b = cp;
                    while (b > 0 && (r[b - 1] == ' ' || r[b - 1] == '\n' || r[b - 1] == '\t')) {
                        --b;
                    }
                    r.erase(b, cp + cdecl.size() - b);
                    doc.cmetaDeclOnModelOnly = true;
                    if (special(C14Special::MATH_ELEMENT_ID) && idOnMath) {
                        doc.specialRealised = true;
                    }
                }
                doc.cmetaIdUsed = true;
            }
        }
        // 5. MathML namespace: default on <math> (as generated), prefixed with a local declaration, or taken from the model element
        {
            const std::string mdecl = std::string("xmlns=\"") + NSMATH + "\"";
            std::string mp; // element prefix for this block
            bool dropDecl = false;
            if (special(C14Special::MATHML_NS_ANCESTOR)) {
                dropDecl = true;
                mp = mathmlModelPfx;
                mathmlOnModel = true;
                doc.specialRealised = true;
            } else if (opt.mathmlPrefix && src.flip(60)) {
                mp = "m";
            }
            size_t mpos = r.find(mdecl);
            if (mpos != std::string::npos && (dropDecl || !mp.empty())) {
                if (dropDecl) {
                    size_t b = mpos;
                    while (b > 0 && (r[b - 1] == ' ' || r[b - 1] == '\n' || r[b - 1] == '\t')) {
                        --b;
                    }
                    r.erase(b, mpos + mdecl.size() - b);
                } else {
                    r.replace(mpos, mdecl.size(), "xmlns:" + mp + "=\"" + NSMATH + "\"");
                }
            }
            if (!mp.empty()) {
                std::string t;
                for (size_t i = 0; i < r.size(); ++i) {
                    t += r[i];
                    if (r[i] == '<') {
                        size_t k = i + 1;
                        if (k < r.size() && r[k] == '/') {
                            t += '/';
                            ++i;
                            ++k;
                        }
                        if (k < r.size() && ((r[k] >= 'a' && r[k] <= 'z') || (r[k] >= 'A' && r[k] <= 'Z'))) {
                            t += mp + ":";
                        }
                    }
                }
                r = t;
                doc.mathmlPrefixed = true;
            }
        }
        if (cns > 0) {
            switch (placement) {
            case ON_MATH: doc.nsOnMath = true; break;
            case ON_MODEL: doc.nsOnModel = true; break;
            case ON_COMPONENT: doc.nsOnComponent = true; break;
            default: doc.nsOnCn = true; break;
            }
            if (pfx != "cellml") {
                doc.nsOtherPrefix = true;
            }
        }
        return r;
    }

    void planMath()
    {
        static const std::vector<std::string> prefixes = {"cellml", "cellml", "cml", "c1", "units"};
        modelPfx = src.pick(prefixes);
        compPfx = src.pick(prefixes);
        if (opt.elementPrefix) {
            elemPfx = src.flip(50) ? "c:" : "cellml:";
        }
        if (special(C14Special::MATHML_NS_ANCESTOR)) {
            if (src.flip(50)) {
                mathmlModelPfx = ""; // MathML is the default namespace of the document: the CellML elements need a prefix
                if (elemPfx.empty()) {
                    elemPfx = "cellml:";
                }
            } else {
                mathmlModelPfx = src.flip(50) ? "m" : "mathml";
            }
        }
        math.resize(spec.comps.size());
        compDeclares.assign(spec.comps.size(), false);
        for (size_t ci = 0; ci < spec.comps.size(); ++ci) {
            const auto &c = spec.comps[ci];
            if (c.import >= 0) {
                continue;
            }
            for (const auto &m : c.math) {
                int placement = opt.mathNs != 0 ? opt.mathNs : 1 + static_cast<int>(src.below(4));
                std::string pfx = "cellml";
                if (placement == ON_MODEL) {
                    pfx = modelPfx;
                    modelDeclares = true;
                } else if (placement == ON_COMPONENT) {
                    pfx = compPfx;
                    compDeclares[ci] = true;
                } else {
                    pfx = src.pick(prefixes);
                    if (src.below(6) == 5) {
                        modelDeclares = true; // an additional, possibly shadowed, declaration on the model element
                    }
                }
                math[ci].push_back(transformMath(m, placement, pfx));
            }
        }
    }

    // ---- units
    void planUnits()
    {
        home.assign(spec.units.size(), -1);
        copiesIn.assign(spec.units.size(), {});
        modelToo.assign(spec.units.size(), false);
        if (special(C14Special::SCOPED_UNITS_COPIES)) {
            planCopies();
        }
        if (!opt.unitsInComponents) {
            return;
        }
        std::vector<int> localComps;
        for (size_t ci = 0; ci < spec.comps.size(); ++ci) {
            if (spec.comps[ci].import < 0) {
                localComps.push_back(static_cast<int>(ci));
            }
        }
        if (localComps.empty()) {
            return;
        }
        for (size_t k = spec.units.size(); k > 0; --k) {
            size_t ui = k - 1;
            const auto &u = spec.units[ui];
            if (u.import >= 0 || !copiesIn[ui].empty() || pinnedToModel.count(ui) != 0) {
                continue;
            }
            std::set<int> where;
            bool eligible = true;
            for (size_t ci = 0; ci < spec.comps.size(); ++ci) {
                const auto &c = spec.comps[ci];
                bool uses = false;
                for (const auto &v : c.vars) {
                    uses = uses || v.units == u.name;
                }
                for (const auto &m : c.math) {
                    uses = uses || m.find("units=\"" + u.name + "\"") != std::string::npos;
                }
                if (uses) {
                    where.insert(static_cast<int>(ci));
                }
            }
            for (size_t vi = ui + 1; vi < spec.units.size(); ++vi) {
                const auto &v = spec.units[vi];
                for (const auto &child : v.units) {
                    if (child.ref == u.name) {
                        if (home[vi] < 0) {
                            eligible = false; // a model-level definition refers to it
                        } else {
                            where.insert(home[vi]);
                        }
                    }
                }
            }
            if (!eligible || where.size() > 1) {
                continue;
            }
            if (src.below(10) >= 8) {
                continue; // eligible, but stays at the model level
            }
            home[ui] = where.empty() ? src.pick(localComps) : *where.begin();
            doc.componentUnits = true;
        }
    }

    std::vector<bool> modelToo;
    std::set<size_t> pinnedToModel;
    std::set<int> usersOf(const UnitsSpec &u) const
    {
        std::set<int> where;
        for (size_t ci = 0; ci < spec.comps.size(); ++ci) {
            const auto &c = spec.comps[ci];
            bool uses = false;
            for (const auto &v : c.vars) {
                uses = uses || v.units == u.name;
            }
            for (const auto &m : c.math) {
                uses = uses || m.find("units=\"" + u.name + "\"") != std::string::npos;
            }
            if (uses) {
                where.insert(static_cast<int>(ci));
            }
        }
        return where;
    }
    // SCOPED_UNITS_COPIES: a units that is used by two or more components and referred to by no other units is declared,
    // identically, inside each of these components (legal 1.x scoping; what a rewriter that copies units next to their
    // users produces). The units it refers to stay at the model level, where every copy can see them.
    void planCopies()
    {
        for (size_t ui = 0; ui < spec.units.size(); ++ui) {
            const auto &u = spec.units[ui];
            if (u.import >= 0 || u.units.empty()) {
                continue; // (two base units of the same name in two components would be two different units)
            }
            bool referred = false;
            for (const auto &v : spec.units) {
                for (const auto &child : v.units) {
                    referred = referred || child.ref == u.name;
                }
            }
            std::set<int> where = usersOf(u);
            if (referred || where.size() < 2) {
                continue;
            }
            copiesIn[ui].assign(where.begin(), where.end());
            modelToo[ui] = src.flip(30);
            for (const auto &child : u.units) {
                for (size_t ri = 0; ri < spec.units.size(); ++ri) {
                    if (spec.units[ri].name == child.ref) {
                        pinnedToModel.insert(ri);
                    }
                }
            }
            doc.specialRealised = true;
            doc.componentUnits = true;
        }
    }

    void writeUnits(const UnitsSpec &u, bool withIds = true)
    {
        Attrs a {{"name", u.name}};
        if (withIds) {
            addId(a, u.id);
        }
        if (u.units.empty()) {
            a.emplace_back("base_units", "yes");
        } else if (opt.explicitDefaults && src.flip(50)) {
            a.emplace_back("base_units", "no");
        }
        if (opt.extras && src.flip(25)) {
            extAttr(a);
        }
        bool deepChild = deep("units-child-rdf");
        if (u.units.empty() && !deepChild) {
            open("units", a, true);
            return;
        }
        open("units", a, false);
        if (deepChild) {
            raw(RDF);
        }
        for (const auto &c : u.units) {
            Attrs ua {{"units", spell(c.ref)}};
            if (!c.prefix.empty()) {
                ua.emplace_back("prefix", c.prefix);
            } else if (opt.explicitDefaults && src.flip(40)) {
                ua.emplace_back("prefix", "0");
            }
            if (c.exponent != 1.0) {
                ua.emplace_back("exponent", num(c.exponent));
            } else if (opt.explicitDefaults && src.flip(40)) {
                ua.emplace_back("exponent", src.flip(50) ? "1.0" : "1");
            }
            if (c.multiplier != 1.0) {
                ua.emplace_back("multiplier", num(c.multiplier));
            } else if (opt.explicitDefaults && src.flip(40)) {
                ua.emplace_back("multiplier", src.flip(50) ? "1.0" : "1");
            }
            if (deep("unit-offset-attr")) {
                ua.emplace_back("offset", src.flip(50) ? "0.0" : "0");
            }
            if (withIds) {
                addId(ua, c.id);
            }
            if (deep("unit-ext-attr")) {
                ua.emplace_back("ext:note", "deep");
            }
            if (deep("unit-child-rdf")) {
                open("unit", ua, false);
                raw(RDF);
                close("unit");
            } else {
                open("unit", ua, true);
            }
        }
        close("units");
    }

    // ---- variables
    void writeVariable(const VarSpec &v)
    {
        Attrs a {{"name", v.name}};
        if (!v.units.empty()) {
            a.emplace_back("units", spell(v.units));
        }
        if (!v.initial.empty()) {
            a.emplace_back("initial_value", v.initial);
        }
        bool pub = v.iface == "public" || v.iface == "public_and_private";
        bool priv = v.iface == "private" || v.iface == "public_and_private";
        std::string pubV, privV;
        if (pub && priv) {
            switch (src.below(3)) { // in/in is not valid CellML 1.x
            case 0:
                pubV = "out";
                privV = "out";
                break;
            case 1:
                pubV = "in";
                privV = "out";
                break;
            default:
                pubV = "out";
                privV = "in";
                break;
            }
        } else if (pub) {
            pubV = src.flip(50) ? "in" : "out";
        } else if (priv) {
            privV = src.flip(50) ? "in" : "out";
        }
        if (special(C14Special::EXPLICIT_NONE)) {
            bool force = !doc.specialRealised;
            if (pubV.empty() && (force || src.flip(50))) {
                pubV = "none";
                doc.specialRealised = true;
                force = false;
            }
            if (privV.empty() && (force || src.flip(50))) {
                privV = "none";
                doc.specialRealised = true;
            }
        }
        Attrs ifc;
        if (!pubV.empty()) {
            ifc.emplace_back("public_interface", pubV);
        }
        if (!privV.empty()) {
            ifc.emplace_back("private_interface", privV);
        }
        if (ifc.size() == 2) {
            doc.bothInterfaceAttrs = true;
            // the relative order of the two interface attributes is decided here, independently of the general shuffle
            if (src.flip(50)) {
                std::swap(ifc[0], ifc[1]);
            }
        }
        a.insert(a.end(), ifc.begin(), ifc.end());
        addId(a, v.id);
        if (opt.extras && src.flip(15)) {
            extAttr(a);
        }
        shuffle(a);
        if (ifc.size() == 2) {
            size_t pp = 0, pq = 0;
            for (size_t i = 0; i < a.size(); ++i) {
                if (a[i].first == "public_interface") {
                    pp = i;
                }
                if (a[i].first == "private_interface") {
                    pq = i;
                }
            }
            (pp < pq ? doc.publicBeforePrivate : doc.privateBeforePublic) = true;
        }
        bool child = opt.extras && src.flip(15);
        // attributes are already in their final order: bypass the shuffle of open()
        nl();
        ++doc.counts["variable"];
        o << "<" << elemPfx << "variable";
        for (const auto &at : a) {
            o << " " << at.first << "=\"" << xmlEscape(at.second) << "\"";
        }
        if (child) {
            o << ">";
            ++depth;
            rdf();
            close("variable");
        } else {
            o << "/>";
        }
    }

    // ---- components
    void writeComponent(size_t ci)
    {
        const auto &c = spec.comps[ci];
        Attrs a {{"name", c.name}};
        addId(a, c.id);
        if (compDeclares[ci]) {
            a.emplace_back("xmlns:" + compPfx, ns);
        }
        if (opt.extras && src.flip(20)) {
            extAttr(a);
        }
        std::vector<size_t> unitsHere;
        std::set<size_t> withoutIds;
        for (size_t ui = 0; ui < spec.units.size(); ++ui) {
            if (home[ui] == static_cast<int>(ci)) {
                unitsHere.push_back(ui);
            }
            for (size_t k = 0; k < copiesIn[ui].size(); ++k) {
                if (copiesIn[ui][k] == static_cast<int>(ci)) {
                    unitsHere.push_back(ui);
                    if (modelToo[ui] || k > 0) {
                        withoutIds.insert(ui); // XML ids are unique: the first copy carries them
                    }
                }
            }
        }
        bool rdfChild = opt.extras && src.flip(25);
        bool reaction = opt.extras && !c.vars.empty() && src.flip(20);
        bool kids = !c.vars.empty() || !math[ci].empty() || !unitsHere.empty() || rdfChild || reaction;
        open("component", a, !kids);
        if (!kids) {
            return;
        }
        int unitsPos = unitsHere.empty() ? 0 : static_cast<int>(src.below(3)); // before the variables, after them, after the math
        auto writeUnitsHere = [&]() {
            for (size_t ui : unitsHere) {
                writeUnits(spec.units[ui], withoutIds.count(ui) == 0);
            }
        };
        if (rdfChild && src.flip(50)) {
            rdf();
            rdfChild = false;
        }
        if (unitsPos == 0) {
            writeUnitsHere();
        }
        for (const auto &v : c.vars) {
            writeVariable(v);
        }
        if (unitsPos == 1) {
            writeUnitsHere();
        }
        if (reaction) {
            open("reaction", {{"reversible", "no"}}, false);
            open("variable_ref", {{"variable", c.vars[0].name}}, false);
            open("role", {{"role", "reactant"}, {"stoichiometry", "1"}}, true);
            close("variable_ref");
            close("reaction");
            ++doc.extrasWritten;
        }
        for (const auto &m : math[ci]) {
            raw(m);
        }
        if (unitsPos == 2) {
            writeUnitsHere();
        }
        if (rdfChild) {
            rdf();
        }
        close("component");
    }

    // ---- encapsulation
    void writeComponentRef(int ci, bool recurse, bool withId)
    {
        const auto &c = spec.comps[static_cast<size_t>(ci)];
        Attrs a {{"component", c.name}};
        if (withId) {
            addId(a, c.encId);
        }
        if (deep("component_ref-ext-attr")) {
            a.emplace_back("ext:note", "deep");
        }
        auto kids = recurse ? spec.childrenOf(ci) : std::vector<int>();
        bool deepChild = deep("component_ref-child-rdf");
        if (kids.empty() && !deepChild) {
            open("component_ref", a, true);
            return;
        }
        open("component_ref", a, false);
        if (deepChild) {
            raw(RDF);
        }
        for (int k : kids) {
            writeComponentRef(k, true, true);
        }
        close("component_ref");
    }
    void openGroup(bool encapsulation)
    {
        Attrs ga;
        if (encapsulation && !spec.encId.empty()) {
            // GROUP_CONNECTION_ID: the id of the 2.0 encapsulation element sits on the encapsulation group
            addId(ga, spec.encId);
            doc.specialRealised = true;
        } else if (!encapsulation && opt.extras && src.flip(30)) {
            ga.emplace_back("cmeta:id", "containment_group_id_to_be_dropped");
            ++doc.extrasWritten;
        }
        open("group", ga, false);
        ++doc.groups;
    }
    void relationshipRefs(bool encapsulation, bool alsoContainment)
    {
        Attrs ra;
        if (encapsulation) {
            ra = {{"relationship", "encapsulation"}};
            if (alsoContainment && src.flip(50)) {
                open("relationship_ref", {{"relationship", "containment"}, {"name", "geometric"}}, true);
                alsoContainment = false;
            }
            open("relationship_ref", ra, true);
            if (alsoContainment) {
                open("relationship_ref", {{"relationship", "containment"}, {"name", "geometric"}}, true);
            }
        } else {
            open("relationship_ref", {{"relationship", "containment"}, {"name", "physical"}}, true);
        }
    }
    // One encapsulation group made of the given component_ref writers.
    void writeEncapsulationGroup(const std::vector<std::function<void()>> &refs)
    {
        openGroup(true);
        bool both = opt.extras && src.flip(20);
        if (both) {
            ++doc.extrasWritten;
        }
        bool refFirst = !src.flip(25);
        if (refFirst) {
            relationshipRefs(true, both);
        }
        if (deep("group-child-rdf")) {
            raw(RDF);
        }
        for (const auto &r : refs) {
            r();
        }
        if (!refFirst) {
            relationshipRefs(true, both);
        }
        close("group");
        doc.encapsulationGroup = true;
    }
    void writeContainmentGroup()
    {
        if (spec.comps.empty()) {
            return;
        }
        openGroup(false);
        relationshipRefs(false, false);
        const auto &c = spec.comps.front();
        if (spec.comps.size() > 1) {
            open("component_ref", {{"component", c.name}}, false);
            open("component_ref", {{"component", spec.comps.back().name}}, true);
            close("component_ref");
        } else {
            open("component_ref", {{"component", c.name}}, true);
        }
        close("group");
        ++doc.extrasWritten;
    }

    // ---- connections
    void writeConnection(const ConnSpec &cn)
    {
        const auto &c1 = spec.comps[static_cast<size_t>(cn.c1)];
        const auto &c2 = spec.comps[static_cast<size_t>(cn.c2)];
        bool swap = src.flip(40);
        Attrs ca {{"component_1", swap ? c2.name : c1.name}, {"component_2", swap ? c1.name : c2.name}};
        Attrs conA;
        if (special(C14Special::GROUP_CONNECTION_ID) && !cn.id.empty() && (!connIdMoved || src.flip(60))) {
            addId(conA, cn.id); // on <connection>, the element that carries it in 2.0
            connIdMoved = true;
            doc.specialRealised = true;
        } else {
            addId(ca, cn.id);
        }
        if (opt.extras && src.flip(20)) {
            extAttr(ca);
        }
        open("connection", conA, false);
        bool componentsLast = src.below(8) == 7;
        auto mapComponents = [&]() {
            if (deep("map_components-child-rdf")) {
                open("map_components", ca, false);
                raw(RDF);
                close("map_components");
            } else {
                open("map_components", ca, true);
            }
        };
        if (!componentsLast) {
            mapComponents();
        }
        if (deep("connection-child-rdf")) {
            raw(RDF);
        }
        for (const auto &m : cn.maps) {
            const std::string &n1 = c1.vars[static_cast<size_t>(m.v1)].name;
            const std::string &n2 = c2.vars[static_cast<size_t>(m.v2)].name;
            Attrs ma {{"variable_1", swap ? n2 : n1}, {"variable_2", swap ? n1 : n2}};
            addId(ma, m.id);
            if (deep("map_variables-ext-attr")) {
                ma.emplace_back("ext:note", "deep");
            }
            if (deep("map_variables-child-rdf")) {
                open("map_variables", ma, false);
                raw(RDF);
                close("map_variables");
            } else {
                open("map_variables", ma, true);
            }
        }
        if (componentsLast) {
            mapComponents();
        }
        close("connection");
    }

    // ---- imports (1.1 only)
    void writeImport(size_t ii)
    {
        Attrs ia {{"xlink:href", spec.imports[ii].url}};
        if (src.flip(50)) {
            ia.emplace_back("xmlns:xlink", "http://www.w3.org/1999/xlink");
        } else {
            modelXlink = true;
        }
        addId(ia, spec.imports[ii].id);
        if (deep("import-ext-attr")) {
            ia.emplace_back("ext:note", "deep");
        }
        open("import", ia, false);
        if (opt.extras && src.flip(25)) {
            rdf();
        }
        for (const auto &u : spec.units) {
            if (u.import == static_cast<int>(ii)) {
                Attrs ua {{"name", u.name}, {"units_ref", u.importRef}};
                addId(ua, u.id);
                if (deep("import-child-ext-attr")) {
                    ua.emplace_back("ext:note", "deep");
                }
                open("units", ua, true);
            }
        }
        for (const auto &c : spec.comps) {
            if (c.import == static_cast<int>(ii)) {
                Attrs ca {{"name", c.name}, {"component_ref", c.importRef}};
                addId(ca, c.id);
                if (deep("import-child-ext-attr")) {
                    ca.emplace_back("ext:note", "deep");
                }
                open("component", ca, true);
            }
        }
        close("import");
    }
    bool modelXlink = false;
    bool connIdMoved = false;

    // ---- document
    C14Doc run()
    {
        planMath();
        planUnits();
        // which deep construct (DEEP_EXTRAS): chosen among the locations the model offers
        if (special(C14Special::DEEP_EXTRAS)) {
            std::vector<std::string> kinds;
            bool localUnits = false, unitChild = false, conn = false, enc = false, imp = false;
            for (const auto &u : spec.units) {
                localUnits = localUnits || u.import < 0;
                unitChild = unitChild || (u.import < 0 && !u.units.empty());
                imp = imp || u.import >= 0;
            }
            for (const auto &cn : spec.conns) {
                conn = conn || !cn.maps.empty();
            }
            for (const auto &c : spec.comps) {
                enc = enc || c.parent >= 0;
                imp = imp || c.import >= 0;
            }
            if (localUnits) {
                kinds.emplace_back("units-child-rdf");
            }
            if (unitChild) {
                kinds.emplace_back("unit-ext-attr");
                kinds.emplace_back("unit-offset-attr");
                kinds.emplace_back("unit-child-rdf");
            }
            if (conn) {
                kinds.emplace_back("map_variables-ext-attr");
                kinds.emplace_back("map_variables-child-rdf");
                kinds.emplace_back("map_components-child-rdf");
                kinds.emplace_back("connection-child-rdf");
            }
            if (enc) {
                kinds.emplace_back("component_ref-ext-attr");
                kinds.emplace_back("component_ref-child-rdf");
                kinds.emplace_back("group-child-rdf");
            }
            if (imp) {
                kinds.emplace_back("import-ext-attr");
                kinds.emplace_back("import-child-ext-attr");
            }
            if (!kinds.empty()) {
                deepKind = src.pick(kinds);
                doc.specialDetail = deepKind;
            }
        }

        // children of model, as closures, so that they can be interleaved
        std::vector<std::function<void()>> items;
        for (size_t ii = 0; ii < spec.imports.size(); ++ii) {
            bool used = false;
            for (const auto &u : spec.units) {
                used = used || u.import == static_cast<int>(ii);
            }
            for (const auto &c : spec.comps) {
                used = used || c.import == static_cast<int>(ii);
            }
            if (used) {
                items.emplace_back([this, ii]() { writeImport(ii); });
            }
        }
        for (size_t ui = 0; ui < spec.units.size(); ++ui) {
            if (spec.units[ui].import < 0 && home[ui] < 0 && (copiesIn[ui].empty() || modelToo[ui])) {
                items.emplace_back([this, ui]() { writeUnits(spec.units[ui]); });
            }
        }
        for (size_t ci = 0; ci < spec.comps.size(); ++ci) {
            if (spec.comps[ci].import < 0) {
                items.emplace_back([this, ci]() { writeComponent(ci); });
            }
        }
        for (const auto &cn : spec.conns) {
            if (!cn.maps.empty()) {
                const ConnSpec *p = &cn;
                items.emplace_back([this, p]() { writeConnection(*p); });
            }
        }
        // encapsulation
        std::vector<int> roots, parents;
        for (size_t ci = 0; ci < spec.comps.size(); ++ci) {
            if (!spec.childrenOf(static_cast<int>(ci)).empty()) {
                parents.push_back(static_cast<int>(ci));
                if (spec.comps[ci].parent < 0) {
                    roots.push_back(static_cast<int>(ci));
                }
            }
        }
        bool containmentFirst = opt.extras && src.flip(50);
        if (opt.extras && containmentFirst) {
            items.emplace_back([this]() { writeContainmentGroup(); });
        }
        if (!roots.empty()) {
            bool split = special(C14Special::SPLIT_GROUPS) && parents.size() >= 2;
            if (split) {
                doc.specialRealised = true;
                bool perRoot = roots.size() >= 2 && !src.flip(50);
                if (perRoot) {
                    for (int r : roots) {
                        items.emplace_back([this, r]() { writeEncapsulationGroup({[this, r]() { writeComponentRef(r, true, true); }}); });
                    }
                } else {
                    // one group per parent, listing only its direct children
                    for (int p : parents) {
                        items.emplace_back([this, p]() {
                            writeEncapsulationGroup({[this, p]() {
                                const auto &pc = spec.comps[static_cast<size_t>(p)];
                                Attrs a {{"component", pc.name}};
                                if (pc.parent < 0) {
                                    addId(a, pc.encId);
                                }
                                open("component_ref", a, false);
                                for (int k : spec.childrenOf(p)) {
                                    writeComponentRef(k, false, true);
                                }
                                close("component_ref");
                            }});
                        });
                    }
                }
            } else {
                bool nested = false;
                for (int p : parents) {
                    nested = nested || spec.comps[static_cast<size_t>(p)].parent >= 0;
                }
                const bool trees = special(C14Special::SPLIT_TREES) && nested;
                if (trees) {
                    doc.specialRealised = true;
                }
                items.emplace_back([this, roots, parents, trees]() {
                    std::vector<std::function<void()>> refs;
                    if (trees) {
                        // one group, one component_ref tree per parent listing only its direct children (a>b, b>c)
                        for (int p : parents) {
                            refs.emplace_back([this, p]() {
                                const auto &pc = spec.comps[static_cast<size_t>(p)];
                                Attrs a {{"component", pc.name}};
                                if (pc.parent < 0) {
                                    addId(a, pc.encId);
                                }
                                open("component_ref", a, false);
                                for (int k : spec.childrenOf(p)) {
                                    writeComponentRef(k, false, true);
                                }
                                close("component_ref");
                            });
                        }
                        if (src.flip(40)) {
                            std::reverse(refs.begin(), refs.end());
                        }
                    } else {
                        for (int r : roots) {
                            refs.emplace_back([this, r]() { writeComponentRef(r, true, true); });
                        }
                    }
                    writeEncapsulationGroup(refs);
                });
            }
        }
        if (opt.extras && !containmentFirst) {
            items.emplace_back([this]() { writeContainmentGroup(); });
        }
        if (opt.extras) {
            items.emplace_back([this]() { rdf(); });
            if (src.flip(50)) {
                items.emplace_back([this]() {
                    raw("<documentation xmlns=\"http://cellml.org/tmp-documentation\"><article><title>dropped</title></article></documentation>");
                    ++doc.extrasWritten;
                });
            }
        }
        if (opt.shuffleChildren) {
            for (size_t i = items.size(); i > 1; --i) {
                size_t j = static_cast<size_t>(src.below(i));
                std::swap(items[i - 1], items[i - 1 - j]);
            }
        }

        // body first (it decides which declarations the model element needs), then the start tag
        std::ostringstream body;
        depth = 1;
        std::swap(o, body);
        for (const auto &it : items) {
            it();
        }
        std::swap(o, body);
        depth = 0;

        o << "<?xml version=\"1.0\" encoding=\"UTF-8\"?>";
        Attrs a;
        if (!spec.name.empty()) {
            a.emplace_back("name", spec.name);
        }
        const std::string ep = elemPfx.empty() ? std::string() : elemPfx.substr(0, elemPfx.size() - 1);
        const bool mathmlDefault = mathmlOnModel && mathmlModelPfx.empty();
        if (ep.empty()) {
            a.emplace_back("xmlns", ns);
        } else {
            a.emplace_back("xmlns:" + ep, ns);
            doc.cellmlElementsPrefixed = true;
            if (mathmlDefault) {
                a.emplace_back("xmlns", NSMATH);
            } else if (src.flip(30)) {
                a.emplace_back("xmlns", ns); // the default namespace is declared as well, but not used by the CellML elements
            }
        }
        if (mathmlOnModel && !mathmlModelPfx.empty()) {
            a.emplace_back("xmlns:" + mathmlModelPfx, NSMATH);
        }
        addId(a, spec.id);
        if (doc.cmetaIdUsed || opt.extras || opt.cmetaId || body.str().find("cmeta:") != std::string::npos) {
            a.emplace_back("xmlns:cmeta", NSCMETA);
        }
        if (modelDeclares && modelPfx != ep) {
            a.emplace_back("xmlns:" + modelPfx, ns);
        }
        if (modelXlink) {
            a.emplace_back("xmlns:xlink", "http://www.w3.org/1999/xlink");
        }
        if (opt.extras || special(C14Special::DEEP_EXTRAS)) {
            a.emplace_back("xmlns:ext", NSEXT);
        }
        if (opt.extras && src.flip(30)) {
            extAttr(a);
        }
        open("model", a, false);
        o << body.str();
        close("model");
        o << "\n";
        doc.text = o.str();
        return doc;
    }
};

void silentErr(void *, const char *, ...)
{
}

void walk(xmlNodePtr n, const std::string &ns, std::map<std::string, int> &counts, int &cn, int &cnBad)
{
    for (; n != nullptr; n = n->next) {
        if (n->type != XML_ELEMENT_NODE) {
            continue;
        }
        std::string href = n->ns != nullptr && n->ns->href != nullptr ? reinterpret_cast<const char *>(n->ns->href) : "";
        std::string name = reinterpret_cast<const char *>(n->name);
        if (href == ns) {
            ++counts[name];
        } else if (href == NSMATH && name == "cn") {
            ++cn;
            bool good = false;
            for (xmlAttrPtr a = n->properties; a != nullptr; a = a->next) {
                if (std::string(reinterpret_cast<const char *>(a->name)) == "units" && a->ns != nullptr && a->ns->href != nullptr && ns == reinterpret_cast<const char *>(a->ns->href)) {
                    good = true;
                }
            }
            if (!good) {
                ++cnBad;
            }
        }
        walk(n->children, ns, counts, cn, cnBad);
    }
}

} // namespace

C14LayoutSrc::C14LayoutSrc(Src &from, size_t n)
{
    uint64_t h = 1469598103934665603ULL;
    bool any = false;
    for (size_t i = 0; i < n; ++i) {
        uint32_t v = static_cast<uint32_t>(from.below(1ULL << 32));
        block.push_back(v);
        any = any || v != 0;
        h = (h ^ v) * 1099511628211ULL;
    }
    state = any ? (h | 1) : 0;
}

uint64_t C14LayoutSrc::raw(uint64_t n)
{
    if (pos < block.size()) {
        // The residues of raw tape values are not uniform (rapidcheck favours values with many bits set): mix first.
        // The mix maps 0 to 0, so shrinking towards 0 still means "simplest".
        uint32_t v = block[pos++];
        v *= 0x9E3779B1u;
        v ^= v >> 15;
        v *= 0x85EBCA77u;
        v ^= v >> 13;
        return v % n;
    }
    if (state == 0) {
        return 0;
    }
    state = state * 6364136223846793005ULL + 1442695040888963407ULL;
    return (state >> 33) % n;
}

C14Doc writeCellml1x(const ModelSpec &spec, const C14Options &opt, Src &src)
{
    W w(spec, opt, src);
    return w.run();
}

std::string c14SelfCheck(const C14Doc &doc, int version)
{
    xmlSetGenericErrorFunc(nullptr, silentErr);
    xmlSetStructuredErrorFunc(nullptr, nullptr);
    xmlDocPtr d = xmlReadMemory(doc.text.c_str(), static_cast<int>(doc.text.size()), "c14.xml", nullptr, XML_PARSE_NOERROR | XML_PARSE_NOWARNING | XML_PARSE_NONET);
    if (d == nullptr) {
        return "document is not well-formed";
    }
    const std::string ns = version == 10 ? NS10 : NS11;
    std::map<std::string, int> counts;
    int cn = 0, cnBad = 0;
    xmlNodePtr root = xmlDocGetRootElement(d);
    std::string err;
    if (root == nullptr || std::string(reinterpret_cast<const char *>(root->name)) != "model" || root->ns == nullptr || ns != reinterpret_cast<const char *>(root->ns->href)) {
        err = "root is not {" + ns + "}model";
    } else {
        walk(root, ns, counts, cn, cnBad);
        if (counts != doc.counts) {
            std::ostringstream s;
            s << "element counts differ: written";
            for (const auto &c : doc.counts) {
                s << " " << c.first << "=" << c.second;
            }
            s << " / parsed";
            for (const auto &c : counts) {
                s << " " << c.first << "=" << c.second;
            }
            err = s.str();
        } else if (cn != doc.cnCount) {
            err = "cn count differs: written " + std::to_string(doc.cnCount) + " parsed " + std::to_string(cn);
        } else if (cnBad != 0) {
            err = std::to_string(cnBad) + " cn element(s) without a units attribute in the " + ns + " namespace";
        }
    }
    xmlFreeDoc(d);
    return err;
}

} // namespace vp

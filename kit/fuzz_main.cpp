// libFuzzer driver: the fuzz input is either handed to property.runBytes (byte-level targets) or decoded as a
// choice tape (1, 2 or 4 bytes per choice depending on the radix) for property.run. The semantic oracle runs inside
// the target; an unlisted failure prints "VP-SEMANTIC-FAIL sig=..." and traps so that libFuzzer saves the input.
// Counters are flushed to $VP_PART at exit and from the sanitizer death callback.
#include <chrono>
#include <csignal>
#include <cstdio>
#include <cstdlib>
#include <cstring>
#include <fstream>
#include <iostream>
#include <unistd.h>

#include <typeinfo>

#include "prop.h"

extern "C" void __sanitizer_set_death_callback(void (*callback)(void));

using namespace vp;

namespace {

#include "stats.inc"

bool gInit = false;
bool gFlushed = false;

void flush()
{
    if (gFlushed) {
        return;
    }
    gFlushed = true;
    writePart();
    gFlushed = false;
}

void onDeath()
{
    gStats.counters["died"] = 1;
    writePart();
}

void init()
{
    gInit = true;
    setenv("LC_ALL", "C", 1);
    loadKnown();
    const char *p = getenv("VP_PART");
    gPart = p != nullptr ? p : "";
    gMode = "fuzz";
    const char *s = getenv("VP_SEED");
    gSeed = s != nullptr ? atol(s) : 1;
    gStart = std::chrono::steady_clock::now();
    if (property.setMode != nullptr) {
        property.setMode("fuzz", 0);
    }
    if (property.init != nullptr) {
        property.init();
    }
    atexit(flush);
    __sanitizer_set_death_callback(onDeath);
}

} // namespace

extern "C" int LLVMFuzzerTestOneInput(const uint8_t *data, size_t size)
{
    if (!gInit) {
        init();
    }
    Case c;
    try {
        if (property.runBytes != nullptr) {
            property.runBytes(data, size, c);
        } else {
            ByteSrc src(data, size);
            property.run(src, c);
        }
    } catch (const std::exception &e) {
        c.fail(std::string("uncaught:") + typeid(e).name() + "|" + e.what(), std::string("exception escaped to the caller: ") + e.what());
    }
    account(c);
    if ((gStats.evaluations & 0x3ff) == 0) {
        writePart(); // periodic flush: a SIGKILL (oom) must not lose everything
    }
    if (!c.ok) {
        int k = knownFindingIndex(property.id, c.sig);
        if (k >= 0) {
            ++gStats.knownHits[k];
            if (gStats.knownExample[k].empty()) {
                gStats.knownExample[k] = c.sig + " :: " + c.msg;
            }
            return 0;
        }
        gStats.violations = 1;
        gStats.violationSig = c.sig;
        gStats.violationMsg = c.msg;
        gStats.violationText = c.text;
        fprintf(stderr, "VP-SEMANTIC-FAIL sig=%s\nVP-SEMANTIC-MSG %s\n", c.sig.c_str(), c.msg.substr(0, 3000).c_str());
        fflush(stderr);
        writePart();
        __builtin_trap();
    }
    return 0;
}

// Executes generated code: the C implementation is compiled together with a generated driver into a program, the
// Python implementation is exec'd by a persistent worker process (support/py_worker.py). Both run the same call
// sequence and report the arrays after every step, the NLA residual at the pre-loaded solution and the info tables.
#pragma once
#include <string>
#include <vector>

namespace vp {

struct RunPlan
{
    bool ode = false; // model has a variable of integration / states
    bool externals = false; // code takes an external-variable callback
    double voi[2] = {0, 0};
    std::vector<double> states2; // state values at the second evaluation point (primary units)
    std::vector<std::pair<size_t, double>> preload[2]; // variables entries overwritten before the compute calls (NLA truth)
    std::vector<std::pair<size_t, double>> externalValues[2]; // value returned by the callback per variable index and point
    // C20: the entries of the external variables are set to NaN before the first call and again after the arrays have
    // been reported following each method, so that a method that reads one without calling the callback first shows.
    bool poisonExternals = false;
    // Stale-order protocol (ODE / DAE models only; default off). At the second evaluation point the driver calls
    // computeRates(point 2) and reports rates / variables as usual, then calls computeRates again at the FIRST point
    // (point-1 voi, states, NLA pre-load, external values - a complete, consistent point, so nothing is evaluated
    // outside the safe domain), and only then computeVariables(point 2) with the point-2 states, the point-2 rates
    // saved from the first call and the point-2 NLA pre-load. `variables` therefore holds point-1 intermediates when
    // computeVariables starts, as it does under an ODE solver that evaluates rates at trial points: whatever is state /
    // rate based or external has to be recomputed by computeVariables for the reported arrays to be right.
    bool staleOrder = false;
    // Stale order only: variables indices (a subset of those in preload[1]) that computeVariables has to re-solve. They
    // are pre-loaded with a sentinel instead of the solution before computeVariables(point 2); the solver stub replaces
    // a sentinel it is handed by the solution, so an NLA system that is not solved again keeps the sentinel.
    std::vector<size_t> staleResolve;
};

struct InfoEntry
{
    std::string name, units, component, type;
    size_t nameCap = 0, unitsCap = 0, componentCap = 0; // C: declared char[N] sizes
};

struct RunResult
{
    bool ok = false;
    std::string error; // compiler diagnostics / exception text / protocol error
    size_t stateCount = 0, variableCount = 0;
    bool hasStateCount = false;
    std::vector<double> initStates, initVars, ccVars;
    std::vector<double> rates[2], vars[2], states[2];
    std::vector<double> varsAfterRates[2]; // variables array right after computeRates (ODE models)
    double nlaResidual = 0.0;
    long nlaCalls = 0;
    InfoEntry voiInfo;
    bool hasVoiInfo = false;
    std::vector<InfoEntry> stateInfo, variableInfo;
    // One entry per callback invocation, in order: "<point> <index> <stage> | <states> | <variables>" (arrays as seen by
    // the callback), stage 0 = initialiseVariables, 1 = computeRates, 2 = computeVariables (C20).
    std::vector<std::string> externalCalls;
    std::string raw;
};

struct CodeRunner
{
    std::string dir; // scratch directory (created on demand below $VERIF_RUN_DIR or /verif/.build/run)
    CodeRunner();
    ~CodeRunner();
    // Compiles model.h + model.c + a generated driver and runs it. warnings (optional) receives the compiler's
    // diagnostics for model.c compiled on its own with -Wall -Wextra.
    bool runC(const std::string &interfaceCode, const std::string &implementationCode, const RunPlan &plan, RunResult &out, std::string *warnings = nullptr);
    bool runPython(const std::string &implementationCode, const RunPlan &plan, RunResult &out);
private:
    int pyIn = -1, pyOut = -1;
    long pyPid = -1;
    long counter = 0;
    bool startPython();
};

} // namespace vp

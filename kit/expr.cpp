#include "expr.h"

#include <algorithm>
#include <cstdio>
#include <cstdlib>
#include <sstream>

namespace vp {

const char *opName(Op op)
{
    switch (op) {
    case Op::CI: return "ci";
    case Op::CN: return "cn";
    case Op::CNE: return "cn";
    case Op::TRUE_: return "true";
    case Op::FALSE_: return "false";
    case Op::E: return "exponentiale";
    case Op::PI: return "pi";
    case Op::INF: return "infinity";
    case Op::NAN_: return "notanumber";
    case Op::EQ: return "eq";
    case Op::NEQ: return "neq";
    case Op::LT: return "lt";
    case Op::LEQ: return "leq";
    case Op::GT: return "gt";
    case Op::GEQ: return "geq";
    case Op::AND: return "and";
    case Op::OR: return "or";
    case Op::XOR: return "xor";
    case Op::NOT: return "not";
    case Op::PLUS: return "plus";
    case Op::MINUS: return "minus";
    case Op::TIMES: return "times";
    case Op::DIVIDE: return "divide";
    case Op::POWER: return "power";
    case Op::ROOT: return "root";
    case Op::ABS: return "abs";
    case Op::EXP: return "exp";
    case Op::LN: return "ln";
    case Op::LOG: return "log";
    case Op::CEILING: return "ceiling";
    case Op::FLOOR: return "floor";
    case Op::MIN: return "min";
    case Op::MAX: return "max";
    case Op::REM: return "rem";
    case Op::SIN: return "sin";
    case Op::COS: return "cos";
    case Op::TAN: return "tan";
    case Op::SEC: return "sec";
    case Op::CSC: return "csc";
    case Op::COT: return "cot";
    case Op::SINH: return "sinh";
    case Op::COSH: return "cosh";
    case Op::TANH: return "tanh";
    case Op::SECH: return "sech";
    case Op::CSCH: return "csch";
    case Op::COTH: return "coth";
    case Op::ASIN: return "arcsin";
    case Op::ACOS: return "arccos";
    case Op::ATAN: return "arctan";
    case Op::ASEC: return "arcsec";
    case Op::ACSC: return "arccsc";
    case Op::ACOT: return "arccot";
    case Op::ASINH: return "arcsinh";
    case Op::ACOSH: return "arccosh";
    case Op::ATANH: return "arctanh";
    case Op::ASECH: return "arcsech";
    case Op::ACSCH: return "arccsch";
    case Op::ACOTH: return "arccoth";
    case Op::PIECEWISE: return "piecewise";
    case Op::DIFF: return "diff";
    }
    return "?";
}

bool isLeaf(Op op)
{
    return op <= Op::NAN_;
}
bool isTrig(Op op)
{
    return op >= Op::SIN && op <= Op::ACOTH;
}
bool isRelational(Op op)
{
    return op >= Op::EQ && op <= Op::GEQ;
}
bool isLogical(Op op)
{
    return op >= Op::AND && op <= Op::NOT;
}

static bool isBasicReal(const std::string &s)
{
    // -?(D+ .? D* | . D+)
    size_t i = 0;
    if (i < s.size() && s[i] == '-') {
        ++i;
    }
    size_t digits = 0, dots = 0;
    for (; i < s.size(); ++i) {
        if (s[i] >= '0' && s[i] <= '9') {
            ++digits;
        } else if (s[i] == '.') {
            ++dots;
        } else {
            return false;
        }
    }
    return digits > 0 && dots <= 1;
}

std::string numText(double v)
{
    // Try increasing precision in %f-free positional notation; fall back to a long fixed expansion.
    char buf[400];
    for (int prec = 1; prec <= 17; ++prec) {
        snprintf(buf, sizeof buf, "%.*g", prec, v);
        if (strtod(buf, nullptr) == v) {
            std::string s = buf;
            if (isBasicReal(s)) {
                return s;
            }
            break;
        }
    }
    // has an exponent: expand
    snprintf(buf, sizeof buf, "%.330f", v);
    std::string s = buf;
    // trim trailing zeros while preserving the value
    size_t dot = s.find('.');
    if (dot != std::string::npos) {
        size_t end = s.size();
        while (end > dot + 2 && s[end - 1] == '0') {
            --end;
        }
        s.resize(end);
    }
    return s;
}

static std::string esc(const std::string &s)
{
    std::string o;
    for (char c : s) {
        switch (c) {
        case '&': o += "&amp;"; break;
        case '<': o += "&lt;"; break;
        case '>': o += "&gt;"; break;
        case '"': o += "&quot;"; break;
        default: o += c;
        }
    }
    return o;
}

static void writeExpr(std::ostringstream &o, const Expr &e, const std::string &pfx)
{
    switch (e.op) {
    case Op::CI:
        o << "<ci>" << esc(e.name) << "</ci>";
        return;
    case Op::CN:
        o << "<cn " << pfx << ":units=\"" << esc(e.units) << "\">" << (e.text.empty() ? numText(e.num) : e.text) << "</cn>";
        return;
    case Op::CNE:
        o << "<cn " << pfx << ":units=\"" << esc(e.units) << "\" type=\"e-notation\">" << (e.text.empty() ? numText(e.num) : e.text) << "<sep/>" << e.exp10 << "</cn>";
        return;
    case Op::TRUE_:
    case Op::FALSE_:
    case Op::E:
    case Op::PI:
    case Op::INF:
    case Op::NAN_:
        o << "<" << opName(e.op) << "/>";
        return;
    case Op::PIECEWISE: {
        o << "<piecewise>";
        size_t n = e.kids.size();
        size_t pieces = e.hasOtherwise ? (n - 1) / 2 : n / 2;
        for (size_t i = 0; i < pieces; ++i) {
            o << "<piece>";
            writeExpr(o, e.kids[2 * i], pfx);
            writeExpr(o, e.kids[2 * i + 1], pfx);
            o << "</piece>";
        }
        if (e.hasOtherwise) {
            o << "<otherwise>";
            writeExpr(o, e.kids[n - 1], pfx);
            o << "</otherwise>";
        }
        o << "</piecewise>";
        return;
    }
    case Op::DIFF:
        o << "<apply><diff/><bvar>";
        writeExpr(o, e.kids[0], pfx);
        o << "</bvar>";
        writeExpr(o, e.kids[1], pfx);
        o << "</apply>";
        return;
    case Op::ROOT:
        o << "<apply><root/>";
        if (e.kids.size() == 2) {
            o << "<degree>";
            writeExpr(o, e.kids[0], pfx);
            o << "</degree>";
            writeExpr(o, e.kids[1], pfx);
        } else {
            writeExpr(o, e.kids[0], pfx);
        }
        o << "</apply>";
        return;
    case Op::LOG:
        o << "<apply><log/>";
        if (e.kids.size() == 2) {
            o << "<logbase>";
            writeExpr(o, e.kids[0], pfx);
            o << "</logbase>";
            writeExpr(o, e.kids[1], pfx);
        } else {
            writeExpr(o, e.kids[0], pfx);
        }
        o << "</apply>";
        return;
    default:
        o << "<apply><" << opName(e.op) << "/>";
        for (const auto &k : e.kids) {
            writeExpr(o, k, pfx);
        }
        o << "</apply>";
        return;
    }
}

std::string exprToMathml(const Expr &e, const std::string &pfx)
{
    std::ostringstream o;
    writeExpr(o, e, pfx);
    return o.str();
}

std::string mathBlockRaw(const std::string &content, int layout)
{
    switch (layout % 3) {
    case 0:
        return "<math xmlns=\"http://www.w3.org/1998/Math/MathML\" xmlns:cellml=\"http://www.cellml.org/cellml/2.0#\">" + content + "</math>\n";
    case 1:
        return "<math xmlns:cellml=\"http://www.cellml.org/cellml/2.0#\" xmlns=\"http://www.w3.org/1998/Math/MathML\">\n  " + content + "\n</math>\n";
    default:
        return "<math xmlns=\"http://www.w3.org/1998/Math/MathML\"\n      xmlns:cellml=\"http://www.cellml.org/cellml/2.0#\">\n" + content + "</math>";
    }
}

std::string mathBlock(const std::vector<std::pair<Expr, Expr>> &equations, int layout)
{
    std::string content;
    for (const auto &eq : equations) {
        content += "<apply><eq/>" + exprToMathml(eq.first) + exprToMathml(eq.second) + "</apply>";
        if (layout % 3 != 0) {
            content += "\n";
        }
    }
    return mathBlockRaw(content, layout);
}

std::string exprToSexp(const Expr &e)
{
    switch (e.op) {
    case Op::CI:
        return e.name;
    case Op::CN:
        return (e.text.empty() ? numText(e.num) : e.text) + "{" + e.units + "}";
    case Op::CNE:
        return (e.text.empty() ? numText(e.num) : e.text) + "e" + std::to_string(e.exp10) + "{" + e.units + "}";
    default:
        break;
    }
    if (isLeaf(e.op)) {
        return opName(e.op);
    }
    std::string s = "(";
    s += opName(e.op);
    if (e.op == Op::PIECEWISE && !e.hasOtherwise) {
        s += "-no-otherwise";
    }
    if ((e.op == Op::ROOT || e.op == Op::LOG) && e.kids.size() == 2) {
        s += "/q";
    }
    for (const auto &k : e.kids) {
        s += " " + exprToSexp(k);
    }
    return s + ")";
}

void collectVars(const Expr &e, std::vector<std::string> &out)
{
    if (e.op == Op::CI) {
        if (std::find(out.begin(), out.end(), e.name) == out.end()) {
            out.push_back(e.name);
        }
    }
    for (const auto &k : e.kids) {
        collectVars(k, out);
    }
}

size_t exprSize(const Expr &e)
{
    size_t n = 1;
    for (const auto &k : e.kids) {
        n += exprSize(k);
    }
    return n;
}

namespace {

struct Ev
{
    const EvalEnv &env;
    double margin = 1e300;
    void need(double m)
    {
        if (std::isnan(m)) {
            m = 0;
        }
        if (m < margin) {
            margin = m;
        }
    }
    static bool exactBool(const Expr &e)
    {
        return isRelational(e.op) || isLogical(e.op) || e.op == Op::TRUE_ || e.op == Op::FALSE_;
    }
    bool truth(const Expr &e)
    {
        double v = ev(e);
        if (!exactBool(e)) {
            need(std::fabs(v)); // a computed value used as a truth value must be clearly non-zero
        }
        return v != 0.0;
    }
    static double intDist(double x)
    {
        return std::fabs(x - std::round(x));
    }
    double ev(const Expr &e)
    {
        double r = ev1(e);
        if (!std::isfinite(r)) {
            need(0);
        } else if (std::fabs(r) > 1e4) {
            need(0);
        }
        return r;
    }
    double ev1(const Expr &e)
    {
        const auto &k = e.kids;
        switch (e.op) {
        case Op::CI: return env.var(e.name);
        case Op::CN: return e.text.empty() ? e.num : strtod(e.text.c_str(), nullptr);
        case Op::CNE: {
            std::string t = (e.text.empty() ? numText(e.num) : e.text) + "e" + std::to_string(e.exp10);
            return strtod(t.c_str(), nullptr);
        }
        case Op::TRUE_: return 1.0;
        case Op::FALSE_: return 0.0;
        case Op::E: return std::exp(1.0);
        case Op::PI: return std::acos(-1.0);
        case Op::INF: need(0); return INFINITY;
        case Op::NAN_: need(0); return NAN;
        case Op::EQ:
        case Op::NEQ:
        case Op::LT:
        case Op::LEQ:
        case Op::GT:
        case Op::GEQ: {
            double a = ev(k[0]), b = ev(k[1]);
            need(std::fabs(a - b) / std::max(1.0, std::max(std::fabs(a), std::fabs(b))));
            switch (e.op) {
            case Op::EQ: return a == b;
            case Op::NEQ: return a != b;
            case Op::LT: return a < b;
            case Op::LEQ: return a <= b;
            case Op::GT: return a > b;
            default: return a >= b;
            }
        }
        case Op::AND: {
            bool r = true;
            for (const auto &x : k) {
                r = truth(x) && r; // evaluate all operands: margins of all matter because C/Python short-circuit differently than we do
            }
            return r;
        }
        case Op::OR: {
            bool r = false;
            for (const auto &x : k) {
                r = truth(x) || r;
            }
            return r;
        }
        case Op::XOR: {
            bool r = false;
            for (const auto &x : k) {
                r = r != truth(x);
            }
            return r;
        }
        case Op::NOT: return !truth(k[0]);
        case Op::PLUS: {
            double s = 0;
            for (const auto &x : k) {
                s += ev(x);
            }
            return s;
        }
        case Op::MINUS:
            if (k.size() == 1) {
                return -ev(k[0]);
            }
            {
                double a = ev(k[0]);
                return a - ev(k[1]);
            }
        case Op::TIMES: {
            double s = 1;
            for (const auto &x : k) {
                s *= ev(x);
            }
            return s;
        }
        case Op::DIVIDE: {
            double a = ev(k[0]), b = ev(k[1]);
            need(std::fabs(b));
            return a / b;
        }
        case Op::POWER: {
            double a = ev(k[0]), b = ev(k[1]);
            need(a); // positive base only
            need(20.0 - std::fabs(b));
            return std::pow(a, b);
        }
        case Op::ROOT: {
            if (k.size() == 1) {
                double a = ev(k[0]);
                need(a);
                return std::sqrt(a);
            }
            double d = ev(k[0]), a = ev(k[1]);
            need(a);
            need(std::fabs(d));
            return std::pow(a, 1.0 / d);
        }
        case Op::ABS: return std::fabs(ev(k[0]));
        case Op::EXP: {
            double a = ev(k[0]);
            need(20.0 - std::fabs(a));
            return std::exp(a);
        }
        case Op::LN: {
            double a = ev(k[0]);
            need(a);
            return std::log(a);
        }
        case Op::LOG: {
            if (k.size() == 1) {
                double a = ev(k[0]);
                need(a);
                return std::log10(a);
            }
            double b = ev(k[0]), a = ev(k[1]);
            need(a);
            need(b);
            need(std::fabs(b - 1.0));
            return std::log(a) / std::log(b);
        }
        case Op::CEILING: {
            double a = ev(k[0]);
            need(intDist(a));
            return std::ceil(a);
        }
        case Op::FLOOR: {
            double a = ev(k[0]);
            need(intDist(a));
            return std::floor(a);
        }
        case Op::MIN: {
            double r = ev(k[0]);
            for (size_t i = 1; i < k.size(); ++i) {
                r = std::fmin(r, ev(k[i]));
            }
            return r;
        }
        case Op::MAX: {
            double r = ev(k[0]);
            for (size_t i = 1; i < k.size(); ++i) {
                r = std::fmax(r, ev(k[i]));
            }
            return r;
        }
        case Op::REM: {
            double a = ev(k[0]), b = ev(k[1]);
            need(std::fabs(b));
            need(intDist(a / b) * std::fabs(b));
            return std::fmod(a, b);
        }
        case Op::SIN: return std::sin(ev(k[0]));
        case Op::COS: return std::cos(ev(k[0]));
        case Op::TAN: {
            double a = ev(k[0]);
            need(std::fabs(std::cos(a)));
            return std::tan(a);
        }
        case Op::SEC: {
            double a = ev(k[0]);
            need(std::fabs(std::cos(a)));
            return 1.0 / std::cos(a);
        }
        case Op::CSC: {
            double a = ev(k[0]);
            need(std::fabs(std::sin(a)));
            return 1.0 / std::sin(a);
        }
        case Op::COT: {
            double a = ev(k[0]);
            need(std::fabs(std::sin(a)));
            need(std::fabs(std::cos(a)));
            return 1.0 / std::tan(a);
        }
        case Op::SINH: {
            double a = ev(k[0]);
            need(10.0 - std::fabs(a));
            return std::sinh(a);
        }
        case Op::COSH: {
            double a = ev(k[0]);
            need(10.0 - std::fabs(a));
            return std::cosh(a);
        }
        case Op::TANH: return std::tanh(ev(k[0]));
        case Op::SECH: {
            double a = ev(k[0]);
            need(10.0 - std::fabs(a));
            return 1.0 / std::cosh(a);
        }
        case Op::CSCH: {
            double a = ev(k[0]);
            need(std::fabs(a));
            need(10.0 - std::fabs(a));
            return 1.0 / std::sinh(a);
        }
        case Op::COTH: {
            double a = ev(k[0]);
            need(std::fabs(a));
            return 1.0 / std::tanh(a);
        }
        case Op::ASIN: {
            double a = ev(k[0]);
            need(1.0 - std::fabs(a));
            return std::asin(a);
        }
        case Op::ACOS: {
            double a = ev(k[0]);
            need(1.0 - std::fabs(a));
            return std::acos(a);
        }
        case Op::ATAN: return std::atan(ev(k[0]));
        case Op::ASEC: {
            double a = ev(k[0]);
            need(std::fabs(a) - 1.0);
            return std::acos(1.0 / a);
        }
        case Op::ACSC: {
            double a = ev(k[0]);
            need(std::fabs(a) - 1.0);
            return std::asin(1.0 / a);
        }
        case Op::ACOT: {
            double a = ev(k[0]);
            need(std::fabs(a));
            return std::atan(1.0 / a);
        }
        case Op::ASINH: return std::asinh(ev(k[0]));
        case Op::ACOSH: {
            double a = ev(k[0]);
            need(a - 1.0);
            return std::acosh(a);
        }
        case Op::ATANH: {
            double a = ev(k[0]);
            need(1.0 - std::fabs(a));
            return std::atanh(a);
        }
        case Op::ASECH: {
            double a = ev(k[0]);
            need(a);
            need(1.0 - a);
            return std::acosh(1.0 / a);
        }
        case Op::ACSCH: {
            double a = ev(k[0]);
            need(std::fabs(a));
            return std::asinh(1.0 / a);
        }
        case Op::ACOTH: {
            double a = ev(k[0]);
            need(std::fabs(a) - 1.0);
            return std::atanh(1.0 / a);
        }
        case Op::PIECEWISE: {
            size_t n = k.size();
            size_t pieces = e.hasOtherwise ? (n - 1) / 2 : n / 2;
            // Evaluate every branch for margins (all implementations evaluate lazily, but a NaN in a dead branch is harmless;
            // we only take margins from the conditions up to and including the taken one, and from the taken value).
            for (size_t i = 0; i < pieces; ++i) {
                if (truth(k[2 * i + 1])) {
                    return ev(k[2 * i]);
                }
            }
            if (e.hasOtherwise) {
                return ev(k[n - 1]);
            }
            need(0);
            return NAN;
        }
        case Op::DIFF: return env.diff(k[1].name, k[0].name);
        }
        return NAN;
    }
};

} // namespace

double evalExpr(const Expr &e, const EvalEnv &env, double *margin)
{
    Ev ev {env};
    double r = ev.ev(e);
    if (margin != nullptr) {
        *margin = ev.margin;
    }
    return r;
}

} // namespace vp

// Canonical text of an AnalyserModel obtained through public accessors only (written for C12; no math strings inside).
#pragma once
#include <libcellml>

#include <string>

namespace vp {

// type, voi, states, variables (type / index / variable / initialising variable / equation indices), equations (type, AST
// as an s-expression, dependency indices, NLA system index and sibling indices, state-rate-based flag, computed variables),
// the need*Function flags. Equations are identified by their position in AnalyserModel::equations().
std::string dumpAnalyserModel(const libcellml::AnalyserModelPtr &am);

} // namespace vp

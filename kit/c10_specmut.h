// C10 / C11: spec-level mutation catalogue, shape (validity-breaking) transformations, API-level child permutation and
// an independent reference model of what Entity::equals covers (written from the property statement, works on ModelSpec only).
#pragma once
#include <set>
#include <string>
#include <vector>

#include "spec.h"
#include "tape.h"

namespace vp {
namespace c10 {

// Values drawn at the start of the tape and served later: decisions that are made late in a case (which entity, which
// mutation, which permutation) would otherwise mostly read past the end of short tapes and always get the simplest choice.
struct PreSrc: Src
{
    std::vector<uint32_t> pre;
    size_t pos = 0;
    Src &fallback;
    PreSrc(Src &main, size_t n)
        : fallback(main)
    {
        for (size_t i = 0; i < n; ++i) {
            pre.push_back(static_cast<uint32_t>(main.below(1u << 24)));
        }
    }

    // The i-th value counted from the END of the pre-drawn block, without consuming anything: decisions added to a check later
    // take their values from here, so that the sequential decisions (and therefore every saved tape) stay what they were.
    uint64_t tail(size_t i, uint64_t n) const
    {
        return (n <= 1 || i >= pre.size()) ? 0 : pre[pre.size() - 1 - i] % n;
    }

protected:
    uint64_t raw(uint64_t n) override
    {
        if (pos < pre.size()) {
            return pre[pos++] % n;
        }
        return fallback.below(n);
    }
};

// Locator of one entity of a ModelSpec (and, through Built, of the object made for it).
struct Loc
{
    enum Kind
    {
        MODEL = 0,
        COMP,
        VAR,
        UNITS,
        RESET,
        IMPORT
    };
    Kind kind = MODEL;
    int ci = -1; // COMP / VAR / RESET: component index
    int k = -1; // VAR: variable index, RESET: reset index (inside component ci)
    int ui = -1; // UNITS
    int ii = -1; // IMPORT
};
const char *kindName(Loc::Kind k);
std::string locText(const ModelSpec &spec, const Loc &l);
libcellml::EntityPtr entityAt(const Built &b, const Loc &l);
// Tape-chosen entity of the given kind (kind is reduced to one that exists in the spec).
Loc chooseLoc(const ModelSpec &spec, Src &src, const std::vector<Loc::Kind> &kinds);

// ---- reference model of equality (what the statement says equals() covers) ----
// attrs: the entity's own covered attributes (and, for units, the multiset of unit children; for variables the key of
// the units object they hold; for resets the keys of the two variables). Children are compared as multisets.
struct RNode
{
    std::string attrs;
    std::string cattrs; // attrs with unit exponents / multipliers of magnitude <= 1.1e-16 folded to 0 (see DiffClass::tiny)
    std::vector<RNode> vars, resets, comps, units;
    std::string key; // canonical form, children sorted; equal keys <=> equal by the statement
    std::string ckey; // the same over cattrs
    void finalize();
};
RNode refNode(const ModelSpec &spec, const Loc &l);

// How two reference trees differ. knownOnly: they differ, but only in ways the listed defects of equals() cannot see
// reliably: a surplus of variables / resets / units on one side (any depth), child components that agree as sets but not
// as multisets, or (tiny) unit exponents / multipliers that differ by more than 1 ulp but by less than DBL_EPSILON absolutely.
struct DiffClass
{
    bool differ = false;
    bool knownOnly = false;
    bool surplusVars = false, surplusResets = false, surplusUnits = false, multiplicity = false, tiny = false;
    std::string knownSig() const; // signature of the known finding the pair falls under
};
DiffClass classify(const RNode &x, const RNode &y);

// ---- shape transformations (may make the model invalid): duplicates, resets without order / variable, tiny multipliers ----
// Applies one tape-chosen transformation; returns its label ("" when nothing was applicable).
std::string applyShape(ModelSpec &spec, Src &src);

// ---- single mutations ----
struct Mut
{
    std::string kind; // "var.name", "unit.exponent", "comp.remove", ...
    int ci = -1, k = -1, ui = -1, uk = -1, ii = -1, cn = -1, mp = -1;
    bool inside = true; // the site belongs to what the top entity's equality covers
    int depth = 0; // containment distance between the top entity and the mutated site
    bool covered = true; // false: kinds that equality deliberately ignores (equivalences)
};
// All applicable mutations. where: 0 = only sites the top entity's equality covers, 1 = anywhere in the model (plus
// equivalence edits), 2 = equivalence edits only. Mutations that would delete the top entity itself are never listed.
enum Where
{
    INSIDE = 0,
    ANYWHERE = 1,
    EQUIVALENCES = 2,
    // only the kinds about the import reference of an entity that has no import source (added later; kept apart so that the
    // kind numbering of the other modes, and with it every saved tape, is unchanged): comp/units.local-import-ref (the
    // reference of a non-import differs) and comp/units.import-source-removed (an import loses its source, the reference stays)
    LOCAL_IMPORT_REFERENCE = 3
};
// ModelSpec convention used by C10/C11: import < 0 with a non-empty importRef = an entity that is not an import but carries an
// import reference. buildApi() does not set it; this does (directly, or - viaSource - by importing and removing the source again).
void applyLocalImportReferences(const ModelSpec &spec, const Built &b, bool viaSource);
// Gives a tape-chosen non-import component or units of the spec an import reference; returns a label ("" if none exists).
std::string addLocalImportReference(ModelSpec &spec, uint64_t pick, const std::string &reference);
std::vector<Mut> enumerateMutations(const ModelSpec &spec, const Loc &top, Where where);
// Chooses a kind uniformly among the kinds present, then a site uniformly. *found = false when the list is empty.
Mut chooseMutation(const ModelSpec &spec, const Loc &top, Src &src, Where where, bool *found);
// Applies m to spec; top is remapped when indices shift. Returns a one-line description.
std::string applyMutation(ModelSpec &spec, const Mut &m, Src &src, Loc &top);

// ---- API level child permutation (index based take/add; unit children are re-added) ----
// Returns the number of containers whose child order actually changed; *inside counts those inside top's subtree.
int permuteChildren(const Built &b, const ModelSpec &spec, const Loc &top, Src &src, int *inside);

// A changed token inside a math string (never whitespace only).
std::string mutateMath(const std::string &math, Src &src);

} // namespace c10
} // namespace vp

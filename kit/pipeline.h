// C01: the whole processing pipeline on one document. Shared by the byte-level and the structure-aware target.
#pragma once
#include <string>

#include "prop.h"

namespace vp {

struct PipelineCfg
{
    bool strict = true;
    bool selfLibrary = false; // register the document itself in the importer library under the hrefs it uses
    std::string extraDoc; // a second document registered under the hrefs the first uses (import targets)
    bool libraryFiles = false; // additionally write the library documents to files and resolve from disk (the importer's own parse path)
    bool skipAnalysis = false;
    bool skipFlatten = false;
};

// Runs parse -> validate -> print -> reparse -> queries -> resolve/flatten -> analyse -> generate.
// Fills c.classes (deepest stage), c.nontrivial; any semantic side condition that fails is recorded with c.fail.
void runPipeline(const std::string &doc, const PipelineCfg &cfg, Case &c);

} // namespace vp

// C20: reference semantics of a ground-truth model whose classes are partly bound to externally supplied values, and the
// under-constrained variants of a ground-truth model (definitions of chosen classes removed from the document).
#pragma once
#include <string>
#include <vector>

#include "gt.h"

namespace vp {

struct C20Binding
{
    int cls = -1; // class whose value comes from outside
    double home[2] = {0, 0}; // value in the units of the home instance at the two evaluation points
};

struct C20Ref
{
    GtModel model; // copy of the ground truth with value[] / rate[] / role / varying rewritten for the bindings
    std::vector<bool> external; // per class: bound from outside
    std::vector<bool> dependsOnExternal; // per class: reads (transitively, through defining equations) a bound class
    bool safe = false; // every re-evaluated expression keeps the generator's margin at both points
    std::string unsafeWhy;
};

// Re-evaluates the ground truth in dependency order with the given classes bound. Roles in the result: a bound class
// and every computed constant that reads one become ALGEBRAIC (compareRunWithTruth then checks them after the compute
// calls only); an NLA unknown that is bound loses its NLA role (no pre-load).
C20Ref c20Evaluate(const GtModel &gt, const std::vector<C20Binding> &bindings);

// Transitive "reads" relation of the ground truth: result[c][d] is true when class c depends on class d through the
// defining equations (rate equations and initialising constants for states, the whole system for NLA unknowns).
std::vector<std::vector<bool>> c20Dependence(const GtModel &gt);

// Whether the definition of class cls can be removed so that the class becomes an unknown of the model (and nothing
// else breaks); why (optional) names the reason when it cannot.
bool c20CanUnderconstrain(const GtModel &gt, int cls, std::string *why = nullptr);

// Removes the definition (initial value of a constant or of a state, defining equation of a computed constant / algebraic variable,
// the single equation of a one-unknown NLA system without initial guess) of the given classes from gt.spec. The ground
// truth values are left alone. Returns false when an equation could not be located.
bool c20Underconstrain(GtModel &gt, const std::vector<int> &classes);

} // namespace vp

// C20: reference semantics of a ground-truth model whose classes are partly bound to externally supplied values, and the
// under-constrained variants of a ground-truth model (definitions of chosen classes removed from the document).
#pragma once
#include <map>
#include <string>
#include <vector>

#include "gt.h"
#include "gtrun.h"

namespace vp {

struct C20Binding
{
    int cls = -1; // class whose value comes from outside
    double home[2] = {0, 0}; // value in the units of the home instance at the two evaluation points
};

struct C20Ref
{
    GtModel model; // copy of the ground truth with value[] / rate[] / role / varying rewritten for the bindings
    std::vector<bool> external; // per class: bound from outside
    std::vector<bool> dependsOnExternal; // per class: reads (transitively, through defining equations) a bound class
    bool safe = false; // every re-evaluated expression keeps the generator's margin at both points
    std::string unsafeWhy;
};

// Re-evaluates the ground truth in dependency order with the given classes bound. Roles in the result: a bound class
// and every computed constant that reads one become ALGEBRAIC (compareRunWithTruth then checks them after the compute
// calls only); an NLA unknown that is bound loses its NLA role (no pre-load).
C20Ref c20Evaluate(const GtModel &gt, const std::vector<C20Binding> &bindings);

// Transitive "reads" relation of the ground truth: result[c][d] is true when class c depends on class d through the
// defining equations (rate equations and initialising constants for states, the whole system for NLA unknowns).
std::vector<std::vector<bool>> c20Dependence(const GtModel &gt);

// Whether the definition of class cls can be removed so that the class becomes an unknown of the model (and nothing
// else breaks); why (optional) names the reason when it cannot.
bool c20CanUnderconstrain(const GtModel &gt, int cls, std::string *why = nullptr);

// Removes the definition (initial value of a constant or of a state, defining equation of a computed constant / algebraic variable,
// the single equation of a one-unknown NLA system without initial guess) of the given classes from gt.spec. The ground
// truth values are left alone. Returns false when an equation could not be located.
bool c20Underconstrain(GtModel &gt, const std::vector<int> &classes);


// Appends a small chain to an ODE ground-truth model, in the home component of the VOI: a constant E (initial value),
// A = E + 1.5 or A = 2*E (variant), optionally B = A + 7 (variant), and a state S with dS/dt = A. Truth values, roles and
// dependency lists are filled in. Marking E external with a declared dependency on a state makes A state based only
// through that declaration while a rate needs it. Returns the class index of E, or -1 when the model has no VOI.
int c20InjectRateChain(GtModel &gt, unsigned variant);

// Further appended shapes (home component of the VOI, or the first component of a model without one). Each returns the
// class meant to be marked external (-1 when the shape cannot be built).
//  * initial-value chain: constant zK0 (literal), constant zK1 initial_value="zK0", zC = 2*zK1 and, in ODE models, a state
//    zX initial_value="zK1" (variant bit 0: "zK0") with dzX/dt = zK1. Returns zK0.
//  * NLA parameter: zP and zY both carry an initial value and appear in one equation zP + zY = 5 (the analyser takes both for
//    unknowns of a one-equation system); in ODE models (variant bit 0) a state zT with dzT/dt = zY. Returns zP; *other (optional)
//    receives zY, whose truth is 5 - zP (marking zY without zP is outside the truth).
//  * rate read: state zZ with dzZ/dt = 3 and zR = 2*dzZ/dt. ODE models only. Returns zZ; *other receives zR.
int c20InjectInitialValueChain(GtModel &gt, unsigned variant);
int c20InjectNlaParameter(GtModel &gt, unsigned variant, int *other = nullptr);
int c20InjectRateRead(GtModel &gt, unsigned variant, int *other = nullptr);

// ---- stale-order protocol (RunPlan::staleOrder): which values computeVariables has to get right
//
// Under the stale-order protocol `variables` holds first-point intermediates when computeVariables(second point) starts.
// The generator recomputes there what was not computed by the earlier methods, every external variable, and every
// algebraic / NLA equation that is "state/rate based" (depends, through equations and through the declared dependencies
// of external variables, on a state). A variable that varies only with the VOI (or with an external variable that has
// no state-based declared dependency) and that a rate needs is NOT recomputed (upstream design, pinned by the
// Hodgkin-Huxley fixtures: i_Stim); it and everything computed from it is exempt from the comparison.
struct C20Staleness
{
    std::vector<bool> stateBased; // per class: reference for AnalyserEquation::isStateRateBased() of its equation(s)
    std::vector<bool> strict; // per class: the second-point value must be right after computeVariables under stale order
    // per class, not strict only because it (or what it reads) varies with an external class that has no state-based declared
    // dependency: the callback is invoked again by computeVariables, its consumers are not recomputed (listed finding, pinned by
    // two expected files of the test-suite). Never set for a class that is also exempt because of the VOI.
    std::vector<bool> staleThroughExternalOnly;
};
// external: per class, bound from outside (may be empty = none); declared: class -> classes declared as dependencies.
C20Staleness c20Staleness(const GtModel &gt, const std::vector<bool> &external = {}, const std::map<int, std::vector<int>> &declared = {});

// Copy of a run in which the second-point entries of the non-strict variables are replaced by the truth, so that
// compareRunWithTruth(truth, map, <result>) judges exactly the strict ones. tolerated (optional) counts the replacements.
RunResult c20TolerateStale(const GtModel &truth, const GtMapping &map, const RunResult &run, const C20Staleness &st, long *tolerated = nullptr, bool judgeStaleThroughExternalOnly = false);

// Variables indices to put into RunPlan::staleResolve: NLA unknowns (role NLA in truth) whose system is state based.
std::vector<size_t> c20StaleResolve(const GtModel &truth, const GtMapping &map, const C20Staleness &st);

} // namespace vp

// C14: independent writer of CellML 1.0 / 1.1 documents from a ModelSpec (kit/spec.h), with every layout decision
// taken from the tape. It replaces vp::writeXml(version 10|11) for property C14: the generic writer declares the
// cellml namespace of MathML only on <math>, only rotates attribute lists, may write in/in interfaces and puts every
// component-level units into the first component whatever uses them (all of which is either too weak for the
// design of C14 or not valid CellML 1.x).
#pragma once
#include <map>
#include <string>
#include <vector>

#include "spec.h"
#include "tape.h"

namespace vp {

// Input classes that are kept apart from the main class because each one isolates one (suspected or confirmed)
// defect of the transformation; at most one of them is active in a document.
enum class C14Special
{
    NONE = 0,
    EXPLICIT_NONE, // public_interface="none" / private_interface="none" written explicitly (the 1.x default value)
    SPELLING_IN_MATH, // liter / meter also on cn cellml:units
    SPLIT_GROUPS, // the encapsulation hierarchy is spread over several encapsulation groups
    DEEP_EXTRAS, // RDF / extension content inside units, unit, connection, map_*, component_ref, group, import; offset="0.0" on unit
    MATH_ELEMENT_ID, // cmeta:id on the <math> element itself, prefix declared on an ancestor only
    MATHML_NS_ANCESTOR, // MathML namespace declared on the model element (prefixed <m:math>, or default namespace of a cellml:-prefixed document)
    GROUP_CONNECTION_ID, // the encapsulation id on <group>, connection ids on <connection> (not on map_components)
    SPLIT_TREES, // the hierarchy is written as sibling component_ref trees of ONE group (a>b and b>c)
    SCOPED_UNITS_COPIES, // a units used by several components is declared (identically) inside each of them
};
const char *c14SpecialName(C14Special s);

struct C14Options
{
    int version = 11; // 11 | 10
    bool pretty = false; // newlines + indentation (+ comments)
    bool shuffleAttrs = false; // random permutation of every attribute list
    bool shuffleChildren = false; // random interleaving of import / units / component / connection / group children of model
    bool unitsInComponents = false; // declare units inside the only component that uses them (where 1.x scoping allows)
    bool cmetaId = false; // ids as cmeta:id (mixed with plain id when mixIds)
    bool mixIds = false;
    bool oldSpellings = false; // liter / meter on unit@units and variable@units
    bool extras = false; // RDF, documentation, reaction, extension attributes, containment group, ids on group/connection: must be dropped with at most a MESSAGE
    bool explicitDefaults = false; // prefix="0", exponent="1.0", multiplier="1.0", base_units="no"
    bool mathIds = false; // math blocks of the spec carry cmeta:id (on apply / math) with a local xmlns:cmeta: the writer may move the declaration to the model
    bool mathmlPrefix = false; // <m:math xmlns:m="...MathML"> (declaration on the math element itself)
    bool elementPrefix = false; // CellML elements written with a prefix (<cellml:model xmlns:cellml="...1.x#">), no default namespace
    int mathNs = 0; // 0: tape decides per math block; 1: on <math>; 2: on model; 3: on component; 4: on every cn
    C14Special special = C14Special::NONE;
};

struct C14Doc
{
    std::string text;
    // features realised in the document (non-trivial rule, class labels)
    bool encapsulationGroup = false;
    bool componentUnits = false;
    bool bothInterfaceAttrs = false;
    bool privateBeforePublic = false;
    bool publicBeforePrivate = false;
    bool mathWithUnits = false;
    bool cmetaIdUsed = false;
    bool oldSpellingUsed = false;
    bool specialRealised = false; // the special construct was actually written
    bool mathmlPrefixed = false, cellmlElementsPrefixed = false, cmetaDeclOnModelOnly = false;
    bool nsOnMath = false, nsOnModel = false, nsOnComponent = false, nsOnCn = false, nsOtherPrefix = false;
    std::string specialDetail; // DEEP_EXTRAS: which location was used
    int extrasWritten = 0;
    int groups = 0;
    // element counts in the CellML 1.x namespace (self-check of the writer against an independent libxml2 parse)
    std::map<std::string, int> counts;
    int cnCount = 0;
};

C14Doc writeCellml1x(const ModelSpec &spec, const C14Options &opt, Src &src);

// Layout source: the first values come from a block drawn at the start of the tape (so that they shrink like any other
// choice and are not starved when the tape is short); once the block is used up, values continue as a deterministic
// function of the block (all zero when the block is all zero, so that 0 stays the simplest choice).
struct C14LayoutSrc: Src
{
    std::vector<uint32_t> block;
    size_t pos = 0;
    uint64_t state = 0;
    C14LayoutSrc(Src &from, size_t n);
protected:
    uint64_t raw(uint64_t n) override;
};

// Self-check: parses text with libxml2 in the harness and compares element counts / cn namespaces with doc. "" = fine.
std::string c14SelfCheck(const C14Doc &doc, int version);

} // namespace vp

#include "runner.h"

#include <cmath>
#include <csignal>
#include <cstdio>
#include <cstdlib>
#include <cstring>
#include <fstream>
#include <sstream>
#include <sys/stat.h>
#include <sys/wait.h>
#include <unistd.h>

namespace vp {

namespace {

std::string num(double v)
{
    char b[64];
    if (std::isnan(v)) {
        return "NAN";
    }
    if (std::isinf(v)) {
        return v > 0 ? "INFINITY" : "-INFINITY";
    }
    snprintf(b, sizeof b, "%.17g", v);
    return b;
}

void writeFile(const std::string &path, const std::string &text)
{
    std::ofstream o(path, std::ios::binary);
    o << text;
}

// runs argv, captures stdout+stderr; returns exit status (or 1000+signal)
int runCmd(const std::vector<std::string> &argv, std::string &out, int timeoutS = 60)
{
    int pfd[2];
    if (pipe(pfd) != 0) {
        return -1;
    }
    pid_t pid = fork();
    if (pid == 0) {
        close(pfd[0]);
        dup2(pfd[1], 1);
        dup2(pfd[1], 2);
        close(pfd[1]);
        std::vector<char *> a;
        for (const auto &s : argv) {
            a.push_back(const_cast<char *>(s.c_str()));
        }
        a.push_back(nullptr);
        // the child must not inherit the sanitizer runtime expectations of the harness
        unsetenv("ASAN_OPTIONS");
        unsetenv("UBSAN_OPTIONS");
        unsetenv("LD_PRELOAD");
        signal(SIGALRM, SIG_DFL);
        alarm(static_cast<unsigned>(timeoutS));
        execvp(a[0], a.data());
        _exit(127);
    }
    close(pfd[1]);
    char buf[8192];
    ssize_t n;
    while ((n = read(pfd[0], buf, sizeof buf)) > 0) {
        if (out.size() < (8u << 20)) {
            out.append(buf, static_cast<size_t>(n));
        }
    }
    close(pfd[0]);
    int st = 0;
    waitpid(pid, &st, 0);
    if (WIFEXITED(st)) {
        return WEXITSTATUS(st);
    }
    return 1000 + (WIFSIGNALED(st) ? WTERMSIG(st) : 0);
}

std::vector<double> parseDoubles(std::istringstream &is)
{
    std::vector<double> v;
    std::string t;
    while (is >> t) {
        if (t == "nan" || t == "-nan" || t == "NAN") {
            v.push_back(std::nan(""));
        } else if (t == "inf" || t == "INFINITY") {
            v.push_back(INFINITY);
        } else if (t == "-inf" || t == "-INFINITY") {
            v.push_back(-INFINITY);
        } else {
            v.push_back(strtod(t.c_str(), nullptr));
        }
    }
    return v;
}

InfoEntry parseInfo(const std::string &rest)
{
    // name|units|component|type[|nameCap|unitsCap|componentCap]
    InfoEntry e;
    std::vector<std::string> f;
    size_t p = 0;
    while (true) {
        size_t q = rest.find('|', p);
        f.push_back(rest.substr(p, q == std::string::npos ? std::string::npos : q - p));
        if (q == std::string::npos) {
            break;
        }
        p = q + 1;
    }
    if (f.size() >= 4) {
        e.name = f[0];
        e.units = f[1];
        e.component = f[2];
        e.type = f[3];
    }
    if (f.size() >= 7) {
        e.nameCap = static_cast<size_t>(atol(f[4].c_str()));
        e.unitsCap = static_cast<size_t>(atol(f[5].c_str()));
        e.componentCap = static_cast<size_t>(atol(f[6].c_str()));
    }
    return e;
}

void parseOutput(const std::string &text, RunResult &r)
{
    std::istringstream in(text);
    std::string line;
    while (std::getline(in, line)) {
        size_t sp = line.find(' ');
        std::string key = line.substr(0, sp);
        std::string rest = sp == std::string::npos ? "" : line.substr(sp + 1);
        std::istringstream is(rest);
        if (key == "STATE_COUNT") {
            r.stateCount = static_cast<size_t>(atol(rest.c_str()));
            r.hasStateCount = true;
        } else if (key == "VARIABLE_COUNT") {
            r.variableCount = static_cast<size_t>(atol(rest.c_str()));
        } else if (key == "VOI_INFO") {
            r.voiInfo = parseInfo(rest);
            r.hasVoiInfo = true;
        } else if (key == "STATE_INFO") {
            r.stateInfo.push_back(parseInfo(rest));
        } else if (key == "VARIABLE_INFO") {
            r.variableInfo.push_back(parseInfo(rest));
        } else if (key == "INIT_STATES") {
            r.initStates = parseDoubles(is);
        } else if (key == "INIT_VARS") {
            r.initVars = parseDoubles(is);
        } else if (key == "CC_VARS") {
            r.ccVars = parseDoubles(is);
        } else if (key == "RATES0") {
            r.rates[0] = parseDoubles(is);
        } else if (key == "RATES1") {
            r.rates[1] = parseDoubles(is);
        } else if (key == "VARSR0") {
            r.varsAfterRates[0] = parseDoubles(is);
        } else if (key == "VARSR1") {
            r.varsAfterRates[1] = parseDoubles(is);
        } else if (key == "VARS0") {
            r.vars[0] = parseDoubles(is);
        } else if (key == "VARS1") {
            r.vars[1] = parseDoubles(is);
        } else if (key == "STATES0") {
            r.states[0] = parseDoubles(is);
        } else if (key == "STATES1") {
            r.states[1] = parseDoubles(is);
        } else if (key == "RESID") {
            auto v = parseDoubles(is);
            if (!v.empty()) {
                r.nlaResidual = v[0];
            }
            if (v.size() > 1) {
                r.nlaCalls = static_cast<long>(v[1]);
            }
        } else if (key == "XC") {
            r.externalCalls.push_back(rest);
        } else if (key == "ERROR") {
            r.error = rest;
        }
    }
}

std::string cDriver(const RunPlan &plan)
{
    std::ostringstream o;
    const bool ode = plan.ode, ext = plan.externals;
    o << "#include \"model.h\"\n#include <math.h>\n#include <stdio.h>\n#include <string.h>\n\n";
    o << "static double g_resid = 0.0; static long g_calls = 0; static int g_point = 0; static int g_stage = 0;\n";
    const bool stale = plan.staleOrder && ode;
    if (stale) {
        // solutions (second point) of the systems that computeVariables must solve again, looked up by sentinel
        o << "static int g_resolve = 0;\nstatic const size_t resIdx[] = {0";
        for (size_t k : plan.staleResolve) {
            o << ", " << k;
        }
        o << "}; static const double resVal[] = {0";
        for (size_t k : plan.staleResolve) {
            double v = std::nan("");
            for (const auto &p : plan.preload[1]) {
                if (p.first == k) {
                    v = p.second;
                }
            }
            o << ", " << num(v);
        }
        o << "};\nstatic double sentinel(size_t k) { return -(double)(k + 1) * 1.0e150; }\n";
    }
    o << "void nlaSolve(void (*objectiveFunction)(double *, double *, void *), double *u, size_t n, void *data)\n{\n"
         "    double f[64]; size_t i; for (i = 0; i < n && i < 64; ++i) f[i] = NAN;\n"
      << (stale ? "    if (g_resolve) { size_t j; for (i = 0; i < n; ++i) for (j = 1; j < " + std::to_string(plan.staleResolve.size() + 1) + "; ++j) if (u[i] == sentinel(resIdx[j])) u[i] = resVal[j]; }\n" : "")
      << "    objectiveFunction(u, f, data); ++g_calls;\n"
         "    for (i = 0; i < n && i < 64; ++i) { if (!(fabs(f[i]) <= g_resid)) g_resid = isnan(f[i]) ? INFINITY : fabs(f[i]); }\n}\n";
    o << "static void dump(const char *tag, const double *a, size_t n) { size_t i; printf(\"%s\", tag); for (i = 0; i < n; ++i) printf(\" %.17g\", a[i]); printf(\"\\n\"); }\n";
    o << "static size_t g_nstates = 0; static double *g_states = 0;\n";
    if (ext) {
        o << "static const size_t extIdx0[] = {0";
        for (const auto &p : plan.externalValues[0]) {
            o << ", " << p.first;
        }
        o << "}; static const double extVal0[] = {0";
        for (const auto &p : plan.externalValues[0]) {
            o << ", " << num(p.second);
        }
        o << "};\nstatic const size_t extIdx1[] = {0";
        for (const auto &p : plan.externalValues[1]) {
            o << ", " << p.first;
        }
        o << "}; static const double extVal1[] = {0";
        for (const auto &p : plan.externalValues[1]) {
            o << ", " << num(p.second);
        }
        o << "};\n";
        o << "static double lookupExt(size_t index) { size_t i; const size_t *ix = g_point ? extIdx1 : extIdx0; const double *vx = g_point ? extVal1 : extVal0; size_t n = g_point ? "
          << plan.externalValues[1].size() + 1 << " : " << plan.externalValues[0].size() + 1 << "; for (i = 1; i < n; ++i) if (ix[i] == index) return vx[i]; return NAN; }\n";
        o << "static void poisonExt(double *variables) { size_t i; for (i = 1; i < " << plan.externalValues[0].size() + 1 << "; ++i) variables[extIdx0[i]] = NAN; }\n";
        if (ode) {
            o << "static double externalVariable(double voi, double *states, double *rates, double *variables, size_t index)\n{\n    size_t i; (void)rates;\n"
                 "    printf(\"XC %d %zu %d %.17g |\", g_point, index, g_stage, voi); for (i = 0; i < STATE_COUNT; ++i) printf(\" %.17g\", states[i]); printf(\" |\"); for (i = 0; i < VARIABLE_COUNT; ++i) printf(\" %.17g\", variables[i]); printf(\"\\n\");\n"
                 "    return lookupExt(index);\n}\n";
        } else {
            o << "static double externalVariable(double *variables, size_t index)\n{\n    size_t i;\n"
                 "    printf(\"XC %d %zu %d nan | |\", g_point, index, g_stage); for (i = 0; i < VARIABLE_COUNT; ++i) printf(\" %.17g\", variables[i]); printf(\"\\n\");\n"
                 "    return lookupExt(index);\n}\n";
        }
    }
    o << "static const char *tn(int t)\n{\n";
    if (ode) {
        o << "    if (t == (int)VARIABLE_OF_INTEGRATION) return \"VARIABLE_OF_INTEGRATION\";\n    if (t == (int)STATE) return \"STATE\";\n";
    }
    o << "    if (t == (int)CONSTANT) return \"CONSTANT\";\n    if (t == (int)COMPUTED_CONSTANT) return \"COMPUTED_CONSTANT\";\n    if (t == (int)ALGEBRAIC) return \"ALGEBRAIC\";\n";
    if (ext) {
        o << "    if (t == (int)EXTERNAL) return \"EXTERNAL\";\n";
    }
    o << "    return \"?\";\n}\n";
    o << "#define CAP(x) (sizeof(x))\n";
    o << "int main(void)\n{\n    size_t i;\n";
    if (ode) {
        o << "    printf(\"STATE_COUNT %zu\\n\", STATE_COUNT);\n";
        o << "    printf(\"VOI_INFO %s|%s|%s|%s|%zu|%zu|%zu\\n\", VOI_INFO.name, VOI_INFO.units, VOI_INFO.component, tn((int)VOI_INFO.type), CAP(VOI_INFO.name), CAP(VOI_INFO.units), CAP(VOI_INFO.component));\n";
        o << "    for (i = 0; i < STATE_COUNT; ++i) printf(\"STATE_INFO %s|%s|%s|%s|%zu|%zu|%zu\\n\", STATE_INFO[i].name, STATE_INFO[i].units, STATE_INFO[i].component, tn((int)STATE_INFO[i].type), CAP(STATE_INFO[i].name), CAP(STATE_INFO[i].units), CAP(STATE_INFO[i].component));\n";
    }
    o << "    printf(\"VARIABLE_COUNT %zu\\n\", VARIABLE_COUNT);\n";
    o << "    for (i = 0; i < VARIABLE_COUNT; ++i) printf(\"VARIABLE_INFO %s|%s|%s|%s|%zu|%zu|%zu\\n\", VARIABLE_INFO[i].name, VARIABLE_INFO[i].units, VARIABLE_INFO[i].component, tn((int)VARIABLE_INFO[i].type), CAP(VARIABLE_INFO[i].name), CAP(VARIABLE_INFO[i].units), CAP(VARIABLE_INFO[i].component));\n";
    o << "    double *variables = createVariablesArray();\n";
    const std::string poison = (ext && plan.poisonExternals) ? "    poisonExt(variables);\n" : "";
    o << poison;
    std::string extArg = ext ? ", externalVariable" : "";
    if (ode) {
        o << "    double *states = createStatesArray();\n    double *rates = createStatesArray();\n";
        if (stale) {
            o << "    double *states0 = createStatesArray();\n    double *ratesSaved = createStatesArray();\n";
        }
        if (ext) {
            o << "    initialiseVariables(" << num(plan.voi[0]) << ", states, rates, variables, externalVariable);\n";
        } else {
            o << "    initialiseVariables(states, rates, variables);\n";
        }
        o << "    dump(\"INIT_STATES\", states, STATE_COUNT);\n";
        if (stale) {
            o << "    memcpy(states0, states, STATE_COUNT * sizeof(double));\n";
        }
    } else {
        o << "    initialiseVariables(variables" << extArg << ");\n";
    }
    o << "    dump(\"INIT_VARS\", variables, VARIABLE_COUNT);\n"
      << poison;
    for (const auto &p : plan.preload[0]) {
        o << "    variables[" << p.first << "] = " << num(p.second) << ";\n";
    }
    o << "    computeComputedConstants(variables);\n    dump(\"CC_VARS\", variables, VARIABLE_COUNT);\n";
    for (int pt = 0; pt < 2; ++pt) {
        o << "    g_point = " << pt << ";\n";
        if (pt == 1) {
            if (ode) {
                for (size_t i = 0; i < plan.states2.size(); ++i) {
                    o << "    states[" << i << "] = " << num(plan.states2[i]) << ";\n";
                }
            }
            for (const auto &p : plan.preload[1]) {
                o << "    variables[" << p.first << "] = " << num(p.second) << ";\n";
            }
        }
        if (ode) {
            o << "    g_stage = 1;\n    computeRates(" << num(plan.voi[pt]) << ", states, rates, variables" << extArg << ");\n    dump(\"RATES" << pt << "\", rates, STATE_COUNT);\n"
              << "    dump(\"VARSR" << pt << "\", variables, VARIABLE_COUNT);\n"
              << poison;
            if (stale && pt == 1) {
                // rates again at the first point, then back to the second point for computeVariables
                o << "    memcpy(ratesSaved, rates, STATE_COUNT * sizeof(double));\n    memcpy(states, states0, STATE_COUNT * sizeof(double));\n";
                for (const auto &p : plan.preload[0]) {
                    o << "    variables[" << p.first << "] = " << num(p.second) << ";\n";
                }
                o << "    g_point = 0; g_stage = 1;\n    computeRates(" << num(plan.voi[0]) << ", states, rates, variables" << extArg << ");\n" << poison;
                o << "    g_point = 1;\n    memcpy(rates, ratesSaved, STATE_COUNT * sizeof(double));\n";
                for (size_t i = 0; i < plan.states2.size(); ++i) {
                    o << "    states[" << i << "] = " << num(plan.states2[i]) << ";\n";
                }
                for (const auto &p : plan.preload[1]) {
                    bool resolve = false;
                    for (size_t k : plan.staleResolve) {
                        resolve = resolve || k == p.first;
                    }
                    if (resolve) {
                        o << "    variables[" << p.first << "] = sentinel(" << p.first << ");\n";
                    } else {
                        o << "    variables[" << p.first << "] = " << num(p.second) << ";\n";
                    }
                }
                o << "    g_resolve = 1;\n";
            }
            o << "    g_stage = 2;\n    computeVariables(" << num(plan.voi[pt]) << ", states, rates, variables" << extArg << ");\n    dump(\"STATES" << pt << "\", states, STATE_COUNT);\n";
        } else {
            o << "    g_stage = 2;\n    computeVariables(variables" << extArg << ");\n";
        }
        o << "    dump(\"VARS" << pt << "\", variables, VARIABLE_COUNT);\n"
          << poison;
    }
    o << "    printf(\"RESID %.17g %ld\\n\", g_resid, g_calls);\n";
    o << "    deleteArray(variables);\n";
    if (stale) {
        o << "    deleteArray(states0);\n    deleteArray(ratesSaved);\n";
    }
    if (ode) {
        o << "    deleteArray(states);\n    deleteArray(rates);\n";
    }
    o << "    (void)g_nstates; (void)g_states;\n    return 0;\n}\n";
    return o.str();
}

} // namespace

CodeRunner::CodeRunner()
{
    const char *base = getenv("VERIF_RUN_DIR");
    std::string root = base != nullptr ? base : "/verif/.build/run";
    mkdir(root.c_str(), 0777);
    char tmpl[512];
    snprintf(tmpl, sizeof tmpl, "%s/code-%d-XXXXXX", root.c_str(), static_cast<int>(getpid()));
    char *d = mkdtemp(tmpl);
    dir = d != nullptr ? d : root;
}

CodeRunner::~CodeRunner()
{
    if (pyPid > 0) {
        close(pyIn);
        close(pyOut);
        kill(static_cast<pid_t>(pyPid), SIGTERM);
        int st;
        waitpid(static_cast<pid_t>(pyPid), &st, 0);
    }
    if (dir.find("/code-") != std::string::npos) {
        std::string out;
        runCmd({"rm", "-rf", dir}, out);
    }
}

bool CodeRunner::runC(const std::string &iface, const std::string &impl, const RunPlan &plan, RunResult &out, std::string *warnings)
{
    ++counter;
    writeFile(dir + "/model.h", iface);
    writeFile(dir + "/model.c", impl);
    writeFile(dir + "/driver.c", cDriver(plan));
    if (warnings != nullptr) {
        std::string w;
        int rc = runCmd({"cc", "-std=c99", "-Wall", "-Wextra", "-fsyntax-only", "-I", dir, dir + "/model.c"}, w);
        *warnings = w;
        if (rc != 0) {
            out.error = "model.c does not compile: " + w.substr(0, 4000);
            return false;
        }
    }
    std::string cout;
    int rc = runCmd({"cc", "-std=c99", "-O0", "-w", "-I", dir, "-o", dir + "/model.exe", dir + "/model.c", dir + "/driver.c", "-lm"}, cout);
    if (rc != 0) {
        out.error = "compile/link failed: " + cout.substr(0, 4000);
        return false;
    }
    std::string text;
    rc = runCmd({dir + "/model.exe"}, text, 30);
    out.raw = text;
    if (rc != 0) {
        out.error = "generated program exited with status " + std::to_string(rc) + ": " + text.substr(0, 2000);
        return false;
    }
    parseOutput(text, out);
    out.ok = out.error.empty();
    return out.ok;
}

bool CodeRunner::startPython()
{
    int toChild[2], fromChild[2];
    if (pipe(toChild) != 0 || pipe(fromChild) != 0) {
        return false;
    }
    const char *home = getenv("VERIF_HOME");
    std::string script = std::string(home != nullptr ? home : "/verif") + "/support/py_worker.py";
    pid_t pid = fork();
    if (pid == 0) {
        dup2(toChild[0], 0);
        dup2(fromChild[1], 1);
        close(toChild[0]);
        close(toChild[1]);
        close(fromChild[0]);
        close(fromChild[1]);
        unsetenv("ASAN_OPTIONS");
        unsetenv("UBSAN_OPTIONS");
        unsetenv("LD_PRELOAD");
        signal(SIGALRM, SIG_DFL);
        execlp("python3", "python3", "-u", script.c_str(), static_cast<char *>(nullptr));
        _exit(127);
    }
    close(toChild[0]);
    close(fromChild[1]);
    pyIn = toChild[1];
    pyOut = fromChild[0];
    pyPid = pid;
    return true;
}

bool CodeRunner::runPython(const std::string &impl, const RunPlan &plan, RunResult &out)
{
    if (pyPid < 0 && !startPython()) {
        out.error = "cannot start python worker";
        return false;
    }
    ++counter;
    writeFile(dir + "/model.py", impl);
    std::ostringstream rq;
    rq << "CODE " << dir << "/model.py\nODE " << (plan.ode ? 1 : 0) << "\nEXT " << (plan.externals ? 1 : 0) << "\nVOI " << num(plan.voi[0]) << " " << num(plan.voi[1]) << "\nSTATES2";
    for (double v : plan.states2) {
        rq << " " << num(v);
    }
    rq << "\n";
    for (int pt = 0; pt < 2; ++pt) {
        rq << "PRELOAD" << pt;
        for (const auto &p : plan.preload[pt]) {
            rq << " " << p.first << " " << num(p.second);
        }
        rq << "\nEXTVAL" << pt;
        for (const auto &p : plan.externalValues[pt]) {
            rq << " " << p.first << " " << num(p.second);
        }
        rq << "\n";
    }
    rq << "POISON " << (plan.externals && plan.poisonExternals ? 1 : 0) << "\n";
    rq << "STALE " << (plan.staleOrder && plan.ode ? 1 : 0) << "\nRESOLVE";
    for (size_t k : plan.staleResolve) {
        rq << " " << k;
    }
    rq << "\n";
    std::string req = rq.str();
    // python float() understands nan/inf spelled in lower case
    for (const char *from : {"NAN", "INFINITY"}) {
        size_t p = 0;
        std::string f = from;
        while ((p = req.find(f, p)) != std::string::npos) {
            req.replace(p, f.size(), f == "NAN" ? "nan" : "inf");
        }
    }
    writeFile(dir + "/request.txt", req);
    std::string cmd = "RUN " + dir + "/request.txt\n";
    if (write(pyIn, cmd.c_str(), cmd.size()) != static_cast<ssize_t>(cmd.size())) {
        out.error = "python worker is gone";
        pyPid = -1;
        return false;
    }
    std::string text;
    char buf[8192];
    while (text.size() < 4 || text.compare(text.size() - 4, 4, "END\n") != 0 || (text.size() > 4 && text[text.size() - 5] != '\n')) {
        ssize_t n = read(pyOut, buf, sizeof buf);
        if (n <= 0) {
            out.error = "python worker closed the pipe: " + text.substr(0, 1000);
            pyPid = -1;
            return false;
        }
        text.append(buf, static_cast<size_t>(n));
        if (text == "END\n") {
            break;
        }
    }
    out.raw = text;
    parseOutput(text, out);
    out.ok = out.error.empty();
    return out.ok;
}

} // namespace vp

// C17: observations on the *text* of generated code (function definitions, declarations, calls, info table sizes),
// the address-taking probe for the C interface and the filter for compiler diagnostics. Shares nothing with the library.
#pragma once
#include <map>
#include <set>
#include <string>
#include <vector>

#include "expr.h"

namespace vp {
namespace c17 {

struct FuncText
{
    std::string ret; // C: return type text ("void", "double", "double *"); Python: ""
    std::string name;
    std::vector<std::string> params; // C: parameter *types* ("double", "double *", "ExternalVariable"); Python: parameter names
    std::string line; // source line
};

// Functions defined at file scope in a C translation unit ("<type> name(params)" on one line followed by a line "{").
std::vector<FuncText> cDefinitions(const std::string &text);
// Function prototypes of a C header ("<type> name(params);" at the start of a line; typedef / extern lines are not functions).
std::vector<FuncText> cPrototypes(const std::string &text);
// Python "def name(params):" at column 0.
std::vector<FuncText> pyDefinitions(const std::string &text);

// Names from `candidates` that are *called* ("name(" not preceded by an identifier character) anywhere except on the line that
// defines them. cLike: skips "/* ... */" comments and string literals; otherwise "# ..." comments and string literals.
std::set<std::string> calledNames(const std::string &text, const std::set<std::string> &candidates, bool cLike);

// Number of entries of an info table written as "<marker>\n    {...},\n ... \n<close>" (C: "const VariableInfo STATE_INFO[] = {",
// Python: "STATE_INFO = ["); -1 when the table is absent.
long tableEntries(const std::string &text, const std::string &marker);

// Helper functions: operator -> function name per profile ("" = the profile has an operator / library function for it).
struct Helper
{
    Op op;
    const char *cName; // nullptr: no helper needed in C
    const char *pyName;
};
const std::vector<Helper> &helpers();
// operators that occur as expression operators in e (the tree itself included)
void collectOps(const Expr &e, std::set<Op> &out);

// Compiler diagnostics of "cc -Wall -Wextra": every "warning:" / "error:" line whose option is not unused-parameter /
// unused-variable. Returns the offending lines; flags receives their "[-W...]" tokens.
std::vector<std::string> forbiddenDiagnostics(const std::string &ccOutput, std::set<std::string> *flags);

// Expected C interface for (ode, externals): the functions model.h has to declare, with parameter types.
std::vector<FuncText> expectedCInterface(bool ode, bool externals);
// Expected Python functions (parameter names).
std::vector<FuncText> expectedPyInterface(bool ode, bool externals);

// Address-taking probe: writes <dir>/c17_probe.c which includes model.h and initialises, for every function in `declared`, a
// pointer of the type in `expected` (same name; functions unknown to `expected` get a pointer of their own declared type)
// with the function's address, then compiles and links it with <dir>/model.c. A missing definition fails at link time, a
// declaration that differs from the expected type fails with -Werror=incompatible-pointer-types. Returns "" on success,
// otherwise the compiler / linker output.
std::string addressProbe(const std::string &dir, const std::vector<FuncText> &declared, const std::vector<FuncText> &expected, bool nla);

std::string joinParams(const std::vector<std::string> &p);

} // namespace c17
} // namespace vp

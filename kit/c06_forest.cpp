#include "c06_forest.h"

#include <algorithm>
#include <cmath>
#include <functional>
#include <sstream>

using namespace libcellml;

namespace vp {

namespace {

bool isUserUnits(const std::string &n)
{
    return !n.empty() && !isStandardUnit(n);
}

int findUnits(const ModelSpec &s, const std::string &name)
{
    for (size_t i = 0; i < s.units.size(); ++i) {
        if (s.units[i].name == name) {
            return static_cast<int>(i);
        }
    }
    return -1;
}

int findComp(const ModelSpec &s, const std::string &name)
{
    for (size_t i = 0; i < s.comps.size(); ++i) {
        if (s.comps[i].name == name) {
            return static_cast<int>(i);
        }
    }
    return -1;
}

void walkCn(Expr &e, const std::function<void(Expr &)> &fn)
{
    if (e.op == Op::CN || e.op == Op::CNE) {
        fn(e);
    }
    for (auto &k : e.kids) {
        walkCn(k, fn);
    }
}

// units names of the cn elements of a reset's test and reset values (math strings)
void resetCnUnits(const ResetSpec &r, std::vector<std::string> &out)
{
    for (const std::string *m : {&r.testValue, &r.resetValue}) {
        for (size_t p = m->find(":units=\""); p != std::string::npos; p = m->find(":units=\"", p + 1)) {
            size_t e = m->find('"', p + 8);
            out.push_back(m->substr(p + 8, e - (p + 8)));
        }
    }
}

bool renameResetCnUnits(ResetSpec &r, const std::map<std::string, std::string> &nm)
{
    bool changed = false;
    for (std::string *m : {&r.testValue, &r.resetValue}) {
        std::string o;
        size_t from = 0;
        for (size_t p = m->find(":units=\""); p != std::string::npos; p = m->find(":units=\"", p + 1)) {
            size_t e = m->find('"', p + 8);
            auto it = nm.find(m->substr(p + 8, e - (p + 8)));
            o += m->substr(from, p + 8 - from);
            o += it != nm.end() ? it->second : m->substr(p + 8, e - (p + 8));
            changed = changed || (it != nm.end() && it->second != it->first);
            from = e;
        }
        o += m->substr(from);
        *m = o;
    }
    return changed;
}

std::string resetValueMath(const std::string &units, const std::string &number)
{
    return "<math xmlns=\"http://www.w3.org/1998/Math/MathML\" xmlns:cellml=\"http://www.cellml.org/cellml/2.0#\"><cn cellml:units=\"" + units + "\">" + number + "</cn></math>";
}

void collectCnUnits(const CompSpec &c, std::set<std::string> &out)
{
    for (const auto &r : c.resets) {
        std::vector<std::string> names;
        resetCnUnits(r, names);
        for (const auto &n : names) {
            if (isUserUnits(n)) {
                out.insert(n);
            }
        }
    }
    for (const auto &eq : c.equations) {
        for (const Expr *side : {&eq.first, &eq.second}) {
            Expr copy = *side;
            walkCn(copy, [&](Expr &n) {
                if (isUserUnits(n.units)) {
                    out.insert(n.units);
                }
            });
        }
    }
}

void rebuildMath(CompSpec &c)
{
    c.math.clear();
    if (!c.equations.empty()) {
        c.math.push_back(mathBlock(c.equations, static_cast<int>(c.equations.size() % 3)));
    }
}

std::string prefixText(int p, bool named)
{
    if (p == 0) {
        return "";
    }
    if (named) {
        for (const auto &np : namedPrefixes()) {
            if (np.second == p) {
                return np.first;
            }
        }
    }
    return std::to_string(p);
}

// ---- reduction of units across the forest (imports followed)
struct ForestUnits
{
    const std::vector<C06Model> &models;
    std::map<std::string, UnitsSpec> cache;

    explicit ForestUnits(const std::vector<C06Model> &m)
        : models(m)
    {
    }
    static std::string mangle(int model, const std::string &name)
    {
        return isStandardUnit(name) ? name : std::to_string(model) + "|" + name;
    }
    const UnitsSpec *get(const std::string &mangled)
    {
        auto it = cache.find(mangled);
        if (it != cache.end()) {
            return &it->second;
        }
        size_t bar = mangled.find('|');
        if (bar == std::string::npos) {
            return nullptr;
        }
        int model = atoi(mangled.substr(0, bar).c_str());
        std::string name = mangled.substr(bar + 1);
        if (model < 0 || static_cast<size_t>(model) >= models.size()) {
            return nullptr;
        }
        const C06Model &cm = models[static_cast<size_t>(model)];
        int idx = findUnits(cm.spec, name);
        if (idx < 0) {
            return nullptr;
        }
        const UnitsSpec &u = cm.spec.units[static_cast<size_t>(idx)];
        UnitsSpec t;
        t.name = mangled;
        if (u.import >= 0) {
            UnitSpec c;
            c.ref = mangle(cm.importTarget[static_cast<size_t>(u.import)], u.importRef);
            t.units.push_back(c);
        } else {
            for (auto c : u.units) {
                c.ref = mangle(model, c.ref);
                t.units.push_back(c);
            }
        }
        return &cache.emplace(mangled, t).first->second;
    }
    UnitsRed reduce(int model, const std::string &name)
    {
        UnitsLookup lk = [this](const std::string &n) { return get(n); };
        UnitsRed r = reduceUnits(mangle(model, name), lk);
        // user base units are named after the mangled name: drop the model prefix so that a base unit is the same thing
        // wherever it is defined
        std::map<std::string, double> base;
        for (const auto &b : r.base) {
            size_t bar = b.first.find('|');
            base[bar == std::string::npos ? b.first : b.first.substr(bar + 1)] += b.second;
        }
        r.base = base;
        return r;
    }
};

std::string redKey(const UnitsRed &r)
{
    std::ostringstream o;
    o << (r.defined ? "" : "UNDEFINED ");
    for (const auto &b : r.base) {
        o << b.first << "^" << b.second << " ";
    }
    o << "@" << std::llround(r.log10scale * 1e6);
    return o.str();
}

// ------------------------------------------------------------------------------------------------ enrichment of the units

void syncInstanceUnits(GtModel &g)
{
    for (auto &cl : g.classes) {
        for (auto &in : cl.inst) {
            in.units = g.spec.comps[static_cast<size_t>(in.comp)].vars[static_cast<size_t>(in.var)].units;
        }
    }
}

void enrichUnits(GtModel &g, Src &src, unsigned aliasMode, bool twoLevel, unsigned nCnUnits, C06Forest &f)
{
    ModelSpec &s = g.spec;
    // e1: user-defined aliases of standard units ("u_volt" = volt), possibly two names for the same definition
    if (aliasMode != 0) {
        std::set<std::string> stdUsed;
        for (const auto &c : s.comps) {
            for (const auto &v : c.vars) {
                if (isStandardUnit(v.units)) {
                    stdUsed.insert(v.units);
                }
            }
        }
        for (const auto &su : stdUsed) {
            unsigned r = static_cast<unsigned>(src.below(4));
            if (r == 0) {
                continue;
            }
            bool usedU = false, usedV = false;
            for (size_t ci = 0; ci < s.comps.size(); ++ci) {
                for (auto &v : s.comps[ci].vars) {
                    if (v.units != su) {
                        continue;
                    }
                    bool odd = ci % 2 == 1;
                    if (r == 1 || (r == 3 && odd) || (r == 2 && !odd)) {
                        v.units = "u_" + su;
                        usedU = true;
                    } else if (r == 2 && odd) {
                        v.units = "v_" + su;
                        usedV = true;
                    }
                }
            }
            for (int k = 0; k < 2; ++k) {
                if ((k == 0 && !usedU) || (k == 1 && !usedV)) {
                    continue;
                }
                UnitsSpec us;
                us.name = std::string(k == 0 ? "u_" : "v_") + su;
                UnitSpec c;
                c.ref = su;
                if (src.flip(70)) {
                    // a chain of plain aliases: u_volt = w_volt, w_volt = volt (all equal: what de-duplication by equivalence
                    // has to cope with when the levels are imported from different files)
                    UnitsSpec w;
                    w.name = std::string(k == 0 ? "w_" : "x_") + su;
                    if (src.flip(50)) {
                        UnitsSpec y;
                        y.name = std::string(k == 0 ? "y_" : "z_") + su;
                        y.units.push_back(c);
                        s.units.push_back(y);
                        c.ref = y.name;
                    }
                    w.units.push_back(c);
                    s.units.push_back(w);
                    c.ref = w.name;
                    f.classes.insert("ref:alias-of-alias-units");
                }
                us.units.push_back(c);
                s.units.push_back(us);
                f.classes.insert("ref:aliased-standard-units");
                if (k == 1) {
                    f.classes.insert("ref:two-names-one-definition");
                }
            }
        }
    }
    // e2: two-level definitions: milli_volt = deci * b_milli_volt, b_milli_volt = centi * volt
    if (twoLevel) {
        size_t n = s.units.size();
        for (size_t i = 0; i < n; ++i) {
            if (s.units[i].units.size() != 1 || !isStandardUnit(s.units[i].units[0].ref) || s.units[i].units[0].prefix.empty() || !src.flip(50)) {
                continue;
            }
            bool ok = true;
            int p = prefixValue(s.units[i].units[0].prefix, &ok);
            if (!ok) {
                continue;
            }
            static const std::vector<int> inner = {-1, 0, 1, 2, 3, -2, -3, 0};
            int p2 = src.pick(inner);
            int p1 = p - p2;
            UnitsSpec b;
            b.name = "b_" + s.units[i].name;
            UnitSpec bc;
            bc.ref = s.units[i].units[0].ref;
            bc.prefix = prefixText(p2, src.flip(50));
            if (src.flip(50)) {
                // a third level: b_X = c_X (same size), c_X = 10^p2 * standard unit
                UnitsSpec cu;
                cu.name = "c_" + s.units[i].name;
                cu.units.push_back(bc);
                s.units.push_back(cu);
                bc = UnitSpec();
                bc.ref = cu.name;
                f.classes.insert("ref:three-level-units");
            }
            b.units.push_back(bc);
            s.units[i].units[0].ref = b.name;
            s.units[i].units[0].prefix = prefixText(p1, src.flip(50));
            s.units.push_back(b);
            f.classes.insert("ref:two-level-units");
        }
    }
    // e3: units referenced by cn elements only
    std::vector<std::string> cnPool;
    for (unsigned k = 0; k < nCnUnits; ++k) {
        UnitsSpec u;
        u.name = "cnu" + std::to_string(k);
        std::vector<std::string> userNames;
        for (const auto &x : s.units) {
            if (x.name.compare(0, 3, "cnu") != 0) {
                userNames.push_back(x.name);
            }
        }
        UnitSpec c;
        switch (src.below(4)) {
        case 0:
            c.ref = "second";
            c.exponent = -1.0;
            u.units.push_back(c);
            break;
        case 1:
            if (!userNames.empty()) {
                c.ref = src.pick(userNames);
                for (const auto &n : userNames) {
                    if (n.compare(0, 2, "v_") == 0 && src.flip(60)) {
                        c.ref = n; // the second of two names for one definition: de-duplicated away when both are required
                    }
                }
                c.exponent = 2.0;
                u.units.push_back(c);
                break;
            }
            // fall through
        case 2:
            c.ref = "metre";
            c.prefix = "kilo";
            u.units.push_back(c);
            c = UnitSpec();
            c.ref = "second";
            c.exponent = -2.0;
            c.multiplier = 3.6;
            u.units.push_back(c);
            break;
        default:
            c.ref = "mole";
            c.prefix = "-3";
            u.units.push_back(c);
            if (!userNames.empty()) {
                c = UnitSpec();
                c.ref = src.pick(userNames);
                c.exponent = -1.0;
                u.units.push_back(c);
            }
            break;
        }
        s.units.push_back(u);
        cnPool.push_back(u.name);
    }
    if (!cnPool.empty()) {
        std::vector<std::string> pool = cnPool;
        for (const auto &x : s.units) {
            if (x.name.compare(0, 3, "cnu") != 0) {
                pool.push_back(x.name);
            }
        }
        bool any = false;
        for (auto &c : s.comps) {
            for (auto &eq : c.equations) {
                for (Expr *side : {&eq.first, &eq.second}) {
                    walkCn(*side, [&](Expr &n) {
                        if (src.flip(40)) {
                            // the first choices are the cn-only units
                            n.units = pool[src.below(pool.size())];
                            any = true;
                        }
                    });
                }
            }
        }
        if (any) {
            f.classes.insert("ref:cn-with-user-units");
        }
    }
    for (auto &c : s.comps) {
        rebuildMath(c);
    }
    syncInstanceUnits(g);
}

// ------------------------------------------------------------------------------------------------ duplication of a subtree

std::vector<int> subtreeOf(const ModelSpec &s, int root)
{
    std::vector<int> r {root};
    std::set<int> in {root};
    for (size_t i = static_cast<size_t>(root) + 1; i < s.comps.size(); ++i) {
        if (in.count(s.comps[i].parent) != 0) {
            in.insert(static_cast<int>(i));
            r.push_back(static_cast<int>(i));
        }
    }
    return r;
}

void addMap(ModelSpec &s, int ca, int va, int cb, int vb)
{
    for (auto &cn : s.conns) {
        if (cn.c1 == ca && cn.c2 == cb) {
            MapSpec m;
            m.v1 = va;
            m.v2 = vb;
            cn.maps.push_back(m);
            return;
        }
        if (cn.c1 == cb && cn.c2 == ca) {
            MapSpec m;
            m.v1 = vb;
            m.v2 = va;
            cn.maps.push_back(m);
            return;
        }
    }
    ConnSpec cn;
    cn.c1 = ca;
    cn.c2 = cb;
    MapSpec m;
    m.v1 = va;
    m.v2 = vb;
    cn.maps.push_back(m);
    s.conns.push_back(cn);
}

bool duplicateSubtree(GtModel &g, std::vector<int> &canon, int root, int copies)
{
    ModelSpec &s = g.spec;
    std::vector<int> sub = subtreeOf(s, root);
    std::set<int> inSub(sub.begin(), sub.end());
    if (g.voi >= 0 && inSub.count(g.classes[static_cast<size_t>(g.voi)].inst[0].comp) != 0) {
        return false; // a second variable of integration would appear
    }
    const size_t nClasses = g.classes.size();
    const size_t nNla = g.nla.size();
    const ModelSpec before = s;
    std::map<std::pair<int, int>, int> classOfVar;
    for (size_t ci = 0; ci < nClasses; ++ci) {
        for (const auto &in : g.classes[ci].inst) {
            classOfVar[{in.comp, in.var}] = static_cast<int>(ci);
        }
    }
    std::set<std::string> names;
    for (const auto &c : s.comps) {
        names.insert(c.name);
    }
    for (int k = 1; k < copies; ++k) {
        std::map<int, int> cmap;
        for (int oc : sub) {
            CompSpec c = before.comps[static_cast<size_t>(oc)];
            int n = 0;
            std::string nn;
            do {
                nn = c.name + "_" + std::to_string(++n);
            } while (names.count(nn) != 0);
            names.insert(nn);
            c.name = nn;
            c.parent = oc == root ? before.comps[static_cast<size_t>(root)].parent : cmap[c.parent];
            cmap[oc] = static_cast<int>(s.comps.size());
            s.comps.push_back(c);
            canon.push_back(canon[static_cast<size_t>(oc)]);
        }
        // classes homed outside: the copy's instances join the class
        std::map<std::pair<int, int>, int> instMap; // (class, old instance) -> new instance
        for (size_t ci = 0; ci < nClasses; ++ci) {
            GtClass &cl = g.classes[ci];
            if (inSub.count(cl.inst[0].comp) != 0) {
                continue;
            }
            size_t ni = cl.inst.size();
            for (size_t ii = 0; ii < ni; ++ii) {
                if (inSub.count(cl.inst[ii].comp) != 0 && cl.inst[ii].comp < static_cast<int>(before.comps.size())) {
                    GtInstance in = cl.inst[ii];
                    in.comp = cmap[in.comp];
                    instMap[{static_cast<int>(ci), static_cast<int>(ii)}] = static_cast<int>(cl.inst.size());
                    cl.inst.push_back(in);
                }
            }
        }
        // classes homed inside: a new class per copy
        std::map<int, int> clsMap;
        for (size_t ci = 0; ci < nClasses; ++ci) {
            if (inSub.count(g.classes[ci].inst[0].comp) != 0) {
                clsMap[static_cast<int>(ci)] = static_cast<int>(g.classes.size() + clsMap.size());
            }
        }
        std::map<int, int> nlaMap;
        for (size_t si = 0; si < nNla; ++si) {
            if (inSub.count(g.nla[si].comp) != 0) {
                nlaMap[static_cast<int>(si)] = static_cast<int>(g.nla.size() + nlaMap.size());
            }
        }
        for (size_t ci = 0; ci < nClasses; ++ci) {
            if (clsMap.count(static_cast<int>(ci)) == 0) {
                continue;
            }
            GtClass cl = g.classes[ci];
            std::vector<GtInstance> kept;
            for (const auto &in : g.classes[ci].inst) {
                if (inSub.count(in.comp) != 0) {
                    GtInstance x = in;
                    x.comp = cmap[in.comp];
                    kept.push_back(x);
                }
            }
            cl.inst = kept;
            for (auto &d : cl.deps) {
                if (clsMap.count(d) != 0) {
                    d = clsMap[d];
                }
            }
            if (cl.nlaSystem >= 0 && nlaMap.count(cl.nlaSystem) != 0) {
                cl.nlaSystem = nlaMap[cl.nlaSystem];
            }
            if (cl.initialisedBy >= 0 && clsMap.count(cl.initialisedBy) != 0) {
                cl.initialisedBy = clsMap[cl.initialisedBy];
            }
            if (cl.role == GtRole::STATE && g.voi >= 0) {
                auto it = instMap.find({g.voi, cl.voiLocalInst});
                if (it != instMap.end()) {
                    cl.voiLocalInst = it->second;
                }
            }
            g.classes.push_back(cl);
        }
        for (size_t si = 0; si < nNla; ++si) {
            if (nlaMap.count(static_cast<int>(si)) == 0) {
                continue;
            }
            GtNlaSystem sys = g.nla[si];
            sys.comp = cmap[sys.comp];
            for (auto &u : sys.unknowns) {
                if (clsMap.count(u) != 0) {
                    u = clsMap[u];
                }
            }
            g.nla.push_back(sys);
        }
        // connections
        for (const auto &cn : before.conns) {
            bool in1 = inSub.count(cn.c1) != 0, in2 = inSub.count(cn.c2) != 0;
            if (!in1 && !in2) {
                continue;
            }
            for (const auto &mp : cn.maps) {
                if (in1 && in2) {
                    addMap(s, cmap[cn.c1], mp.v1, cmap[cn.c2], mp.v2);
                    continue;
                }
                int cls = classOfVar[{cn.c1, mp.v1}];
                if (inSub.count(g.classes[static_cast<size_t>(cls)].inst[0].comp) != 0) {
                    continue; // homed inside: the copy is a class of its own; its values are not exported
                }
                if (in1) {
                    addMap(s, cmap[cn.c1], mp.v1, cn.c2, mp.v2);
                } else {
                    addMap(s, cn.c1, mp.v1, cmap[cn.c2], mp.v2);
                }
            }
        }
        for (int oc : sub) {
            g.equationCount += before.comps[static_cast<size_t>(oc)].equations.size();
        }
    }
    return true;
}

// ------------------------------------------------------------------------------------------------ splitting

struct Splitter
{
    Src &src;
    C06Forest &f;
    const C06Options &opt;
    bool edge[8][8] = {};
    bool barePlaceholders = false;
    bool useIds = false;
    bool leaveGap = false;
    bool allowKept = false;
    bool allowKeptImportedUnits = false;
    bool allowDepRename = false;
    bool allowAliasClash = false;
    bool allowDepImport = false;
    bool allowNameCapture = false;
    int idSerial = 0;

    Splitter(Src &s, C06Forest &fo, const C06Options &o)
        : src(s)
        , f(fo)
        , opt(o)
    {
    }

    bool reaches(int a, int b) const
    {
        if (a == b) {
            return true;
        }
        for (size_t k = 0; k < f.models.size(); ++k) {
            if (edge[a][k] && reaches(static_cast<int>(k), b)) {
                return true;
            }
        }
        return false;
    }
    int longestFrom(int a) const
    {
        int best = 0;
        for (size_t k = 0; k < f.models.size(); ++k) {
            if (edge[a][k]) {
                best = std::max(best, 1 + longestFrom(static_cast<int>(k)));
            }
        }
        return best;
    }
    std::string relUrl(int from, int to) const
    {
        const std::string &u = f.models[static_cast<size_t>(to)].url;
        if (f.dirOf(static_cast<size_t>(from)) == f.dirOf(static_cast<size_t>(to))) {
            return u.substr(u.find_last_of('/') == std::string::npos ? 0 : u.find_last_of('/') + 1);
        }
        return u;
    }
    bool dirAllows(int from, int to) const
    {
        return !(f.dirOf(static_cast<size_t>(from)) == "sub/" && f.dirOf(static_cast<size_t>(to)).empty());
    }
    // a library model that model m may import from, importing itself from the models in targets; -1 when there is none
    int chooseLib(int m, const std::set<int> &targets)
    {
        std::vector<int> cands;
        for (size_t j = 1; j < f.models.size(); ++j) {
            int jj = static_cast<int>(j);
            if (jj == m || reaches(jj, m) || !dirAllows(m, jj)) {
                continue;
            }
            bool ok = true;
            for (int t : targets) {
                ok = ok && t != jj && !reaches(t, jj) && dirAllows(jj, t);
            }
            if (ok) {
                cands.push_back(jj);
            }
        }
        bool canNew = f.models.size() < 6;
        int j = -1;
        if (canNew && (cands.empty() || src.flip(60))) {
            bool rootTarget = false;
            for (int t : targets) {
                rootTarget = rootTarget || f.dirOf(static_cast<size_t>(t)).empty();
            }
            bool sub = f.dirOf(static_cast<size_t>(m)) == "sub/" || (!rootTarget && src.flip(25));
            C06Model nm;
            std::string stem = "lib" + std::to_string(f.models.size());
            nm.url = (sub ? "sub/" : "") + stem + ".cellml";
            nm.spec.name = stem;
            f.models.push_back(nm);
            f.usesSubdir = f.usesSubdir || sub;
            j = static_cast<int>(f.models.size()) - 1;
        } else if (!cands.empty()) {
            j = cands[src.below(cands.size())];
        } else {
            return -1;
        }
        // depth limit
        edge[m][j] = true;
        for (int t : targets) {
            edge[j][t] = true;
        }
        if (longestFrom(0) > 4) {
            // undo (a new model stays behind empty and unreferenced only if it was just created: remove it)
            edge[m][j] = false;
            for (int t : targets) {
                edge[j][t] = false;
            }
            rebuildEdges();
            if (static_cast<size_t>(j) == f.models.size() - 1 && f.models.back().spec.comps.empty() && f.models.back().spec.units.empty()) {
                f.models.pop_back();
            }
            return -1;
        }
        return j;
    }
    void rebuildEdges()
    {
        for (auto &row : edge) {
            for (auto &e : row) {
                e = false;
            }
        }
        for (size_t a = 0; a < f.models.size(); ++a) {
            const auto &cm = f.models[a];
            for (const auto &c : cm.spec.comps) {
                if (c.import >= 0) {
                    edge[a][cm.importTarget[static_cast<size_t>(c.import)]] = true;
                }
            }
            for (const auto &u : cm.spec.units) {
                if (u.import >= 0) {
                    edge[a][cm.importTarget[static_cast<size_t>(u.import)]] = true;
                }
            }
        }
    }
    int importIndex(int from, int to, bool mayShare)
    {
        C06Model &cm = f.models[static_cast<size_t>(from)];
        if (mayShare) {
            for (size_t i = 0; i < cm.importTarget.size(); ++i) {
                if (cm.importTarget[i] == to) {
                    return static_cast<int>(i);
                }
            }
        }
        ImportSpec is;
        is.url = relUrl(from, to);
        cm.spec.imports.push_back(is);
        cm.importTarget.push_back(to);
        return static_cast<int>(cm.spec.imports.size()) - 1;
    }

    // Copies the units named in need (names of model m, closed under references) into library j. Returns old name -> name
    // in the library.
    std::map<std::string, std::string> unitsIntoLib(int m, const ModelSpec &old, int j, const std::set<std::string> &need)
    {
        std::map<std::string, std::string> nm;
        std::set<std::string> taken;
        ForestUnits fu(f.models);
        std::vector<std::string> toCreate;
        // known findings excluded by construction (unless allowed): a units that other units refer to is given another name in
        // the library while an equal definition keeps the old name upstream (the reference is left dangling); a units that has
        // an alias among the needed ones is named like something else upstream (renaming in sequence conflates the two)
        std::set<std::string> isDep;
        for (const auto &u : need) {
            int idx = findUnits(old, u);
            if (idx >= 0 && old.units[static_cast<size_t>(idx)].import < 0) {
                for (const auto &ch : old.units[static_cast<size_t>(idx)].units) {
                    if (isUserUnits(ch.ref)) {
                        isDep.insert(ch.ref);
                    }
                }
            }
        }
        for (const auto &u : need) {
            UnitsRed ru = fu.reduce(m, u);
            std::string n = u;
            unsigned k = static_cast<unsigned>(src.below(10));
            if (m != 0 && isDep.count(u) != 0 && allowDepRename && src.flip(60)) {
                k = 5; // a dependency that leaves a library for a further model takes the name of other units of that library
            }
            if (k >= 5 && isDep.count(u) != 0 && !allowDepRename) {
                k = 0;
                ++f.counters["shape-not-taken:C06.valid|units-child-reference"];
            }
            if (k >= 8) {
                n = u + "_x";
                f.classes.insert("plan:units-renamed-in-library");
            } else if (k >= 5) {
                // a name that means something else in an importing model
                std::vector<std::string> cands;
                for (int mm : {m, 0}) {
                    for (const auto &x : f.models[static_cast<size_t>(mm)].spec.units) {
                        if (need.count(x.name) == 0 && redKey(fu.reduce(mm, x.name)) != redKey(ru) && std::find(cands.begin(), cands.end(), x.name) == cands.end()) {
                            // known finding excluded by construction: the name must not belong to units that another needed
                            // units is equal to (flattenModel renames in sequence: v -> x.name, then x.name -> something else)
                            bool chain = false;
                            for (const auto &v : need) {
                                chain = chain || redKey(fu.reduce(m, v)) == redKey(fu.reduce(mm, x.name));
                            }
                            if (chain && !allowAliasClash) {
                                ++f.counters["shape-not-taken:C06.units|*|units-renamed-in-sequence"];
                                continue;
                            }
                            cands.push_back(x.name);
                        }
                    }
                }
                if (!cands.empty()) {
                    n = cands[src.below(cands.size())];
                    f.classes.insert("plan:units-name-clash");
                }
            }
            {
                // An imported units must not be named like a units of the model it comes from: flattenModel renames the
                // imported definition inside a copy of that model and then finds the wrong units of that name (a units that
                // refers to itself results; the validator, for its part, reports such an input as cyclic). Excluded.
                int idx = findUnits(old, u);
                if (idx >= 0 && old.units[static_cast<size_t>(idx)].import >= 0 && n != u) {
                    int t = f.models[static_cast<size_t>(m)].importTarget[static_cast<size_t>(old.units[static_cast<size_t>(idx)].import)];
                    if (findUnits(f.models[static_cast<size_t>(t)].spec, n) >= 0) {
                        f.classes.insert("plan:imported-units-named-like-a-units-of-the-library");
                    }
                    if (findUnits(f.models[static_cast<size_t>(t)].spec, n) >= 0 && !allowNameCapture) {
                        n = u;
                        ++f.counters["shape-not-taken:imported-units-named-like-a-units-of-the-library"];
                    }
                }
            }
            bool reuse = false;
            for (int guard = 0; guard < 20; ++guard) {
                if (taken.count(n) != 0) {
                    n += "_y";
                    continue;
                }
                int jdx = findUnits(f.models[static_cast<size_t>(j)].spec, n);
                if (jdx >= 0) {
                    if (redKey(fu.reduce(j, n)) == redKey(ru)) {
                        reuse = true;
                        break;
                    }
                    n += "_y";
                    continue;
                }
                break;
            }
            taken.insert(n);
            nm[u] = n;
            if (!reuse) {
                toCreate.push_back(u);
            }
        }
        for (const auto &u : toCreate) {
            const UnitsSpec &srcU = old.units[static_cast<size_t>(findUnits(old, u))];
            UnitsSpec nu;
            nu.name = nm[u];
            if (srcU.import >= 0) {
                int t = f.models[static_cast<size_t>(m)].importTarget[static_cast<size_t>(srcU.import)];
                nu.import = importIndex(j, t, src.flip(50));
                nu.importRef = srcU.importRef;
            } else {
                for (auto c : srcU.units) {
                    if (isUserUnits(c.ref) && nm.count(c.ref) != 0) {
                        c.ref = nm[c.ref];
                    }
                    nu.units.push_back(c);
                }
            }
            f.models[static_cast<size_t>(j)].spec.units.push_back(nu);
        }
        return nm;
    }

    static void closeUnits(const ModelSpec &old, std::set<std::string> &need)
    {
        std::vector<std::string> work(need.begin(), need.end());
        while (!work.empty()) {
            std::string u = work.back();
            work.pop_back();
            int idx = findUnits(old, u);
            if (idx < 0 || old.units[static_cast<size_t>(idx)].import >= 0) {
                continue;
            }
            for (const auto &c : old.units[static_cast<size_t>(idx)].units) {
                if (isUserUnits(c.ref) && need.insert(c.ref).second) {
                    work.push_back(c.ref);
                }
            }
        }
    }
    std::set<int> unitsTargets(int m, const ModelSpec &old, const std::set<std::string> &need) const
    {
        std::set<int> t;
        for (const auto &u : need) {
            int idx = findUnits(old, u);
            if (idx >= 0 && old.units[static_cast<size_t>(idx)].import >= 0) {
                t.insert(f.models[static_cast<size_t>(m)].importTarget[static_cast<size_t>(old.units[static_cast<size_t>(idx)].import)]);
            }
        }
        return t;
    }

    static bool sameShape(const ModelSpec &s, int a, int b)
    {
        const CompSpec &x = s.comps[static_cast<size_t>(a)], &y = s.comps[static_cast<size_t>(b)];
        if (x.vars.size() != y.vars.size() || x.math != y.math || x.import != y.import || x.importRef != y.importRef || x.resets.size() != y.resets.size()) {
            return false;
        }
        for (size_t i = 0; i < x.resets.size(); ++i) {
            if (x.resets[i].var != y.resets[i].var || x.resets[i].testValue != y.resets[i].testValue || x.resets[i].resetValue != y.resets[i].resetValue) {
                return false;
            }
        }
        for (size_t i = 0; i < x.vars.size(); ++i) {
            if (x.vars[i].name != y.vars[i].name || x.vars[i].units != y.vars[i].units || x.vars[i].initial != y.vars[i].initial) {
                return false;
            }
        }
        auto ka = s.childrenOf(a), kb = s.childrenOf(b);
        if (ka.size() != kb.size()) {
            return false;
        }
        for (size_t i = 0; i < ka.size(); ++i) {
            if (!sameShape(s, ka[i], kb[i])) {
                return false;
            }
        }
        return true;
    }

    // units names used (by variables or cn elements) by components that sit below an import element of the model
    static std::set<std::string> unitsUsedBelowImports(const ModelSpec &s)
    {
        std::set<std::string> r;
        for (size_t i = 0; i < s.comps.size(); ++i) {
            bool below = false;
            for (int p = s.comps[i].parent; p >= 0; p = s.comps[static_cast<size_t>(p)].parent) {
                below = below || s.comps[static_cast<size_t>(p)].import >= 0;
            }
            if (!below) {
                continue;
            }
            for (const auto &v : s.comps[i].vars) {
                if (isUserUnits(v.units)) {
                    r.insert(v.units);
                }
            }
            collectCnUnits(s.comps[i], r);
        }
        return r;
    }

    std::string uniqueCompName(const ModelSpec &lib, const std::set<std::string> &taken, std::string n) const
    {
        while (findComp(lib, n) >= 0 || taken.count(n) != 0) {
            n += "x";
        }
        return n;
    }

    bool cutComponents(int m)
    {
        const ModelSpec old = f.models[static_cast<size_t>(m)].spec;
        const auto oldRefs = f.models[static_cast<size_t>(m)].refs;
        std::vector<int> elig;
        for (size_t i = 0; i < old.comps.size(); ++i) {
            if (old.comps[i].import < 0 && !oldRefs[i].empty()) {
                elig.push_back(static_cast<int>(i));
            }
        }
        if (m != 0 && opt.libsParsed && !leaveGap) {
            // A top-level library element that an importer connects to cannot become an import element itself: parsed from
            // a file it carries no placeholder variables, and flattenModel then loses the importer's connections (known
            // finding, excluded by construction).
            std::vector<int> ok;
            for (int e : elig) {
                bool connectedTarget = false;
                if (old.comps[static_cast<size_t>(e)].parent < 0) {
                    for (const auto &im : f.models) {
                        for (const auto &ic : im.spec.comps) {
                            if (ic.import >= 0 && im.importTarget[static_cast<size_t>(ic.import)] == m && ic.importRef == old.comps[static_cast<size_t>(e)].name && !ic.vars.empty()) {
                                connectedTarget = true;
                            }
                        }
                    }
                }
                if (connectedTarget) {
                    ++f.counters["shape-not-taken:C06.equivalences|missing|chain-element-without-placeholder"];
                } else {
                    ok.push_back(e);
                }
            }
            elig = ok;
        }
        if (elig.empty()) {
            return false;
        }
        const int c = elig[src.below(elig.size())];
        std::vector<int> group {c};
        const bool together = !src.flip(20);
        {
            int key = f.canon[static_cast<size_t>(oldRefs[static_cast<size_t>(c)][0])];
            auto sc = subtreeOf(old, c);
            for (int x : elig) {
                if (!together || x == c || f.canon[static_cast<size_t>(oldRefs[static_cast<size_t>(x)][0])] != key) {
                    continue;
                }
                auto sx = subtreeOf(old, x);
                bool disjoint = std::find(sc.begin(), sc.end(), x) == sc.end() && std::find(sx.begin(), sx.end(), c) == sx.end();
                for (int g : group) {
                    auto sg = subtreeOf(old, g);
                    disjoint = disjoint && std::find(sg.begin(), sg.end(), x) == sg.end() && std::find(sx.begin(), sx.end(), g) == sx.end();
                }
                if (disjoint && sameShape(old, x, c)) {
                    group.push_back(x);
                }
            }
        }
        // children of the root that stay in the importing model, below the import element
        std::set<size_t> keptPos;
        {
            size_t nk = old.childrenOf(c).size();
            for (size_t p = 0; p < nk; ++p) {
                if (src.flip(40)) {
                    keptPos.insert(p);
                }
            }
        }
        // known findings (excluded by construction unless allowKept): flattenModel treats the importer-side components below an
        // import element as if they came from the library: it renames them, rebinds the units of their variables and cn
        // elements to empty units, skips every second one, and dereferences a null pointer when they use imported units
        if (!allowKept && !keptPos.empty()) {
            f.counters["shape-not-taken:C06.*|importer-children-below-import-element"] += static_cast<long>(keptPos.size());
            keptPos.clear();
        }
        if (!allowKeptImportedUnits) {
            auto kids = old.childrenOf(c);
            for (size_t p : std::set<size_t>(keptPos)) {
                bool usesImported = false;
                for (int d : subtreeOf(old, kids[p])) {
                    std::set<std::string> un;
                    for (const auto &v : old.comps[static_cast<size_t>(d)].vars) {
                        un.insert(v.units);
                    }
                    collectCnUnits(old.comps[static_cast<size_t>(d)], un);
                    for (const auto &u : un) {
                        int ui = findUnits(old, u);
                        usesImported = usesImported || (ui >= 0 && old.units[static_cast<size_t>(ui)].import >= 0);
                    }
                }
                if (usesImported) {
                    keptPos.erase(p);
                    ++f.counters["shape-not-taken:C06.crash|importer-children-use-imported-units"];
                }
            }
        }
        // a kept child cannot be connected to a sibling that moves (a variable below an import element is out of reach)
        {
            auto kids = old.childrenOf(c);
            bool again = !keptPos.empty();
            while (again) {
                again = false;
                for (size_t p : std::set<size_t>(keptPos)) {
                    bool conflict = false;
                    for (const auto &cn : old.conns) {
                        if (cn.maps.empty()) {
                            continue;
                        }
                        int other = cn.c1 == kids[p] ? cn.c2 : (cn.c2 == kids[p] ? cn.c1 : -1);
                        if (other < 0 || other == c) {
                            continue;
                        }
                        auto it = std::find(kids.begin(), kids.end(), other);
                        if (it != kids.end() && keptPos.count(static_cast<size_t>(it - kids.begin())) == 0) {
                            conflict = true;
                        }
                    }
                    if (conflict) {
                        keptPos.erase(p);
                        again = true;
                    }
                }
            }
        }
        auto moved = [&](int root) {
            std::vector<int> e {root};
            std::set<int> in {root};
            auto kids = old.childrenOf(root);
            for (size_t i = static_cast<size_t>(root) + 1; i < old.comps.size(); ++i) {
                int p = old.comps[i].parent;
                if (p == root) {
                    size_t pos = static_cast<size_t>(std::find(kids.begin(), kids.end(), static_cast<int>(i)) - kids.begin());
                    if (keptPos.count(pos) == 0) {
                        in.insert(static_cast<int>(i));
                        e.push_back(static_cast<int>(i));
                    }
                } else if (in.count(p) != 0) {
                    in.insert(static_cast<int>(i));
                    e.push_back(static_cast<int>(i));
                }
            }
            return e;
        };
        std::vector<std::vector<int>> E;
        for (int g : group) {
            E.push_back(moved(g));
        }
        const std::vector<int> &E0 = E[0];
        // what the moved components need
        std::set<std::string> need;
        std::set<int> targets;
        for (int e : E0) {
            const CompSpec &cs = old.comps[static_cast<size_t>(e)];
            for (const auto &v : cs.vars) {
                if (isUserUnits(v.units)) {
                    need.insert(v.units);
                }
            }
            collectCnUnits(cs, need);
            if (cs.import >= 0) {
                targets.insert(f.models[static_cast<size_t>(m)].importTarget[static_cast<size_t>(cs.import)]);
            }
        }
        closeUnits(old, need);
        for (int t : unitsTargets(m, old, need)) {
            targets.insert(t);
        }
        const int j = chooseLib(m, targets);
        if (j < 0) {
            return false;
        }
        C06Model &lib = f.models[static_cast<size_t>(j)];
        // units
        std::map<std::string, std::string> nm = unitsIntoLib(m, old, j, need);
        // names in the library
        std::set<int> allMoved;
        for (const auto &e : E) {
            allMoved.insert(e.begin(), e.end());
        }
        std::vector<std::string> stayingNames;
        for (size_t i = 0; i < old.comps.size(); ++i) {
            if (allMoved.count(static_cast<int>(i)) == 0 || std::find(group.begin(), group.end(), static_cast<int>(i)) != group.end()) {
                stayingNames.push_back(old.comps[i].name);
            }
        }
        if (m != 0) {
            for (const auto &mc : f.models[0].spec.comps) {
                stayingNames.push_back(mc.name);
            }
        }
        std::vector<std::string> libNames;
        std::set<std::string> taken;
        for (size_t p = 0; p < E0.size(); ++p) {
            const std::string &on = old.comps[static_cast<size_t>(E0[p])].name;
            std::string n = on;
            unsigned r = static_cast<unsigned>(src.below(p == 0 ? 4 : 3));
            if (r == 1) {
                n = stayingNames[src.below(stayingNames.size())];
                f.classes.insert(p == 0 ? "plan:library-root-named-like-importer-component" : "plan:component-name-clash");
            } else if (r == 2) {
                n = on + "_l";
            } else if (r == 3) {
                n = "imp_" + on;
            }
            n = uniqueCompName(lib.spec, taken, n);
            taken.insert(n);
            libNames.push_back(n);
        }
        if (E0.size() >= 3 && src.flip(60)) {
            // two components of the imported hierarchy called n and n_1, n also being a name of the importing model
            size_t a = 1 + src.below(E0.size() - 1), b = 1 + src.below(E0.size() - 1);
            if (a != b) {
                std::string n = stayingNames[src.below(stayingNames.size())];
                taken.erase(libNames[a]);
                taken.erase(libNames[b]);
                if (findComp(lib.spec, n) < 0 && findComp(lib.spec, n + "_1") < 0 && taken.count(n) == 0 && taken.count(n + "_1") == 0) {
                    libNames[a] = n;
                    libNames[b] = n + "_1";
                    f.classes.insert("plan:component-name-clash-next-to-its-suffixed-form");
                }
                taken.insert(libNames[a]);
                taken.insert(libNames[b]);
            }
        }
        // library elements
        std::map<int, int> libIdx;
        for (size_t p = 0; p < E0.size(); ++p) {
            CompSpec cs = old.comps[static_cast<size_t>(E0[p])];
            cs.name = libNames[p];
            cs.parent = p == 0 ? -1 : libIdx[cs.parent];
            cs.encId.clear();
            cs.id = useIds ? "cid" + std::to_string(++idSerial) : "";
            for (auto &v : cs.vars) {
                if (nm.count(v.units) != 0) {
                    v.units = nm[v.units];
                }
            }
            bool changed = false;
            for (auto &eq : cs.equations) {
                for (Expr *side : {&eq.first, &eq.second}) {
                    walkCn(*side, [&](Expr &n) {
                        auto it = nm.find(n.units);
                        if (it != nm.end() && it->second != n.units) {
                            n.units = it->second;
                            changed = true;
                        }
                    });
                }
            }
            if (changed) {
                rebuildMath(cs);
            }
            for (auto &r : cs.resets) {
                renameResetCnUnits(r, nm);
            }
            if (cs.import >= 0) {
                int t = f.models[static_cast<size_t>(m)].importTarget[static_cast<size_t>(cs.import)];
                cs.import = importIndex(j, t, src.flip(50));
            }
            libIdx[E0[p]] = static_cast<int>(lib.spec.comps.size());
            lib.spec.comps.push_back(cs);
            std::vector<int> refs;
            for (size_t g = 0; g < group.size(); ++g) {
                for (int r : oldRefs[static_cast<size_t>(E[g][p])]) {
                    refs.push_back(r);
                    if (p > 0) {
                        f.base[static_cast<size_t>(r)] = libNames[p];
                    }
                }
            }
            lib.refs.push_back(refs);
        }
        if (E0.size() > 1) {
            f.classes.insert("imported-component-with-encapsulated-children");
        }
        if (!keptPos.empty()) {
            f.classes.insert("importer-children-below-import-element");
        }
        if (group.size() > 1) {
            f.classes.insert("same-component-imported-" + std::to_string(group.size()) + "-times");
        }
        // which member (if any) each old component belongs to
        std::map<int, size_t> memberOf;
        for (size_t g = 0; g < group.size(); ++g) {
            for (int e : E[g]) {
                memberOf[e] = g;
            }
        }
        // the importing model
        C06Model &mm = f.models[static_cast<size_t>(m)];
        ModelSpec ns = old;
        ns.imports = mm.spec.imports; // unitsIntoLib / importIndex never touch model m, but keep what is there
        ns.comps.clear();
        ns.conns.clear();
        std::vector<std::vector<int>> nrefs;
        std::map<int, int> mapMain;
        std::map<int, std::map<int, int>> varMap; // member root -> old variable index -> placeholder index
        for (size_t i = 0; i < old.comps.size(); ++i) {
            int ii = static_cast<int>(i);
            bool isRoot = std::find(group.begin(), group.end(), ii) != group.end();
            if (allMoved.count(ii) != 0 && !isRoot) {
                continue;
            }
            CompSpec cs = old.comps[i];
            cs.parent = cs.parent >= 0 ? mapMain[cs.parent] : -1;
            if (isRoot) {
                size_t g = memberOf[ii];
                std::set<int> in(E[g].begin(), E[g].end());
                std::set<int> crossing;
                for (const auto &cn : old.conns) {
                    for (const auto &mp : cn.maps) {
                        if (cn.c1 == ii && in.count(cn.c2) == 0) {
                            crossing.insert(mp.v1);
                        }
                        if (cn.c2 == ii && in.count(cn.c1) == 0) {
                            crossing.insert(mp.v2);
                        }
                    }
                }
                if (m != 0 && old.comps[i].parent < 0) {
                    // this element is what an importing model's import element refers to. Its variables must stay visible
                    // as placeholders, or flattenModel loses the importer's connections (known finding); leaveGap keeps
                    // the finding observable at a low rate.
                    if (leaveGap) {
                        f.classes.insert("plan:chain-element-without-placeholders");
                    } else {
                        for (size_t v = 0; v < cs.vars.size(); ++v) {
                            if (crossing.insert(static_cast<int>(v)).second) {
                                ++f.counters["shape-not-taken:C06.equivalences|missing|chain-element-without-placeholder"];
                            }
                        }
                    }
                }
                std::vector<VarSpec> ph;
                for (int v : crossing) {
                    VarSpec pv;
                    pv.name = cs.vars[static_cast<size_t>(v)].name;
                    if (!barePlaceholders) {
                        pv.units = cs.vars[static_cast<size_t>(v)].units;
                    }
                    varMap[ii][v] = static_cast<int>(ph.size());
                    ph.push_back(pv);
                }
                cs.vars = ph;
                cs.math.clear();
                cs.equations.clear();
                cs.resets.clear();
                cs.id.clear();
                cs.import = -2; // set below, once ns is the model's spec
                cs.importRef = libNames[0];
            }
            mapMain[ii] = static_cast<int>(ns.comps.size());
            ns.comps.push_back(cs);
            nrefs.push_back(oldRefs[i]);
        }
        ForestUnits fuOld(f.models); // model m still holds the old spec: scales of the units on both sides of the boundary
        for (const auto &cn : old.conns) {
            auto m1 = memberOf.find(cn.c1), m2 = memberOf.find(cn.c2);
            bool in1 = m1 != memberOf.end(), in2 = m2 != memberOf.end();
            if (in1 && in2 && m1->second == m2->second) {
                if (m1->second == 0) {
                    ConnSpec lc = cn;
                    lc.c1 = libIdx[cn.c1];
                    lc.c2 = libIdx[cn.c2];
                    lib.spec.conns.push_back(lc);
                }
                continue;
            }
            ConnSpec nc;
            nc.id = cn.id;
            nc.c1 = mapMain.count(cn.c1) != 0 ? mapMain[cn.c1] : -1;
            nc.c2 = mapMain.count(cn.c2) != 0 ? mapMain[cn.c2] : -1;
            if (nc.c1 < 0 || nc.c2 < 0) {
                ++f.counters["bug:crossing-connection-below-a-root"];
                continue;
            }
            for (auto mp : cn.maps) {
                const auto &v1 = old.comps[static_cast<size_t>(cn.c1)].vars[static_cast<size_t>(mp.v1)];
                const auto &v2 = old.comps[static_cast<size_t>(cn.c2)].vars[static_cast<size_t>(mp.v2)];
                if ((in1 || in2) && !v1.units.empty() && !v2.units.empty()) {
                    if (std::fabs(fuOld.reduce(m, v1.units).log10scale - fuOld.reduce(m, v2.units).log10scale) > 1e-9) {
                        f.classes.insert("scaled-units-across-the-boundary");
                    }
                }
                if (in1) {
                    mp.v1 = varMap[cn.c1][mp.v1];
                }
                if (in2) {
                    mp.v2 = varMap[cn.c2][mp.v2];
                }
                nc.maps.push_back(mp);
            }
            ns.conns.push_back(nc);
        }
        mm.spec = ns;
        mm.refs = nrefs;
        int shared = -1;
        for (size_t g = 0; g < group.size(); ++g) {
            int ni = mapMain[group[g]];
            int imp = (shared >= 0 && src.flip(50)) ? shared : importIndex(m, j, src.flip(40));
            shared = imp;
            mm.spec.comps[static_cast<size_t>(ni)].import = imp;
            if (!barePlaceholders) {
                for (size_t k = 0; k < mm.spec.comps[static_cast<size_t>(ni)].vars.size(); ++k) {
                    std::string req = requiredInterface(mm.spec, ni, static_cast<int>(k));
                    mm.spec.comps[static_cast<size_t>(ni)].vars[k].iface = req == "none" ? "" : req;
                }
            }
        }
        rebuildEdges();
        return true;
    }

    bool cutUnits(int m, const std::string &forced = "")
    {
        const ModelSpec old = f.models[static_cast<size_t>(m)].spec;
        std::vector<int> elig;
        for (size_t i = 0; i < old.units.size(); ++i) {
            if (old.units[i].import < 0 && (forced.empty() || old.units[i].name == forced)) {
                elig.push_back(static_cast<int>(i));
            }
        }
        if (!allowDepImport && forced.empty()) {
            // known finding excluded by construction: units that other units of the model refer to do not become imports (the
            // flat model gets two units of that name when the referring units are imported elsewhere)
            std::set<std::string> deps;
            for (const auto &u : old.units) {
                for (const auto &ch : u.units) {
                    deps.insert(ch.ref);
                }
            }
            std::vector<int> ok;
            for (int e : elig) {
                if (deps.count(old.units[static_cast<size_t>(e)].name) != 0) {
                    ++f.counters["shape-not-taken:C06.valid|units-name-not-unique|library-units-dependency-is-an-import"];
                } else {
                    ok.push_back(e);
                }
            }
            elig = ok;
        }
        if (!allowKeptImportedUnits && forced.empty()) {
            std::set<std::string> below = unitsUsedBelowImports(old);
            std::vector<int> ok;
            for (int e : elig) {
                if (below.count(old.units[static_cast<size_t>(e)].name) != 0) {
                    ++f.counters["shape-not-taken:C06.crash|importer-children-use-imported-units"];
                } else {
                    ok.push_back(e);
                }
            }
            elig = ok;
        }
        if (elig.empty()) {
            return false;
        }
        // choice order (value 0 picks the first): units defined over two further levels of user units first (they make nested
        // chains of imported units), then the cn-only units
        auto levels = [&](int ui) {
            std::function<int(const std::string &, int)> depth = [&](const std::string &n, int guard) -> int {
                int idx = findUnits(old, n);
                if (idx < 0 || guard > 8 || old.units[static_cast<size_t>(idx)].import >= 0) {
                    return 0;
                }
                int best = 0;
                for (const auto &ch : old.units[static_cast<size_t>(idx)].units) {
                    if (isUserUnits(ch.ref)) {
                        best = std::max(best, 1 + depth(ch.ref, guard + 1));
                    }
                }
                return best;
            };
            return depth(old.units[static_cast<size_t>(ui)].name, 0);
        };
        std::stable_sort(elig.begin(), elig.end(), [&](int a, int b) {
            bool da = levels(a) >= 2, db = levels(b) >= 2;
            if (da != db) {
                return da;
            }
            bool ca = old.units[static_cast<size_t>(a)].name.compare(0, 3, "cnu") == 0, cb = old.units[static_cast<size_t>(b)].name.compare(0, 3, "cnu") == 0;
            return ca && !cb;
        });
        const int ui = src.flip(50) ? elig[0] : elig[src.below(elig.size())];
        const std::string u = old.units[static_cast<size_t>(ui)].name;
        std::set<std::string> need {u};
        closeUnits(old, need);
        const int j = chooseLib(m, unitsTargets(m, old, need));
        if (j < 0) {
            return false;
        }
        ForestUnits fu(f.models);
        const std::string keyU = redKey(fu.reduce(m, u));
        std::map<std::string, std::string> nm = unitsIntoLib(m, old, j, need);
        C06Model &mm = f.models[static_cast<size_t>(m)];
        int imp = importIndex(m, j, src.flip(40));
        UnitsSpec &mu = mm.spec.units[static_cast<size_t>(ui)];
        mu.units.clear();
        mu.import = imp;
        mu.importRef = nm[u];
        // the same library units imported again under another name
        for (size_t i = 0; i < old.units.size(); ++i) {
            const UnitsSpec &o = old.units[i];
            if (static_cast<int>(i) == ui || o.import >= 0 || need.count(o.name) != 0) {
                continue;
            }
            if (redKey(fu.reduce(m, o.name)) == keyU && src.flip(60)) {
                UnitsSpec &m2 = mm.spec.units[i];
                m2.units.clear();
                // The validator rejects two imports of one units_ref from one href. Read from files, the same library can be
                // named by a second, equivalent href; with addModel keys it cannot (the case is then judged without (ii)).
                if (opt.libsParsed) {
                    m2.import = importIndex(m, j, false);
                    mm.spec.imports[static_cast<size_t>(m2.import)].url = "./" + mm.spec.imports[static_cast<size_t>(m2.import)].url;
                } else {
                    m2.import = src.flip(50) ? imp : importIndex(m, j, false);
                }
                m2.importRef = nm[u];
                f.classes.insert("same-units-imported-under-two-names");
            }
        }
        rebuildEdges();
        // A nested chain of imported units: one of the units the moved definition refers to, itself defined by further user
        // units, becomes an import of the library in turn (main -> j: u = {d}; j -> k: d = {e}; e local in k).
        if (forced.empty() && allowDepImport && src.flip(85)) {
            const ModelSpec &ls = f.models[static_cast<size_t>(j)].spec;
            int li = findUnits(ls, nm[u]);
            std::string dep;
            if (li >= 0) {
                for (const auto &ch : ls.units[static_cast<size_t>(li)].units) {
                    int di = findUnits(ls, ch.ref);
                    if (di < 0 || ls.units[static_cast<size_t>(di)].import >= 0) {
                        continue;
                    }
                    for (const auto &ch2 : ls.units[static_cast<size_t>(di)].units) {
                        if (isUserUnits(ch2.ref)) {
                            dep = ch.ref;
                        }
                    }
                }
            }
            if (!dep.empty() && cutUnits(j, dep)) {
                f.classes.insert("plan:nested-imported-units-chain");
            }
        }
        return true;
    }

    void cleanup()
    {
        // units nobody refers to any more are dropped from the importing models (some are left behind: they make name clashes)
        std::set<std::pair<int, std::string>> imported;
        for (const auto &cm : f.models) {
            for (const auto &u : cm.spec.units) {
                if (u.import >= 0) {
                    imported.insert({cm.importTarget[static_cast<size_t>(u.import)], u.importRef});
                }
            }
        }
        for (size_t mi = 0; mi < f.models.size(); ++mi) {
            ModelSpec &s = f.models[mi].spec;
            std::set<std::string> used;
            for (const auto &c : s.comps) {
                for (const auto &v : c.vars) {
                    if (isUserUnits(v.units)) {
                        used.insert(v.units);
                    }
                }
                collectCnUnits(c, used);
            }
            for (const auto &u : s.units) {
                if (u.import >= 0 || imported.count({static_cast<int>(mi), u.name}) != 0) {
                    used.insert(u.name);
                }
            }
            Splitter::closeUnits(s, used);
            std::vector<UnitsSpec> keep;
            for (const auto &u : s.units) {
                if (used.count(u.name) == 0 && src.flip(60)) {
                    continue;
                }
                keep.push_back(u);
            }
            // a dropped units may be referenced by a kept, unused one: drop those too (fixpoint)
            bool again = true;
            while (again) {
                again = false;
                for (size_t i = 0; i < keep.size(); ++i) {
                    bool dangling = false;
                    for (const auto &c : keep[i].units) {
                        bool found = !isUserUnits(c.ref);
                        for (const auto &k : keep) {
                            found = found || k.name == c.ref;
                        }
                        dangling = dangling || !found;
                    }
                    if (dangling) {
                        keep.erase(keep.begin() + static_cast<long>(i));
                        again = true;
                        break;
                    }
                }
            }
            s.units = keep;
        }
    }

    void junk()
    {
        std::vector<std::string> refNames;
        for (const auto &c : f.ref.spec.comps) {
            refNames.push_back(c.name);
        }
        for (size_t mi = 1; mi < f.models.size(); ++mi) {
            C06Model &cm = f.models[mi];
            if (src.flip(40)) {
                std::string n = refNames[src.below(refNames.size())];
                if (findComp(cm.spec, n) < 0) {
                    CompSpec j;
                    j.name = n;
                    VarSpec v;
                    v.name = "unused";
                    v.units = "dimensionless";
                    v.initial = "1";
                    j.vars.push_back(v);
                    cm.spec.comps.push_back(j);
                    cm.refs.emplace_back();
                    f.classes.insert("library-has-unrelated-component");
                }
            }
            if (src.flip(50) && !f.models[0].spec.units.empty()) {
                std::string n = f.models[0].spec.units[src.below(f.models[0].spec.units.size())].name;
                {
                    // preferably the importer's name of units that this library has under another name, or the de-clashed
                    // form (<name>_1) of a units name of this library
                    ForestUnits fu(f.models);
                    std::vector<std::string> aimed;
                    for (const auto &mu : f.models[0].spec.units) {
                        for (const auto &lu : cm.spec.units) {
                            if (lu.name != mu.name && findUnits(cm.spec, mu.name) < 0 && redKey(fu.reduce(0, mu.name)) == redKey(fu.reduce(static_cast<int>(mi), lu.name))) {
                                aimed.push_back(mu.name);
                            }
                        }
                    }
                    for (const auto &lu : cm.spec.units) {
                        if (lu.import < 0 && findUnits(cm.spec, lu.name + "_1") < 0) {
                            aimed.push_back(lu.name + "_1");
                        }
                    }
                    if (!aimed.empty() && src.flip(70)) {
                        n = aimed[src.below(aimed.size())];
                        f.classes.insert("library-has-unrelated-units-with-an-aimed-name");
                    }
                }
                if (findUnits(cm.spec, n) < 0) {
                    UnitsSpec u;
                    u.name = n;
                    UnitSpec c;
                    c.ref = "second";
                    c.exponent = 2.0;
                    u.units.push_back(c);
                    cm.spec.units.push_back(u);
                    f.classes.insert("library-has-unrelated-units");
                }
            }
        }
    }
};

bool nameCompat(const std::string &flat, const std::string &base, bool *suffixed)
{
    // base, optionally followed by de-clash suffixes: base(_<digits>)*
    if (flat == base) {
        return true;
    }
    if (flat.size() <= base.size() + 1 || flat.compare(0, base.size(), base) != 0) {
        return false;
    }
    size_t i = base.size();
    while (i < flat.size()) {
        if (flat[i] != '_' || i + 1 >= flat.size()) {
            return false;
        }
        size_t j = i + 1;
        while (j < flat.size() && flat[j] >= '0' && flat[j] <= '9') {
            ++j;
        }
        if (j == i + 1) {
            return false;
        }
        i = j;
    }
    if (suffixed != nullptr) {
        *suffixed = true;
    }
    return true;
}

} // namespace

std::string C06Forest::dirOf(size_t model) const
{
    const std::string &u = models[model].url;
    size_t p = u.find_last_of('/');
    return p == std::string::npos ? "" : u.substr(0, p + 1);
}

std::string C06Forest::describe() const
{
    std::ostringstream o;
    for (size_t i = 0; i < models.size(); ++i) {
        o << "=== " << models[i].url << (i == 0 ? " (main)" : "") << "\n"
          << specToText(models[i].spec) << "\n";
    }
    o << "=== reference (unsplit)\n"
      << specToText(ref.spec) << "\n"
      << ref.describe();
    o << "expected flat names:";
    for (size_t r = 0; r < base.size(); ++r) {
        o << " " << ref.spec.comps[r].name << "->" << base[r];
    }
    o << "\n";
    return o.str();
}

C06Forest c06GenForest(Src &src, const C06Options &opt)
{
    C06Forest f;
    // ---- plan, drawn first
    const size_t nOps = 1 + src.below(static_cast<uint64_t>(opt.maxOps));
    const unsigned dupCopies = src.flip(35) ? 2 + static_cast<unsigned>(src.below(2)) : 0;
    const unsigned aliasMode = static_cast<unsigned>(src.below(2));
    const bool twoLevel = src.flip(50);
    const unsigned nCnUnits = src.flip(50) ? 1 + static_cast<unsigned>(src.below(2)) : 0;
    const bool bare = src.flip(30);
    const bool ids = opt.allowIds && src.flip(10);
    const bool leaveGap = src.flip(opt.chainGapPct);
    const bool allowKept = src.flip(opt.keptChildrenPct);
    const bool allowKeptImportedUnits = allowKept && src.flip(50);
    const bool allowNameCapture = src.flip(30);
    const bool withResets = src.flip(45);
    const bool allowDepRename = src.flip(opt.chainGapPct);
    const bool allowAliasClash = src.flip(opt.chainGapPct);
    const bool allowDepImport = src.flip(opt.chainGapPct);
    std::vector<unsigned> opKind(nOps), opModel(nOps);
    for (size_t i = 0; i < nOps; ++i) {
        opKind[i] = static_cast<unsigned>(src.below(10)); // < 7: components, else units
        opModel[i] = static_cast<unsigned>(src.below(12)); // < 6: main, else a library
    }
    GtOptions go;
    go.maxComps = 5;
    go.maxClasses = 8;
    go.exprDepth = 2;
    f.ref = genGroundTruthModel(src, go);
    enrichUnits(f.ref, src, aliasMode, twoLevel, nCnUnits, f);
    if (withResets) {
        // Resets on variables of classes homed in the component (a copy of the subtree then resets its own class: orders stay
        // unique per connected variable set). Their test and reset values are cn elements in user-defined units: units used by
        // nothing else (rst<k>), or units the model has anyway. Generated code ignores resets: the truth is unaffected.
        ModelSpec &rs = f.ref.spec;
        std::vector<std::string> userUnits;
        for (const auto &u : rs.units) {
            userUnits.push_back(u.name);
        }
        unsigned made = 0;
        std::set<size_t> compsDone;
        for (size_t ci = 0; ci < f.ref.classes.size() && made < 2; ++ci) {
            const GtClass &cl = f.ref.classes[ci];
            size_t comp = static_cast<size_t>(cl.inst[0].comp);
            if (cl.role == GtRole::VOI || compsDone.count(comp) != 0 || !src.flip(cl.role == GtRole::STATE ? 70 : 30)) {
                continue;
            }
            compsDone.insert(comp);
            std::string un;
            if (userUnits.empty() || src.flip(60)) {
                UnitsSpec u;
                u.name = "rst" + std::to_string(made);
                UnitSpec c;
                c.ref = made == 0 ? "second" : "litre";
                c.prefix = made == 0 ? "milli" : "centi";
                u.units.push_back(c);
                rs.units.push_back(u);
                un = u.name;
                f.classes.insert("ref:units-used-by-a-reset-only");
            } else {
                un = userUnits[src.below(userUnits.size())];
            }
            ResetSpec r;
            r.var = r.testVar = cl.inst[0].var;
            r.hasOrder = true;
            r.order = 1 + static_cast<int>(made);
            r.testValue = resetValueMath(un, "1000");
            r.resetValue = resetValueMath(src.flip(50) ? un : "dimensionless", "0.5");
            rs.comps[comp].resets.push_back(r);
            ++made;
            f.classes.insert("ref:reset-with-cn-units");
        }
    }
    f.canon.resize(f.ref.spec.comps.size());
    for (size_t i = 0; i < f.canon.size(); ++i) {
        f.canon[i] = static_cast<int>(i);
    }
    if (dupCopies >= 2 && !f.ref.spec.comps.empty()) {
        // prefer a root whose subtree does not hold the variable of integration: try a few
        for (int attempt = 0; attempt < 4; ++attempt) {
            int root = static_cast<int>(src.below(f.ref.spec.comps.size()));
            if (subtreeOf(f.ref.spec, root).size() * dupCopies > 10) {
                continue;
            }
            if (duplicateSubtree(f.ref, f.canon, root, static_cast<int>(dupCopies))) {
                f.classes.insert("ref:duplicated-subtree");
                break;
            }
        }
    }
    for (const auto &c : f.ref.spec.comps) {
        f.base.push_back(c.name);
    }
    C06Model main;
    main.spec = f.ref.spec;
    main.spec.name = "main_model";
    main.url = "main.cellml";
    for (size_t i = 0; i < main.spec.comps.size(); ++i) {
        main.refs.push_back({static_cast<int>(i)});
    }
    f.models.push_back(main);

    Splitter sp(src, f, opt);
    sp.barePlaceholders = bare;
    sp.useIds = ids;
    sp.leaveGap = leaveGap;
    sp.allowKept = allowKept;
    sp.allowKeptImportedUnits = allowKeptImportedUnits;
    sp.allowDepRename = allowDepRename;
    sp.allowAliasClash = allowAliasClash;
    sp.allowDepImport = allowDepImport;
    sp.allowNameCapture = allowNameCapture;
    if (ids) {
        f.classes.insert("library-components-with-ids");
    }
    for (size_t i = 0; i < nOps; ++i) {
        int m = 0;
        if (opModel[i] >= 6 && f.models.size() > 1) {
            m = 1 + static_cast<int>((opModel[i] - 6) % (f.models.size() - 1));
        }
        bool done = opKind[i] < 7 ? sp.cutComponents(m) : sp.cutUnits(m);
        if (!done && m != 0) {
            done = opKind[i] < 7 ? sp.cutComponents(0) : sp.cutUnits(0);
        }
        if (!done) {
            // the other kind, on the main model
            done = opKind[i] < 7 ? sp.cutUnits(0) : sp.cutComponents(0);
        }
        ++f.counters[done ? "split-operations" : "split-operations-impossible"];
    }
    sp.cleanup();
    sp.junk();
    sp.rebuildEdges();

    // ---- features
    std::map<std::string, int> entityUse; // target|kind|ref -> count
    std::map<std::string, std::set<size_t>> entityImporters;
    std::map<int, std::set<size_t>> importersOf;
    for (size_t a = 0; a < f.models.size(); ++a) {
        const C06Model &cm = f.models[a];
        std::map<std::string, int> local;
        for (const auto &c : cm.spec.comps) {
            if (c.import >= 0) {
                ++f.importEdges;
                int t = cm.importTarget[static_cast<size_t>(c.import)];
                std::string k = std::to_string(t) + "|c|" + c.importRef;
                ++entityUse[k];
                ++local[k];
                entityImporters[k].insert(a);
                importersOf[t].insert(a);
            }
        }
        for (const auto &u : cm.spec.units) {
            if (u.import >= 0) {
                ++f.importEdges;
                f.classes.insert("imported-units");
                int t = cm.importTarget[static_cast<size_t>(u.import)];
                std::string k = std::to_string(t) + "|u|" + u.importRef;
                ++entityUse[k];
                ++local[k];
                entityImporters[k].insert(a);
                importersOf[t].insert(a);
                // used by cn elements only?
                bool byVar = false, byCn = false, byUnits = false;
                for (const auto &c : cm.spec.comps) {
                    for (const auto &v : c.vars) {
                        byVar = byVar || v.units == u.name;
                    }
                    std::set<std::string> cn;
                    collectCnUnits(c, cn);
                    byCn = byCn || cn.count(u.name) != 0;
                }
                for (const auto &x : cm.spec.units) {
                    for (const auto &ch : x.units) {
                        byUnits = byUnits || ch.ref == u.name;
                    }
                }
                if (byCn && !byVar && !byUnits) {
                    f.classes.insert("imported-units-used-by-cn-only");
                }
                if (byUnits) {
                    f.classes.insert("imported-units-referenced-by-units");
                }
                if (!byCn && !byVar && !byUnits) {
                    f.classes.insert("imported-units-unused");
                }
            }
        }
        for (const auto &l : local) {
            if (l.second >= 2) {
                f.classes.insert("duplicate-import-in-one-model");
            }
        }
        // library units needed by imported components through cn elements only
        if (a > 0) {
            std::set<std::string> byVar, byCn;
            for (size_t ci = 0; ci < cm.spec.comps.size(); ++ci) {
                if (cm.refs[ci].empty()) {
                    continue;
                }
                for (const auto &v : cm.spec.comps[ci].vars) {
                    byVar.insert(v.units);
                }
                collectCnUnits(cm.spec.comps[ci], byCn);
            }
            for (const auto &n : byCn) {
                if (byVar.count(n) == 0) {
                    f.classes.insert("library-units-needed-by-cn-only");
                }
            }
        }
    }
    for (size_t a = 0; a < f.models.size(); ++a) {
        const C06Model &cm = f.models[a];
        for (const auto &c : cm.spec.comps) {
            if (c.import < 0) {
                continue;
            }
            const C06Model &tm = f.models[static_cast<size_t>(cm.importTarget[static_cast<size_t>(c.import)])];
            int ti = findComp(tm.spec, c.importRef);
            if (ti < 0 || tm.spec.comps[static_cast<size_t>(ti)].import < 0) {
                continue;
            }
            for (const auto &v : c.vars) {
                bool found = false;
                if (opt.libsParsed) {
                    // a parsed import element has the variables its model's connections mention, nothing else
                    for (const auto &cn : tm.spec.conns) {
                        for (const auto &mp : cn.maps) {
                            found = found || (cn.c1 == ti && tm.spec.comps[static_cast<size_t>(ti)].vars[static_cast<size_t>(mp.v1)].name == v.name);
                            found = found || (cn.c2 == ti && tm.spec.comps[static_cast<size_t>(ti)].vars[static_cast<size_t>(mp.v2)].name == v.name);
                        }
                    }
                } else {
                    for (const auto &tv : tm.spec.comps[static_cast<size_t>(ti)].vars) {
                        found = found || tv.name == v.name;
                    }
                }
                if (!found) {
                    f.chainGap = true;
                }
            }
        }
    }
    if (f.chainGap) {
        f.classes.insert("chain-element-without-placeholder");
    }
    for (const auto &cm : f.models) {
        for (const auto &u : Splitter::unitsUsedBelowImports(cm.spec)) {
            int ui = findUnits(cm.spec, u);
            if (ui >= 0 && cm.spec.units[static_cast<size_t>(ui)].import >= 0) {
                f.importerChildrenUseImportedUnits = true;
            }
        }
    }
    for (const auto &cm : f.models) {
        for (const auto &c : cm.spec.comps) {
            if (c.parent >= 0 && cm.spec.comps[static_cast<size_t>(c.parent)].import >= 0) {
                f.importerChildren = true;
            }
        }
    }
    if (f.importerChildrenUseImportedUnits) {
        f.classes.insert("importer-children-below-import-use-imported-units");
    }
    {
        // reductions of every units of the forest, by model
        ForestUnits fu(f.models);
        std::vector<std::map<std::string, std::string>> keys(f.models.size());
        for (size_t a = 0; a < f.models.size(); ++a) {
            for (const auto &u : f.models[a].spec.units) {
                keys[a][u.name] = redKey(fu.reduce(static_cast<int>(a), u.name));
            }
        }
        for (size_t b = 1; b < f.models.size(); ++b) {
            for (const auto &u : f.models[b].spec.units) {
                // a dependency whose definition exists elsewhere under another name
                for (const auto &ch : u.units) {
                    if (!isUserUnits(ch.ref) || keys[b].count(ch.ref) == 0) {
                        continue;
                    }
                    for (size_t a = 0; a < f.models.size(); ++a) {
                        for (const auto &o : keys[a]) {
                            if (a != b && o.first != ch.ref && o.second == keys[b][ch.ref]) {
                                f.unitsDependencyKnownElsewhere = true;
                            }
                        }
                    }
                }
                // renaming in sequence: this units (X) equals another model's units named Y, and this library has its own,
                // different Y
                for (size_t a = 0; a < f.models.size(); ++a) {
                    if (a == b) {
                        continue;
                    }
                    for (const auto &o : keys[a]) {
                        auto own = keys[b].find(o.first);
                        if (o.first != u.name && o.second == keys[b][u.name] && own != keys[b].end() && own->second != o.second) {
                            f.libraryAliasNamedLikeOtherUnits = true;
                        }
                    }
                }
                // a dependency that is itself an import
                for (const auto &ch : u.units) {
                    int di = findUnits(f.models[b].spec, ch.ref);
                    if (di >= 0 && f.models[b].spec.units[static_cast<size_t>(di)].import >= 0) {
                        f.unitsDependencyIsImport = true;
                    }
                }
            }
        }
        // an import element of a library model with placeholder variables (parsed: the variables its connections mention)
        for (size_t b = 1; b < f.models.size(); ++b) {
            const ModelSpec &ls = f.models[b].spec;
            for (size_t ci = 0; ci < ls.comps.size(); ++ci) {
                if (ls.comps[ci].import < 0) {
                    continue;
                }
                bool visible = !opt.libsParsed && !ls.comps[ci].vars.empty();
                for (const auto &cn : ls.conns) {
                    visible = visible || ((cn.c1 == static_cast<int>(ci) || cn.c2 == static_cast<int>(ci)) && !cn.maps.empty());
                }
                if (visible) {
                    f.libraryImportElementWithPlaceholders = true;
                }
            }
        }
    }
    if (f.unitsDependencyKnownElsewhere) {
        f.classes.insert("units-dependency-defined-elsewhere-under-another-name");
    }
    for (const auto &cm : f.models) {
        for (const auto &u : cm.spec.units) {
            // imported under a name that other units of the model it comes from have
            if (u.import >= 0 && u.name != u.importRef && findUnits(f.models[static_cast<size_t>(cm.importTarget[static_cast<size_t>(u.import)])].spec, u.name) >= 0) {
                f.importedUnitsNamedLikeLibraryUnits = true;
            }
        }
    }
    if (f.importedUnitsNamedLikeLibraryUnits) {
        f.classes.insert("imported-units-named-like-other-units-of-their-library");
    }
    for (size_t a = 0; a < f.models.size(); ++a) {
        for (const auto &u : f.models[a].spec.units) {
            if (u.import < 0) {
                continue;
            }
            // a -> b: the imported definition refers to units that b imports from c, whose definition refers to local units
            size_t b = static_cast<size_t>(f.models[a].importTarget[static_cast<size_t>(u.import)]);
            int bi = findUnits(f.models[b].spec, u.importRef);
            if (bi < 0) {
                continue;
            }
            for (const auto &ch : f.models[b].spec.units[static_cast<size_t>(bi)].units) {
                int di = findUnits(f.models[b].spec, ch.ref);
                if (di < 0 || f.models[b].spec.units[static_cast<size_t>(di)].import < 0) {
                    continue;
                }
                const UnitsSpec &d = f.models[b].spec.units[static_cast<size_t>(di)];
                size_t cm = static_cast<size_t>(f.models[b].importTarget[static_cast<size_t>(d.import)]);
                int ci = findUnits(f.models[cm].spec, d.importRef);
                if (ci < 0) {
                    continue;
                }
                for (const auto &ch2 : f.models[cm].spec.units[static_cast<size_t>(ci)].units) {
                    if (isUserUnits(ch2.ref)) {
                        f.classes.insert("nested-imported-units-chain-with-local-child");
                    }
                }
            }
        }
    }
    if (f.libraryAliasNamedLikeOtherUnits) {
        f.classes.insert("units-renamed-in-sequence");
    }
    if (f.unitsDependencyIsImport) {
        f.classes.insert("library-units-dependency-is-an-import");
    }
    if (f.libraryImportElementWithPlaceholders) {
        f.classes.insert("library-import-element-with-placeholder-variables");
    }
    bool dupImport = false, diamond = false;
    for (const auto &e : entityUse) {
        dupImport = dupImport || e.second >= 2;
    }
    for (const auto &e : entityImporters) {
        if (e.second.size() >= 2) {
            f.classes.insert("diamond-on-one-entity");
            diamond = true;
        }
    }
    for (const auto &e : importersOf) {
        diamond = diamond || e.second.size() >= 2;
    }
    f.chainDepth = sp.longestFrom(0);
    if (dupImport) {
        f.classes.insert("duplicate-import");
    }
    if (diamond) {
        f.classes.insert("diamond");
    }
    f.classes.insert("chain-depth:" + std::to_string(f.chainDepth));
    f.classes.insert("libraries:" + std::to_string(f.models.size() - 1));
    std::map<std::string, int> baseCount;
    for (const auto &b : f.base) {
        ++baseCount[b];
    }
    bool compClash = false;
    for (const auto &b : baseCount) {
        compClash = compClash || b.second >= 2;
    }
    if (compClash) {
        f.classes.insert("component-name-clash");
    }
    bool unitsClash = f.classes.count("plan:units-name-clash") != 0;
    bool cnOnly = f.classes.count("imported-units-used-by-cn-only") != 0 || f.classes.count("library-units-needed-by-cn-only") != 0;
    bool children = f.classes.count("imported-component-with-encapsulated-children") != 0 || f.classes.count("importer-children-below-import-element") != 0;
    f.nontrivial = f.importEdges >= 2 && (f.chainDepth >= 2 || diamond || dupImport || compClash || unitsClash || cnOnly || children);
    if (f.usesSubdir) {
        f.classes.insert("library-in-subdirectory");
    }
    if (bare) {
        f.classes.insert("bare-placeholder-variables");
    }
    return f;
}

// ------------------------------------------------------------------------------------------------ matching

namespace {

struct Matcher
{
    const C06Forest &f;
    std::vector<ComponentPtr> flatComps; // preorder
    std::vector<int> flatParent; // index into flatComps, -1 = top level
    std::vector<std::vector<int>> cands; // per flat component
    std::vector<int> assign; // flat -> ref
    std::vector<bool> used;
    std::vector<C06Match> out;
    size_t cap;

    void collect(const ComponentPtr &c, int parent)
    {
        int me = static_cast<int>(flatComps.size());
        flatComps.push_back(c);
        flatParent.push_back(parent);
        for (size_t i = 0; i < c->componentCount(); ++i) {
            collect(c->component(i), me);
        }
    }
    void search(size_t k)
    {
        if (out.size() >= cap) {
            return;
        }
        if (k == flatComps.size()) {
            C06Match m;
            m.comp.resize(f.ref.spec.comps.size());
            for (size_t i = 0; i < flatComps.size(); ++i) {
                m.comp[static_cast<size_t>(assign[i])] = flatComps[i];
                m.renamed = m.renamed || flatComps[i]->name() != f.base[static_cast<size_t>(assign[i])];
            }
            out.push_back(m);
            return;
        }
        int wantParent = flatParent[k] < 0 ? -1 : assign[static_cast<size_t>(flatParent[k])];
        for (int r : cands[k]) {
            if (used[static_cast<size_t>(r)] || f.ref.spec.comps[static_cast<size_t>(r)].parent != wantParent) {
                continue;
            }
            used[static_cast<size_t>(r)] = true;
            assign[k] = r;
            search(k + 1);
            used[static_cast<size_t>(r)] = false;
        }
    }
};

} // namespace

std::vector<C06Match> c06MatchComponents(const ModelPtr &flat, const C06Forest &f, std::string &problem, size_t cap)
{
    Matcher m {f, {}, {}, {}, {}, {}, {}, cap};
    for (size_t i = 0; i < flat->componentCount(); ++i) {
        m.collect(flat->component(i), -1);
    }
    const auto &rc = f.ref.spec.comps;
    std::ostringstream names;
    for (const auto &c : m.flatComps) {
        names << " " << c->name();
    }
    if (m.flatComps.size() != rc.size()) {
        std::ostringstream o;
        o << "count\nthe flat model has " << m.flatComps.size() << " components (" << names.str() << " ), the reference has " << rc.size();
        problem = o.str();
        return {};
    }
    m.cands.resize(m.flatComps.size());
    for (size_t k = 0; k < m.flatComps.size(); ++k) {
        const auto &fc = m.flatComps[k];
        std::multiset<std::string> fv;
        for (size_t i = 0; i < fc->variableCount(); ++i) {
            fv.insert(fc->variable(i)->name());
        }
        // exact names first
        for (int pass = 0; pass < 2; ++pass) {
            for (size_t r = 0; r < rc.size(); ++r) {
                bool suffixed = false;
                if (!nameCompat(fc->name(), f.base[r], &suffixed) || suffixed != (pass == 1)) {
                    continue;
                }
                std::multiset<std::string> rv;
                for (const auto &v : rc[r].vars) {
                    rv.insert(v.name);
                }
                if (rv == fv) {
                    m.cands[k].push_back(static_cast<int>(r));
                }
            }
        }
        if (m.cands[k].empty()) {
            std::ostringstream o;
            o << "component\nflat component '" << fc->name() << "' with variables {";
            for (const auto &v : fv) {
                o << " " << v;
            }
            o << " } corresponds to no reference component (expected names and variables:";
            for (size_t r = 0; r < rc.size(); ++r) {
                o << " " << f.base[r] << "{";
                for (const auto &v : rc[r].vars) {
                    o << " " << v.name;
                }
                o << " }";
            }
            o << " ); flat components:" << names.str();
            problem = o.str();
            return {};
        }
    }
    m.assign.assign(m.flatComps.size(), -1);
    m.used.assign(rc.size(), false);
    m.search(0);
    if (m.out.empty()) {
        problem = "tree\nno assignment of the flat components (" + names.str() + " ) to the reference components respects the encapsulation hierarchy";
    }
    return m.out;
}

GtModel c06RenamedTruth(const C06Forest &f, const C06Match &m)
{
    GtModel g = f.ref;
    for (size_t r = 0; r < g.spec.comps.size(); ++r) {
        if (m.comp[r] != nullptr) {
            g.spec.comps[r].name = m.comp[r]->name();
        }
    }
    return g;
}

std::string c06CompareEquivalences(const C06Forest &f, const C06Match &m)
{
    // flat variable -> class
    std::map<Variable *, int> cls;
    std::map<Variable *, std::string> label;
    std::vector<VariablePtr> all;
    for (size_t ci = 0; ci < f.ref.classes.size(); ++ci) {
        for (const auto &in : f.ref.classes[ci].inst) {
            const auto &fc = m.comp[static_cast<size_t>(in.comp)];
            const std::string &vn = f.ref.spec.comps[static_cast<size_t>(in.comp)].vars[static_cast<size_t>(in.var)].name;
            auto v = fc != nullptr ? fc->variable(vn) : nullptr;
            if (v == nullptr) {
                return "missing-variable\nvariable " + vn + " of reference component " + f.ref.spec.comps[static_cast<size_t>(in.comp)].name + " is not in the flat model";
            }
            cls[v.get()] = static_cast<int>(ci);
            label[v.get()] = fc->name() + "." + vn;
            all.push_back(v);
        }
    }
    // union-find over direct equivalences
    std::map<Variable *, Variable *> parent;
    std::function<Variable *(Variable *)> find = [&](Variable *x) -> Variable * {
        while (parent[x] != x) {
            parent[x] = parent[parent[x]];
            x = parent[x];
        }
        return x;
    };
    for (const auto &v : all) {
        parent[v.get()] = v.get();
    }
    for (const auto &v : all) {
        for (size_t i = 0; i < v->equivalentVariableCount(); ++i) {
            auto e = v->equivalentVariable(i);
            if (e == nullptr || cls.count(e.get()) == 0) {
                return "foreign-variable\nflat variable " + label[v.get()] + " is equivalent to a variable that is not part of the flat model's reference image" + (e != nullptr ? " ('" + e->name() + "')" : " (null)");
            }
            if (cls[e.get()] != cls[v.get()]) {
                return "extra\nflat variables " + label[v.get()] + " and " + label[e.get()] + " are equivalent but belong to different classes of the reference";
            }
            parent[find(v.get())] = find(e.get());
        }
    }
    std::map<int, Variable *> rootOfClass;
    for (const auto &v : all) {
        int c = cls[v.get()];
        Variable *r = find(v.get());
        auto it = rootOfClass.find(c);
        if (it == rootOfClass.end()) {
            rootOfClass[c] = r;
        } else if (it->second != r) {
            return "missing\nflat variable " + label[v.get()] + " is not connected to " + label[it->second] + " although both are instances of one variable in the reference";
        }
    }
    return "";
}

std::string c06CompareUnits(const ModelPtr &flat, const C06Forest &f, const C06Match &m)
{
    std::map<std::string, UnitsSpec> cache;
    UnitsLookup lk = [&](const std::string &n) -> const UnitsSpec * {
        auto it = cache.find(n);
        if (it != cache.end()) {
            return &it->second;
        }
        auto u = flat->units(n);
        if (u == nullptr) {
            return nullptr;
        }
        UnitsSpec s;
        s.name = n;
        if (u->isImport()) {
            s.import = 0;
        }
        for (size_t i = 0; i < u->unitCount(); ++i) {
            UnitSpec c;
            c.ref = u->unitAttributeReference(i);
            c.prefix = u->unitAttributePrefix(i);
            c.exponent = u->unitAttributeExponent(i);
            c.multiplier = u->unitAttributeMultiplier(i);
            s.units.push_back(c);
        }
        return &cache.emplace(n, s).first->second;
    };
    for (size_t r = 0; r < f.ref.spec.comps.size(); ++r) {
        const auto &rc = f.ref.spec.comps[r];
        for (const auto &rv : rc.vars) {
            auto v = m.comp[r]->variable(rv.name);
            if (v == nullptr) {
                continue;
            }
            std::string where = m.comp[r]->name() + "." + rv.name;
            if (v->units() == nullptr) {
                return "no-units\nflat variable " + where + " has no units, the reference has " + rv.units;
            }
            std::string un = v->units()->name();
            if (!isStandardUnit(un) && flat->units(un) == nullptr) {
                return "dangling\nflat variable " + where + " refers to units '" + un + "' which the flat model does not define";
            }
            UnitsRed a = reduceUnits(un, lk);
            UnitsRed b = reduceUnits(f.ref.spec, rv.units);
            if (!a.defined) {
                return "undefined\nunits '" + un + "' of flat variable " + where + " do not reduce to base units (a reference to units the flat model lacks?)";
            }
            if (a.base != b.base) {
                return "dimension\nflat variable " + where + " has units '" + un + "' = " + redKey(a) + " but the reference has '" + rv.units + "' = " + redKey(b);
            }
            if (std::fabs(a.log10scale - b.log10scale) > 1e-9) {
                return "scale\nflat variable " + where + " has units '" + un + "' = " + redKey(a) + " but the reference has '" + rv.units + "' = " + redKey(b);
            }
        }
        // the cn elements of the resets' test and reset values
        if (m.comp[r]->resetCount() != rc.resets.size()) {
            return "reset-count\nflat component " + m.comp[r]->name() + " has " + std::to_string(m.comp[r]->resetCount()) + " resets, the reference " + std::to_string(rc.resets.size());
        }
        for (size_t ri = 0; ri < rc.resets.size(); ++ri) {
            std::vector<std::string> want, got;
            resetCnUnits(rc.resets[ri], want);
            ResetSpec flatReset;
            flatReset.testValue = m.comp[r]->reset(ri)->testValue();
            flatReset.resetValue = m.comp[r]->reset(ri)->resetValue();
            resetCnUnits(flatReset, got);
            std::string where = "reset " + std::to_string(ri) + " of flat component " + m.comp[r]->name();
            if (want.size() != got.size()) {
                return "reset-cn-count\n" + where + " has " + std::to_string(got.size()) + " cn elements with units, the reference " + std::to_string(want.size());
            }
            for (size_t k = 0; k < want.size(); ++k) {
                if (!isStandardUnit(got[k]) && flat->units(got[k]) == nullptr) {
                    return "reset-cn-dangling\n" + where + " has a cn element in units '" + got[k] + "' which the flat model does not define (reference: '" + want[k] + "')";
                }
                UnitsRed a = reduceUnits(got[k], lk);
                UnitsRed b = reduceUnits(f.ref.spec, want[k]);
                if (!a.defined || a.base != b.base || std::fabs(a.log10scale - b.log10scale) > 1e-9) {
                    return "reset-cn-units\n" + where + " has a cn element in units '" + got[k] + "' = " + redKey(a) + " but the reference has '" + want[k] + "' = " + redKey(b);
                }
            }
        }
    }
    return "";
}

std::string c06CrashToken(const std::string &diag)
{
    std::string kind = "died";
    size_t p = diag.find("ERROR: AddressSanitizer: ");
    if (p != std::string::npos) {
        size_t e = diag.find_first_of(" \n", p + 25);
        kind = "asan:" + diag.substr(p + 25, e - (p + 25));
    } else if ((p = diag.find("runtime error: ")) != std::string::npos) {
        // the first words of the message, without the operands
        std::istringstream is(diag.substr(p + 15, diag.find('\n', p) - (p + 15)));
        std::string w, what;
        int n = 0;
        while (is >> w && n < 5 && w != "of" && w != "for" && w[0] != '\'' && (w[0] < '0' || w[0] > '9')) {
            what += (what.empty() ? "" : "-") + w;
            ++n;
        }
        kind = "ubsan:" + what;
    } else if (diag.find("terminate called") != std::string::npos) {
        kind = "uncaught";
    }
    // UBSan names the source file on the error line whatever the options are (a stack trace is printed only on request), so
    // that is the localisation for UBSan reports; ASan reports always carry a stack: innermost libcellml frame.
    if (kind.find("stack-overflow") != std::string::npos) {
        // the innermost frame is wherever the stack ran out: name the libcellml function that recurses (most frequent frame)
        std::map<std::string, int> freq;
        for (size_t q = diag.find(" in libcellml::"); q != std::string::npos; q = diag.find(" in libcellml::", q + 1)) {
            size_t e = diag.find_first_of("([ \n", q + 4);
            ++freq[diag.substr(q + 4, e - (q + 4))];
        }
        std::string best = "?";
        int n = 0;
        for (const auto &fr : freq) {
            if (fr.second > n) {
                n = fr.second;
                best = fr.first;
            }
        }
        return kind + "|" + best;
    }
    std::string frame = "?";
    size_t re = diag.find("runtime error: ");
    if (kind.compare(0, 6, "ubsan:") == 0 && re != std::string::npos) {
        size_t ls = diag.rfind('\n', re);
        ls = ls == std::string::npos ? 0 : ls + 1;
        std::string path = diag.substr(ls, diag.find(':', ls) - ls);
        size_t sl = path.find_last_of('/');
        frame = sl == std::string::npos ? path : path.substr(sl + 1);
    } else if ((p = diag.find(" in libcellml::")) != std::string::npos) {
        size_t e = diag.find_first_of("( \n", p + 4);
        frame = diag.substr(p + 4, e - (p + 4));
    }
    return kind + "|" + frame;
}

} // namespace vp

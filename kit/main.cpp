// Driver: runs one property predicate under rapidcheck (random tapes with shrinking), under the
// bounded-exhaustive tape enumerator, or replays a saved tape. Writes a partial evidence file that
// bin/check merges. Exit codes: 0 held / known only, 10 unlisted violation (replay file written),
// 20 machinery error, 30 per-case time limit hit. Anything else is a crash (bin/check triages it).
#include <rapidcheck.h>

#include <algorithm>
#include <chrono>
#include <csignal>
#include <cstdio>
#include <cstdlib>
#include <cstring>
#include <fcntl.h>
#include <fstream>
#include <iostream>
#include <sys/stat.h>
#include <sys/wait.h>
#include <unistd.h>

#include <cxxabi.h>
#include <typeinfo>

#include "prop.h"

using namespace vp;

namespace {

std::string demangle(const char *n)
{
    int st = 0;
    char *d = abi::__cxa_demangle(n, nullptr, nullptr, &st);
    std::string r = (st == 0 && d != nullptr) ? d : n;
    free(d);
    return r;
}

#include "stats.inc"

std::string gReplayDir, gName;
long gCases = 1000, gSize = 200, gBound = 3, gCaseTimeout = 120;
int gCurFd = -1;
std::vector<uint32_t> gLastFailTape;
Case gLastFailCase;
bool gShrinking = false;
long gShrinkRuns = 0, gShrinkBudget = 300;

void writeCur(const std::vector<uint32_t> &tape)
{
    if (gCurFd < 0) {
        return;
    }
    if (ftruncate(gCurFd, 0) != 0) {
        return;
    }
    if (!tape.empty()) {
        ssize_t r = pwrite(gCurFd, tape.data(), tape.size() * sizeof(uint32_t), 0);
        (void)r;
    }
}

void onAlarm(int)
{
    const char m[] = "VP-CASE-TIMEOUT\n";
    ssize_t r = write(2, m, sizeof m - 1);
    (void)r;
    _exit(30);
}

// Runs one case; returns true when the property held (or the failure is a listed known finding).
bool runCase(const std::vector<uint32_t> &tape, Case &c)
{
    writeCur(tape);
    TapeSrc src(tape);
    if (gCaseTimeout > 0) {
        alarm(static_cast<unsigned>(gCaseTimeout));
    }
    auto t0 = std::chrono::steady_clock::now();
    try {
        property.run(src, c);
    } catch (const std::exception &e) {
        c.fail(std::string("uncaught:") + demangle(typeid(e).name()) + "|" + e.what(), std::string("exception escaped to the caller: ") + e.what());
    }
    alarm(0);
    long us = static_cast<long>(std::chrono::duration_cast<std::chrono::microseconds>(std::chrono::steady_clock::now() - t0).count());
    if (us > gStats.maxUs) {
        gStats.maxUs = us;
        gStats.slowest = clip(c.text, 3000);
    }
    c.count("tape_reads", static_cast<long>(src.reads));
    return c.ok;
}

std::string tapeToString(const std::vector<uint32_t> &t)
{
    std::string s;
    for (uint32_t v : t) {
        s += std::to_string(v);
        s += ' ';
    }
    return s;
}

std::string writeReplay(const std::vector<uint32_t> &tape, const Case &c, const std::string &driver)
{
    mkdir(gReplayDir.c_str(), 0777);
    uint64_t h = hashStr(tapeToString(tape) + c.sig);
    char name[64];
    snprintf(name, sizeof name, "/%s-%016llx.tape", gName.empty() ? property.id : gName.c_str(), static_cast<unsigned long long>(h));
    std::string path = gReplayDir + name;
    std::string tmpPath = path + ".tmp" + std::to_string(static_cast<long>(getpid()));
    std::ofstream out(tmpPath);
    out << "# property " << property.id << "\n# driver " << driver << " seed " << gSeed << "\n# sig " << c.sig << "\n";
    std::istringstream m(c.msg);
    std::string line;
    while (std::getline(m, line)) {
        out << "# msg " << line << "\n";
    }
    std::istringstream t(clip(c.text, 20000));
    while (std::getline(t, line)) {
        out << "# " << line << "\n";
    }
    out << "tape: " << tapeToString(tape) << "\n";
    out.close();
    rename(tmpPath.c_str(), path.c_str()); // several workers may shrink to the same tape: never expose a half-written file
    return path;
}

bool readReplay(const std::string &path, std::vector<uint32_t> &tape)
{
    std::ifstream in(path, std::ios::binary);
    if (!in) {
        return false;
    }
    std::string all((std::istreambuf_iterator<char>(in)), std::istreambuf_iterator<char>());
    size_t p = all.find("tape:");
    if (all.compare(0, 1, "#") == 0 && p != std::string::npos) {
        std::istringstream is(all.substr(p + 5));
        unsigned long long v;
        while (is >> v) {
            tape.push_back(static_cast<uint32_t>(v));
        }
        return true;
    }
    // raw binary tape (a .cur file or a libFuzzer artifact of a tape-driven target)
    tape.resize(all.size() / 4);
    if (!tape.empty()) {
        memcpy(tape.data(), all.data(), tape.size() * 4);
    }
    return true;
}

// Handles one finished case: accounting, known findings. Returns true when the driver should treat it as a pass.
bool judge(const std::vector<uint32_t> &tape, Case &c)
{
    if (!gShrinking) {
        account(c);
    }
    for (const auto &f : c.alsoFailed) {
        int k2 = knownFindingIndex(property.id, f.first);
        if (k2 >= 0) {
            if (!gShrinking) {
                ++gStats.knownHits[k2];
                if (gStats.knownExample[k2].empty()) {
                    gStats.knownExample[k2] = f.first + " :: " + f.second;
                }
            }
        } else if (c.ok) {
            c.fail(f.first, f.second);
        }
    }
    if (c.ok) {
        return true;
    }
    int k = knownFindingIndex(property.id, c.sig);
    if (k >= 0) {
        if (!gShrinking) {
            ++gStats.knownHits[k];
            if (gStats.knownExample[k].empty()) {
                gStats.knownExample[k] = c.sig + " :: " + c.msg;
            }
        }
        return true;
    }
    gLastFailTape = tape;
    gLastFailCase = c;
    return false;
}

void recordViolation(const std::string &driver)
{
    Stats &s = gStats;
    s.violations = 1;
    s.violationSig = gLastFailCase.sig;
    s.violationMsg = gLastFailCase.msg;
    s.violationText = gLastFailCase.text;
    s.violationReplay = writeReplay(gLastFailTape, gLastFailCase, driver);
    std::cout << "VP-FAIL property=" << property.id << " sig=" << s.violationSig << " replay=" << s.violationReplay << "\n"
              << "VP-FAIL-MSG " << clip(s.violationMsg, 2000) << std::endl;
}

} // namespace

int main(int argc, char **argv)
{
    std::string replayFile;
    for (int i = 1; i < argc; ++i) {
        std::string a = argv[i];
        auto next = [&]() -> std::string { return i + 1 < argc ? argv[++i] : ""; };
        if (a == "--mode") {
            gMode = next();
        } else if (a == "--seed") {
            gSeed = atol(next().c_str());
        } else if (a == "--cases") {
            gCases = atol(next().c_str());
        } else if (a == "--size") {
            gSize = atol(next().c_str());
        } else if (a == "--bound") {
            gBound = atol(next().c_str());
        } else if (a == "--part") {
            gPart = next();
        } else if (a == "--name") {
            gName = next();
        } else if (a == "--replays") {
            gReplayDir = next();
        } else if (a == "--case-timeout") {
            gCaseTimeout = atol(next().c_str());
        } else if (a == "--replay") {
            gMode = "replay";
            replayFile = next();
        } else {
            std::cerr << "unknown argument " << a << "\n";
            return 20;
        }
    }
    if (gSeed == 0) {
        gSeed = 1;
    }
    if (gReplayDir.empty()) {
        const char *home = getenv("VERIF_HOME");
        gReplayDir = std::string(home != nullptr ? home : ".") + "/replays/" + property.id;
    }
    setenv("LC_ALL", "C", 1);
    loadKnown();
    signal(SIGALRM, onAlarm);
    gStart = std::chrono::steady_clock::now();
    if (!gPart.empty()) {
        gCurFd = open((gPart + ".cur").c_str(), O_CREAT | O_RDWR | O_TRUNC, 0666);
    }
    if (property.init != nullptr) {
        property.init();
    }

    if (gMode == "replay") {
        std::vector<uint32_t> tape;
        Case c;
        bool isBin = replayFile.size() > 4 && replayFile.compare(replayFile.size() - 4, 4, ".bin") == 0;
        if (property.setMode != nullptr) {
            property.setMode("replay", gBound);
        }
        if (isBin) {
            // a libFuzzer artifact: raw bytes for byte-level targets, otherwise a byte-encoded choice tape
            std::ifstream in(replayFile, std::ios::binary);
            if (!in) {
                std::cerr << "cannot read " << replayFile << "\n";
                return 20;
            }
            std::string bytes((std::istreambuf_iterator<char>(in)), std::istreambuf_iterator<char>());
            if (gCaseTimeout > 0) {
                alarm(static_cast<unsigned>(gCaseTimeout));
            }
            try {
                if (property.runBytes != nullptr) {
                    property.runBytes(reinterpret_cast<const uint8_t *>(bytes.data()), bytes.size(), c);
                } else {
                    ByteSrc src(reinterpret_cast<const uint8_t *>(bytes.data()), bytes.size());
                    property.run(src, c);
                }
            } catch (const std::exception &e) {
                c.fail(std::string("uncaught:") + demangle(typeid(e).name()) + "|" + e.what(), std::string("exception escaped to the caller: ") + e.what());
            }
            alarm(0);
        } else {
            if (!readReplay(replayFile, tape)) {
                std::cerr << "cannot read " << replayFile << "\n";
                return 20;
            }
            runCase(tape, c);
        }
        for (const auto &f : c.alsoFailed) {
            if (knownFindingIndex(property.id, f.first) >= 0) {
                std::cout << "REPLAY-ALSO-FAILED sig=" << f.first << " (known finding)\n";
            } else if (c.ok) {
                c.fail(f.first, f.second);
            }
        }
        std::cout << "# case\n"
                  << clip(c.text, 20000) << "\n";
        if (c.ok) {
            std::cout << "REPLAY-OK property=" << property.id << "\n";
            return 0;
        }
        int k = knownFindingIndex(property.id, c.sig);
        std::cout << "REPLAY-FAIL property=" << property.id << " sig=" << c.sig << (k >= 0 ? " (known finding)" : "") << "\n"
                  << c.msg << "\n";
        return k >= 0 ? 0 : 10;
    }

    if (gMode == "ex") {
        if (property.setMode != nullptr) {
            property.setMode("ex", gBound);
        }
        ExhaustiveSrc src;
        bool complete = true;
        do {
            src.rewind();
            Case c;
            if (gCaseTimeout > 0) {
                alarm(static_cast<unsigned>(gCaseTimeout));
            }
            // The current tape is only known after the run; record the prefix so a crash can be replayed.
            {
                std::vector<uint32_t> pre;
                for (const auto &ch : src.path) {
                    pre.push_back(tapeUnmix(static_cast<uint32_t>(ch.v)));
                }
                writeCur(pre);
            }
            try {
                property.run(src, c);
            } catch (const std::exception &e) {
                c.fail(std::string("uncaught:") + demangle(typeid(e).name()) + "|" + e.what(), std::string("exception escaped to the caller: ") + e.what());
            }
            alarm(0);
            if (!judge(src.asTape(), c)) {
                recordViolation("exhaustive");
                complete = false;
                break;
            }
            if (gCases > 0 && gStats.evaluations >= gCases) {
                complete = !src.advance();
                break;
            }
        } while (src.advance());
        gStats.counters["exhaustive_complete"] = complete ? 1 : 0;
        writePart();
        return gStats.violations > 0 ? 10 : 0;
    }

    // rapidcheck
    if (property.setMode != nullptr) {
        property.setMode("rc", gBound);
    }
    {
        std::string params = "seed=" + std::to_string(gSeed) + " max_success=" + std::to_string(gCases) + " max_size=" + std::to_string(gSize) + " noshrink=0 verbose_progress=0 verbose_shrinking=0";
        setenv("RC_PARAMS", params.c_str(), 1);
    }
    long mainPhase = 0;
    bool ok = rc::check(std::string("property ") + property.id, [&](const std::vector<uint32_t> &tape) {
        gShrinking = !gLastFailTape.empty() || !gLastFailCase.sig.empty();
        ++mainPhase;
        if (gShrinking && ++gShrinkRuns > gShrinkBudget) {
            return; // shrink budget used up: accept every further candidate so that rapidcheck stops
        }
        Case c;
        runCase(tape, c);
        bool pass = judge(tape, c);
        if (!pass) {
            gShrinking = true;
            RC_FAIL(c.sig);
        }
    });
    if (!ok) {
        if (gLastFailTape.empty() && gLastFailCase.sig.empty()) {
            std::cerr << "rapidcheck reported failure without a failing case (gave up?)\n";
            writePart();
            return 20;
        }
        // Own reducer pass on top of rapidcheck's: truncate trailing entries, zero entries.
        gShrinking = true;
        {
            std::vector<uint32_t> best = gLastFailTape;
            std::string sig = gLastFailCase.sig;
            long budget = 600;
            // 1. cut the tail (reads past the end give the simplest choice)
            for (size_t cut = best.size() / 2; cut >= 1 && budget > 0; cut /= 2) {
                while (best.size() > cut && budget-- > 0) {
                    std::vector<uint32_t> t(best.begin(), best.end() - static_cast<long>(cut));
                    Case c;
                    runCase(t, c);
                    if (!c.ok && c.sig == sig) {
                        best = t;
                    } else {
                        break;
                    }
                }
            }
            // 2. remove inner blocks, 3. zero single entries
            for (size_t blk = std::max<size_t>(1, best.size() / 4); blk >= 1 && budget > 0; blk /= 2) {
                for (size_t i = 0; i + blk <= best.size() && budget-- > 0;) {
                    std::vector<uint32_t> t = best;
                    t.erase(t.begin() + static_cast<long>(i), t.begin() + static_cast<long>(i + blk));
                    Case c;
                    runCase(t, c);
                    if (!c.ok && c.sig == sig) {
                        best = t;
                    } else {
                        i += blk;
                    }
                }
                if (blk == 1) {
                    break;
                }
            }
            bool progress = true;
            int rounds = 0;
            while (progress && rounds++ < 3 && budget > 0) {
                progress = false;
                for (size_t i = 0; i < best.size() && budget-- > 0; ++i) {
                    if (best[i] == 0) {
                        continue;
                    }
                    std::vector<uint32_t> t = best;
                    t[i] = 0;
                    Case c;
                    runCase(t, c);
                    if (!c.ok && c.sig == sig) {
                        best = t;
                        progress = true;
                    }
                }
                while (!best.empty() && best.back() == 0) {
                    best.pop_back();
                }
            }
            Case c;
            runCase(best, c);
            if (!c.ok && c.sig == sig) {
                gLastFailTape = best;
                gLastFailCase = c;
            }
        }
        recordViolation("rapidcheck");
    }
    writePart();
    return gStats.violations > 0 ? 10 : 0;
}

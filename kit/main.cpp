// Driver: runs one property predicate under rapidcheck (random tapes with shrinking), under the
// bounded-exhaustive tape enumerator, or replays a saved tape. Writes a partial evidence file that
// bin/check merges. Exit codes: 0 held / known only, 10 unlisted violation (replay file written),
// 20 machinery error, 30 per-case time limit hit. Anything else is a crash (bin/check triages it).
#include <rapidcheck.h>

#include <algorithm>
#include <chrono>
#include <csignal>
#include <cstdio>
#include <cstdlib>
#include <cstring>
#include <fcntl.h>
#include <fstream>
#include <iostream>
#include <sys/stat.h>
#include <sys/wait.h>
#include <unistd.h>

#include "prop.h"

namespace vp {

std::string jsonEscape(const std::string &s)
{
    std::string o;
    for (unsigned char c : s) {
        switch (c) {
        case '"': o += "\\\""; break;
        case '\\': o += "\\\\"; break;
        case '\n': o += "\\n"; break;
        case '\r': o += "\\r"; break;
        case '\t': o += "\\t"; break;
        default:
            if (c < 0x20) {
                char b[8];
                snprintf(b, sizeof b, "\\u%04x", c);
                o += b;
            } else {
                o += static_cast<char>(c);
            }
        }
    }
    // Make sure the result is valid UTF-8 for JSON consumers: replace invalid sequences by '?'.
    std::string v;
    size_t i = 0;
    while (i < o.size()) {
        unsigned char c = static_cast<unsigned char>(o[i]);
        size_t n = c < 0x80 ? 1 : (c >> 5) == 6 ? 2 : (c >> 4) == 14 ? 3 : (c >> 3) == 30 ? 4 : 0;
        bool good = n > 0 && i + n <= o.size();
        for (size_t k = 1; good && k < n; ++k) {
            good = (static_cast<unsigned char>(o[i + k]) >> 6) == 2;
        }
        if (good) {
            v.append(o, i, n);
            i += n;
        } else {
            v += '?';
            ++i;
        }
    }
    return v;
}

bool globMatch(const std::string &p, const std::string &t)
{
    // '*' matches any run of characters; everything else is literal.
    size_t pi = 0, ti = 0, star = std::string::npos, mark = 0;
    while (ti < t.size()) {
        if (pi < p.size() && p[pi] == '*') {
            star = pi++;
            mark = ti;
        } else if (pi < p.size() && p[pi] == t[ti]) {
            ++pi;
            ++ti;
        } else if (star != std::string::npos) {
            pi = star + 1;
            ti = ++mark;
        } else {
            return false;
        }
    }
    while (pi < p.size() && p[pi] == '*') {
        ++pi;
    }
    return pi == p.size();
}

struct Known
{
    std::string property, sig, what;
};
static std::vector<Known> gKnown;

static void loadKnown()
{
    const char *p = getenv("VERIF_KNOWN");
    if (p == nullptr) {
        return;
    }
    std::ifstream in(p);
    std::string line;
    while (std::getline(in, line)) {
        size_t a = line.find('\t');
        size_t b = a == std::string::npos ? a : line.find('\t', a + 1);
        if (b == std::string::npos) {
            continue;
        }
        gKnown.push_back({line.substr(0, a), line.substr(a + 1, b - a - 1), line.substr(b + 1)});
    }
}

int knownFindingIndex(const std::string &propertyId, const std::string &sig)
{
    for (size_t i = 0; i < gKnown.size(); ++i) {
        if (gKnown[i].property == propertyId && globMatch(gKnown[i].sig, sig)) {
            return static_cast<int>(i);
        }
    }
    return -1;
}

std::string knownFindingWhat(int idx)
{
    return gKnown[static_cast<size_t>(idx)].what;
}

int runIsolated(void (*fn)(void *), void *arg, int timeoutS, std::string *diag)
{
    int pfd[2];
    if (pipe(pfd) != 0) {
        return -1;
    }
    fflush(nullptr);
    pid_t pid = fork();
    if (pid == 0) {
        close(pfd[0]);
        dup2(pfd[1], 2);
        close(pfd[1]);
        if (timeoutS > 0) {
            signal(SIGALRM, SIG_DFL);
            alarm(static_cast<unsigned>(timeoutS));
        }
        fn(arg);
        fflush(nullptr);
        _exit(0);
    }
    close(pfd[1]);
    std::string err;
    char buf[4096];
    ssize_t n;
    while ((n = read(pfd[0], buf, sizeof buf)) > 0) {
        if (err.size() < (1u << 20)) {
            err.append(buf, static_cast<size_t>(n));
        }
    }
    close(pfd[0]);
    int st = 0;
    waitpid(pid, &st, 0);
    if (diag != nullptr) {
        *diag = err;
    }
    if (WIFEXITED(st)) {
        return WEXITSTATUS(st);
    }
    if (WIFSIGNALED(st)) {
        return 1000 + WTERMSIG(st);
    }
    return -1;
}

} // namespace vp

using namespace vp;

namespace {

struct Stats
{
    long evaluations = 0;
    long nontrivial = 0;
    std::set<uint64_t> distinctNontrivial;
    std::map<std::string, long> classes;
    std::map<std::string, long> counters;
    std::map<int, long> knownHits;
    std::map<int, std::string> knownExample;
    std::vector<std::string> samples; // first non-trivial ones
    std::string largest;
    size_t largestWeight = 0;
    std::vector<std::string> picked;
    long violations = 0;
    std::string violationSig, violationMsg, violationText, violationReplay;
};

Stats gStats;
std::string gPart, gReplayDir, gMode = "rc", gName;
long gSeed = 1, gCases = 1000, gSize = 200, gBound = 3, gCaseTimeout = 120;
int gCurFd = -1;
std::vector<uint32_t> gLastFailTape;
Case gLastFailCase;
bool gShrinking = false;
long gShrinkRuns = 0, gShrinkBudget = 300;
std::chrono::steady_clock::time_point gStart;

std::string clip(const std::string &s, size_t n = 6000)
{
    if (s.size() <= n) {
        return s;
    }
    return s.substr(0, n) + "\n...[clipped " + std::to_string(s.size() - n) + " bytes]";
}

void writeCur(const std::vector<uint32_t> &tape)
{
    if (gCurFd < 0) {
        return;
    }
    if (ftruncate(gCurFd, 0) != 0) {
        return;
    }
    if (!tape.empty()) {
        ssize_t r = pwrite(gCurFd, tape.data(), tape.size() * sizeof(uint32_t), 0);
        (void)r;
    }
}

void onAlarm(int)
{
    const char m[] = "VP-CASE-TIMEOUT\n";
    ssize_t r = write(2, m, sizeof m - 1);
    (void)r;
    _exit(30);
}

// Runs one case; returns true when the property held (or the failure is a listed known finding).
bool runCase(const std::vector<uint32_t> &tape, Case &c)
{
    writeCur(tape);
    TapeSrc src(tape);
    if (gCaseTimeout > 0) {
        alarm(static_cast<unsigned>(gCaseTimeout));
    }
    property.run(src, c);
    alarm(0);
    c.count("tape_reads", static_cast<long>(src.reads));
    return c.ok;
}

void account(const Case &c)
{
    Stats &s = gStats;
    ++s.evaluations;
    for (const auto &k : c.classes) {
        ++s.classes[k];
    }
    for (const auto &k : c.counters) {
        s.counters[k.first] += k.second;
    }
    if (c.nontrivial) {
        ++s.nontrivial;
        bool isNew = s.distinctNontrivial.insert(c.hash).second;
        if (isNew && !c.text.empty()) {
            if (s.samples.size() < 2) {
                s.samples.push_back(clip(c.text));
            } else if ((c.hash % 997) < 5 && s.picked.size() < 3) {
                s.picked.push_back(clip(c.text));
            }
            if (c.weight > s.largestWeight) {
                s.largestWeight = c.weight;
                s.largest = clip(c.text, 12000);
            }
        }
    }
}

std::string tapeToString(const std::vector<uint32_t> &t)
{
    std::string s;
    for (uint32_t v : t) {
        s += std::to_string(v);
        s += ' ';
    }
    return s;
}

std::string writeReplay(const std::vector<uint32_t> &tape, const Case &c, const std::string &driver)
{
    mkdir(gReplayDir.c_str(), 0777);
    uint64_t h = hashStr(tapeToString(tape) + c.sig);
    char name[64];
    snprintf(name, sizeof name, "/%s-%016llx.tape", gName.empty() ? property.id : gName.c_str(), static_cast<unsigned long long>(h));
    std::string path = gReplayDir + name;
    std::ofstream out(path);
    out << "# property " << property.id << "\n# driver " << driver << " seed " << gSeed << "\n# sig " << c.sig << "\n";
    std::istringstream m(c.msg);
    std::string line;
    while (std::getline(m, line)) {
        out << "# msg " << line << "\n";
    }
    std::istringstream t(clip(c.text, 20000));
    while (std::getline(t, line)) {
        out << "# " << line << "\n";
    }
    out << "tape: " << tapeToString(tape) << "\n";
    return path;
}

bool readReplay(const std::string &path, std::vector<uint32_t> &tape)
{
    std::ifstream in(path, std::ios::binary);
    if (!in) {
        return false;
    }
    std::string all((std::istreambuf_iterator<char>(in)), std::istreambuf_iterator<char>());
    size_t p = all.find("tape:");
    if (all.compare(0, 1, "#") == 0 && p != std::string::npos) {
        std::istringstream is(all.substr(p + 5));
        unsigned long long v;
        while (is >> v) {
            tape.push_back(static_cast<uint32_t>(v));
        }
        return true;
    }
    // raw binary tape (a .cur file or a libFuzzer artifact of a tape-driven target)
    tape.resize(all.size() / 4);
    memcpy(tape.data(), all.data(), tape.size() * 4);
    return true;
}

void writePart()
{
    if (gPart.empty()) {
        return;
    }
    Stats &s = gStats;
    std::ofstream o(gPart + ".tmp");
    double wall = std::chrono::duration<double>(std::chrono::steady_clock::now() - gStart).count();
    o << "{\"property_id\":\"" << property.id << "\",\"mode\":\"" << gMode << "\",\"seed\":" << gSeed << ",\"level\":\"" << property.level
      << "\",\"evaluations\":" << s.evaluations << ",\"nontrivial\":" << s.nontrivial << ",\"wall_s\":" << wall << ",\"rule\":\"" << jsonEscape(property.rule) << "\"";
    o << ",\"hashes\":[";
    bool first = true;
    for (uint64_t h : s.distinctNontrivial) {
        o << (first ? "" : ",") << "\"" << std::hex << h << std::dec << "\"";
        first = false;
    }
    o << "],\"classes\":{";
    first = true;
    for (const auto &k : s.classes) {
        o << (first ? "" : ",") << "\"" << jsonEscape(k.first) << "\":" << k.second;
        first = false;
    }
    o << "},\"counters\":{";
    first = true;
    for (const auto &k : s.counters) {
        o << (first ? "" : ",") << "\"" << jsonEscape(k.first) << "\":" << k.second;
        first = false;
    }
    o << "},\"known_hits\":[";
    first = true;
    for (const auto &k : s.knownHits) {
        o << (first ? "" : ",") << "{\"sig\":\"" << jsonEscape(gKnown[static_cast<size_t>(k.first)].sig) << "\",\"what\":\"" << jsonEscape(gKnown[static_cast<size_t>(k.first)].what)
          << "\",\"count\":" << k.second << ",\"example\":\"" << jsonEscape(clip(s.knownExample[k.first], 1500)) << "\"}";
        first = false;
    }
    o << "],\"samples\":[";
    first = true;
    std::vector<std::string> all = s.samples;
    all.insert(all.end(), s.picked.begin(), s.picked.end());
    if (!s.largest.empty()) {
        all.push_back(s.largest);
    }
    for (const auto &x : all) {
        o << (first ? "" : ",") << "\"" << jsonEscape(x) << "\"";
        first = false;
    }
    o << "],\"assumptions\":[";
    first = true;
    for (const auto &x : property.assumptions) {
        o << (first ? "" : ",") << "\"" << jsonEscape(x) << "\"";
        first = false;
    }
    o << "],\"violations\":" << s.violations;
    if (s.violations > 0) {
        o << ",\"violation\":{\"sig\":\"" << jsonEscape(s.violationSig) << "\",\"msg\":\"" << jsonEscape(clip(s.violationMsg, 3000)) << "\",\"replay\":\"" << jsonEscape(s.violationReplay)
          << "\",\"text\":\"" << jsonEscape(clip(s.violationText, 4000)) << "\"}";
    }
    if (property.extraEvidence != nullptr) {
        property.extraEvidence(o);
    }
    o << "}\n";
    o.close();
    rename((gPart + ".tmp").c_str(), gPart.c_str());
}

// Handles one finished case: accounting, known findings. Returns true when the driver should treat it as a pass.
bool judge(const std::vector<uint32_t> &tape, Case &c)
{
    if (!gShrinking) {
        account(c);
    }
    if (c.ok) {
        return true;
    }
    int k = knownFindingIndex(property.id, c.sig);
    if (k >= 0) {
        if (!gShrinking) {
            ++gStats.knownHits[k];
            if (gStats.knownExample[k].empty()) {
                gStats.knownExample[k] = c.sig + " :: " + c.msg;
            }
        }
        return true;
    }
    gLastFailTape = tape;
    gLastFailCase = c;
    return false;
}

void recordViolation(const std::string &driver)
{
    Stats &s = gStats;
    s.violations = 1;
    s.violationSig = gLastFailCase.sig;
    s.violationMsg = gLastFailCase.msg;
    s.violationText = gLastFailCase.text;
    s.violationReplay = writeReplay(gLastFailTape, gLastFailCase, driver);
    std::cout << "VP-FAIL property=" << property.id << " sig=" << s.violationSig << " replay=" << s.violationReplay << "\n"
              << "VP-FAIL-MSG " << clip(s.violationMsg, 2000) << std::endl;
}

} // namespace

int main(int argc, char **argv)
{
    std::string replayFile;
    for (int i = 1; i < argc; ++i) {
        std::string a = argv[i];
        auto next = [&]() -> std::string { return i + 1 < argc ? argv[++i] : ""; };
        if (a == "--mode") {
            gMode = next();
        } else if (a == "--seed") {
            gSeed = atol(next().c_str());
        } else if (a == "--cases") {
            gCases = atol(next().c_str());
        } else if (a == "--size") {
            gSize = atol(next().c_str());
        } else if (a == "--bound") {
            gBound = atol(next().c_str());
        } else if (a == "--part") {
            gPart = next();
        } else if (a == "--name") {
            gName = next();
        } else if (a == "--replays") {
            gReplayDir = next();
        } else if (a == "--case-timeout") {
            gCaseTimeout = atol(next().c_str());
        } else if (a == "--replay") {
            gMode = "replay";
            replayFile = next();
        } else {
            std::cerr << "unknown argument " << a << "\n";
            return 20;
        }
    }
    if (gSeed == 0) {
        gSeed = 1;
    }
    if (gReplayDir.empty()) {
        const char *home = getenv("VERIF_HOME");
        gReplayDir = std::string(home != nullptr ? home : ".") + "/replays/" + property.id;
    }
    setenv("LC_ALL", "C", 1);
    loadKnown();
    signal(SIGALRM, onAlarm);
    gStart = std::chrono::steady_clock::now();
    if (!gPart.empty()) {
        gCurFd = open((gPart + ".cur").c_str(), O_CREAT | O_RDWR | O_TRUNC, 0666);
    }
    if (property.init != nullptr) {
        property.init();
    }

    if (gMode == "replay") {
        std::vector<uint32_t> tape;
        if (!readReplay(replayFile, tape)) {
            std::cerr << "cannot read " << replayFile << "\n";
            return 20;
        }
        if (property.setMode != nullptr) {
            property.setMode("replay", gBound);
        }
        Case c;
        runCase(tape, c);
        std::cout << "# case\n"
                  << clip(c.text, 20000) << "\n";
        if (c.ok) {
            std::cout << "REPLAY-OK property=" << property.id << "\n";
            return 0;
        }
        int k = knownFindingIndex(property.id, c.sig);
        std::cout << "REPLAY-FAIL property=" << property.id << " sig=" << c.sig << (k >= 0 ? " (known finding)" : "") << "\n"
                  << c.msg << "\n";
        return k >= 0 ? 0 : 10;
    }

    if (gMode == "ex") {
        if (property.setMode != nullptr) {
            property.setMode("ex", gBound);
        }
        ExhaustiveSrc src;
        bool complete = true;
        do {
            src.rewind();
            Case c;
            if (gCaseTimeout > 0) {
                alarm(static_cast<unsigned>(gCaseTimeout));
            }
            // The current tape is only known after the run; record the prefix so a crash can be replayed.
            {
                std::vector<uint32_t> pre;
                for (const auto &ch : src.path) {
                    pre.push_back(static_cast<uint32_t>(ch.v));
                }
                writeCur(pre);
            }
            property.run(src, c);
            alarm(0);
            if (!judge(src.asTape(), c)) {
                recordViolation("exhaustive");
                complete = false;
                break;
            }
            if (gCases > 0 && gStats.evaluations >= gCases) {
                complete = !src.advance();
                break;
            }
        } while (src.advance());
        gStats.counters["exhaustive_complete"] = complete ? 1 : 0;
        writePart();
        return gStats.violations > 0 ? 10 : 0;
    }

    // rapidcheck
    if (property.setMode != nullptr) {
        property.setMode("rc", gBound);
    }
    {
        std::string params = "seed=" + std::to_string(gSeed) + " max_success=" + std::to_string(gCases) + " max_size=" + std::to_string(gSize) + " noshrink=0 verbose_progress=0 verbose_shrinking=0";
        setenv("RC_PARAMS", params.c_str(), 1);
    }
    long mainPhase = 0;
    bool ok = rc::check(std::string("property ") + property.id, [&](const std::vector<uint32_t> &tape) {
        gShrinking = !gLastFailTape.empty() || !gLastFailCase.sig.empty();
        ++mainPhase;
        if (gShrinking && ++gShrinkRuns > gShrinkBudget) {
            return; // shrink budget used up: accept every further candidate so that rapidcheck stops
        }
        Case c;
        runCase(tape, c);
        bool pass = judge(tape, c);
        if (!pass) {
            gShrinking = true;
            RC_FAIL(c.sig);
        }
    });
    if (!ok) {
        if (gLastFailTape.empty() && gLastFailCase.sig.empty()) {
            std::cerr << "rapidcheck reported failure without a failing case (gave up?)\n";
            writePart();
            return 20;
        }
        // Own reducer pass on top of rapidcheck's: truncate trailing entries, zero entries.
        gShrinking = true;
        {
            std::vector<uint32_t> best = gLastFailTape;
            std::string sig = gLastFailCase.sig;
            long budget = 600;
            // 1. cut the tail (reads past the end give the simplest choice)
            for (size_t cut = best.size() / 2; cut >= 1 && budget > 0; cut /= 2) {
                while (best.size() > cut && budget-- > 0) {
                    std::vector<uint32_t> t(best.begin(), best.end() - static_cast<long>(cut));
                    Case c;
                    runCase(t, c);
                    if (!c.ok && c.sig == sig) {
                        best = t;
                    } else {
                        break;
                    }
                }
            }
            // 2. remove inner blocks, 3. zero single entries
            for (size_t blk = std::max<size_t>(1, best.size() / 4); blk >= 1 && budget > 0; blk /= 2) {
                for (size_t i = 0; i + blk <= best.size() && budget-- > 0;) {
                    std::vector<uint32_t> t = best;
                    t.erase(t.begin() + static_cast<long>(i), t.begin() + static_cast<long>(i + blk));
                    Case c;
                    runCase(t, c);
                    if (!c.ok && c.sig == sig) {
                        best = t;
                    } else {
                        i += blk;
                    }
                }
                if (blk == 1) {
                    break;
                }
            }
            bool progress = true;
            int rounds = 0;
            while (progress && rounds++ < 3 && budget > 0) {
                progress = false;
                for (size_t i = 0; i < best.size() && budget-- > 0; ++i) {
                    if (best[i] == 0) {
                        continue;
                    }
                    std::vector<uint32_t> t = best;
                    t[i] = 0;
                    Case c;
                    runCase(t, c);
                    if (!c.ok && c.sig == sig) {
                        best = t;
                        progress = true;
                    }
                }
                while (!best.empty() && best.back() == 0) {
                    best.pop_back();
                }
            }
            Case c;
            runCase(best, c);
            if (!c.ok && c.sig == sig) {
                gLastFailTape = best;
                gLastFailCase = c;
            }
        }
        recordViolation("rapidcheck");
    }
    writePart();
    return gStats.violations > 0 ? 10 : 0;
}

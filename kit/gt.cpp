#include "gt.h"

#include <algorithm>
#include <cctype>
#include <cmath>
#include <deque>
#include <functional>
#include <set>
#include <sstream>

namespace {
uint64_t fnv(const std::string &s)
{
    uint64_t h = 1469598103934665603ULL;
    for (unsigned char ch : s) {
        h = (h ^ ch) * 1099511628211ULL;
    }
    return h;
}
} // namespace

namespace vp {

const char *gtRoleName(GtRole r)
{
    switch (r) {
    case GtRole::VOI: return "variable_of_integration";
    case GtRole::CONSTANT: return "constant";
    case GtRole::COMPUTED_CONSTANT: return "computed_constant";
    case GtRole::ALGEBRAIC: return "algebraic";
    case GtRole::STATE: return "state";
    case GtRole::NLA: return "nla_unknown";
    }
    return "?";
}

double GtModel::instanceValue(int cls, int inst, int point) const
{
    const GtClass &c = classes[static_cast<size_t>(cls)];
    double v = (c.role == GtRole::VOI) ? voiValue[point] : c.value[point];
    return v * std::pow(10.0, c.inst[0].log10scale - c.inst[static_cast<size_t>(inst)].log10scale);
}

bool GtModel::findInstance(const std::string &compName, const std::string &varName, int &cls, int &inst) const
{
    for (size_t i = 0; i < classes.size(); ++i) {
        for (size_t k = 0; k < classes[i].inst.size(); ++k) {
            const auto &in = classes[i].inst[k];
            const auto &cs = spec.comps[static_cast<size_t>(in.comp)];
            if (cs.name == compName && cs.vars[static_cast<size_t>(in.var)].name == varName) {
                cls = static_cast<int>(i);
                inst = static_cast<int>(k);
                return true;
            }
        }
    }
    return false;
}

std::string GtModel::describe() const
{
    std::ostringstream o;
    o << "expected type: " << expectedType << "\n";
    for (size_t i = 0; i < classes.size(); ++i) {
        const auto &c = classes[i];
        const auto &h = c.inst[0];
        o << "class " << i << " " << gtRoleName(c.role) << " " << spec.comps[static_cast<size_t>(h.comp)].name << "." << spec.comps[static_cast<size_t>(h.comp)].vars[static_cast<size_t>(h.var)].name << " [" << h.units << "] = " << c.value[0] << " / " << c.value[1];
        if (c.role == GtRole::STATE) {
            o << " rate " << c.rate[0] << " / " << c.rate[1];
        }
        if (c.role != GtRole::CONSTANT && c.role != GtRole::VOI && c.role != GtRole::NLA) {
            o << "  := " << exprToSexp(c.rhs);
        }
        o << "  instances=" << c.inst.size() << "\n";
    }
    for (size_t s = 0; s < nla.size(); ++s) {
        for (const auto &e : nla[s].equations) {
            o << "nla system " << s << ": " << exprToSexp(e.first) << " = " << exprToSexp(e.second) << "\n";
        }
    }
    return o.str();
}

bool isKnownBadShape(const Expr &, size_t)
{
    return false;
}

// ------------------------------------------------------------------------------------------------ value-safe expressions

namespace {

const double kMargin = 2e-3;

struct ExprGen
{
    Src &src;
    const std::vector<std::pair<std::string, double>> &vars;
    const GtOptions &opt;
    long repairs = 0;
    std::vector<std::string> *opsUsed;
    EvalEnv env;

    ExprGen(Src &s, const std::vector<std::pair<std::string, double>> &v, const GtOptions &o, std::vector<std::string> *used)
        : src(s)
        , vars(v)
        , opt(o)
        , opsUsed(used)
    {
        env.var = [this](const std::string &n) {
            for (const auto &p : vars) {
                if (p.first == n) {
                    return p.second;
                }
            }
            return std::nan("");
        };
        env.diff = [](const std::string &, const std::string &) { return std::nan(""); };
    }

    bool good(const Expr &e, double *value = nullptr)
    {
        double m = 0;
        double v = evalExpr(e, env, &m);
        if (value != nullptr) {
            *value = v;
        }
        return std::isfinite(v) && m >= kMargin && std::fabs(v) <= 1e4;
    }

    Expr literal()
    {
        static const std::vector<std::string> nums = {"1.5", "2", "0.5", "3", "0.3", "-0.4", "1.25", "7", "-2", "0.8", "4.5", "-1.5", "0.05", "12", "2.5", ".75", "6."};
        Expr e = Expr::cn(0, "dimensionless", src.pick(nums));
        e.num = strtod(e.text.c_str(), nullptr);
        if (src.flip(15)) {
            e.op = Op::CNE;
            e.exp10 = src.range(-2, 2);
        }
        return e;
    }

    Expr leaf()
    {
        unsigned k = static_cast<unsigned>(src.below(10));
        if (!vars.empty() && k < 6) {
            return Expr::ci(src.pick(vars).first);
        }
        if (k == 9) {
            static const std::vector<Op> consts = {Op::PI, Op::E, Op::TRUE_, Op::FALSE_};
            return Expr::make(src.pick(consts), {});
        }
        return literal();
    }

    bool allowed(Op op) const
    {
        return opt.operatorPool.empty() || std::find(opt.operatorPool.begin(), opt.operatorPool.end(), op) != opt.operatorPool.end();
    }

    Expr gen(int depth)
    {
        if (depth <= 0 || src.below(5) == 0) {
            return leaf();
        }
        static const std::vector<Op> unary = {Op::NOT, Op::ABS, Op::EXP, Op::LN, Op::CEILING, Op::FLOOR, Op::SIN, Op::COS, Op::TAN, Op::SEC, Op::CSC, Op::COT, Op::SINH, Op::COSH, Op::TANH, Op::SECH, Op::CSCH, Op::COTH,
                                              Op::ASIN, Op::ACOS, Op::ATAN, Op::ASEC, Op::ACSC, Op::ACOT, Op::ASINH, Op::ACOSH, Op::ATANH, Op::ASECH, Op::ACSCH, Op::ACOTH};
        static const std::vector<Op> binary = {Op::EQ, Op::NEQ, Op::LT, Op::LEQ, Op::GT, Op::GEQ, Op::DIVIDE, Op::POWER, Op::REM};
        static const std::vector<Op> nary = {Op::AND, Op::OR, Op::XOR, Op::PLUS, Op::TIMES, Op::MIN, Op::MAX};
        auto sub = [&]() { return gen(depth - 1); };
        Expr e;
        switch (src.below(10)) {
        case 0:
        case 1: e = Expr::make(src.pick(unary), {sub()}); break;
        case 2:
        case 3: e = Expr::make(src.pick(binary), {sub(), sub()}); break;
        case 4:
        case 5: {
            Op o = src.pick(nary);
            std::vector<Expr> k;
            size_t n = 2 + src.below(2);
            for (size_t i = 0; i < n; ++i) {
                k.push_back(sub());
            }
            e = Expr::make(o, k);
            break;
        }
        case 6: e = src.flip(50) ? Expr::make(Op::MINUS, {sub()}) : Expr::make(Op::MINUS, {sub(), sub()}); break;
        case 7: e = src.flip(50) ? Expr::make(Op::ROOT, {sub()}) : Expr::make(Op::ROOT, {sub(), sub()}); break;
        case 8: e = src.flip(50) ? Expr::make(Op::LOG, {sub()}) : Expr::make(Op::LOG, {sub(), sub()}); break;
        default: {
            e.op = Op::PIECEWISE;
            size_t pieces = 1 + src.below(2);
            for (size_t i = 0; i < pieces; ++i) {
                e.kids.push_back(sub());
                // conditions: relational / logical expressions
                Expr cond = Expr::make(src.pick(binary), {sub(), sub()});
                if (!isRelational(cond.op)) {
                    cond.op = Op::LT;
                }
                e.kids.push_back(cond);
            }
            e.hasOtherwise = true; // without otherwise the value is NaN when no piece applies: kept out of the value domain
            e.kids.push_back(sub());
        }
        }
        if (!allowed(e.op)) {
            return leaf();
        }
        // known generator findings excluded by construction
        if (opt.avoidKnownBadShapes) {
            for (size_t i = 0; i < e.kids.size(); ++i) {
                if (isKnownBadShape(e, i)) {
                    e.kids[i] = literal();
                    ++excluded;
                }
            }
        }
        // repair: keep the operator, replace operands by literals until the value is safe
        for (int attempt = 0; attempt < 6 && !good(e); ++attempt) {
            ++repairs;
            size_t k = src.below(e.kids.size());
            e.kids[k] = (e.op == Op::PIECEWISE && (k % 2 == 1) && k + 1 < e.kids.size()) ? Expr::make(Op::LT, {literal(), literal()}) : literal();
        }
        if (!good(e)) {
            ++repairs;
            return literal();
        }
        if (opsUsed != nullptr) {
            opsUsed->push_back(opName(e.op));
        }
        if (opt.unaryPlus) {
            e = withUnaryPlus(e);
        }
        return e;
    }
    // opt.unaryPlus (no tape reads): a piecewise is rebuilt from its own material so that a piecewise below a unary plus is the
    // value / the condition of a piece, and any expression now and then gets a unary plus in front.
    Expr withUnaryPlus(const Expr &e)
    {
        const uint64_t h = fnv("unary-plus:" + exprToSexp(e));
        Expr r = e;
        if (e.op == Op::PIECEWISE && e.hasOtherwise && h % 3 != 0) {
            if (e.kids.size() == 5) {
                // [v1, c1, v2, c2, o] -> [+(piecewise v1 if c1 otherwise v2), c2, o]
                Expr inner;
                inner.op = Op::PIECEWISE;
                inner.hasOtherwise = true;
                inner.kids = {e.kids[0], e.kids[1], e.kids[2]};
                r.kids = {Expr::make(Op::PLUS, {inner}), e.kids[3], e.kids[4]};
            } else if (e.kids.size() == 3) {
                // [v1, c1, o] -> [v1, +(piecewise 1.5 if c1 otherwise 2), o]: the condition is a (non-zero) piecewise
                Expr inner;
                inner.op = Op::PIECEWISE;
                inner.hasOtherwise = true;
                inner.kids = {Expr::cn(1.5, "dimensionless", "1.5"), e.kids[1], Expr::cn(2, "dimensionless", "2")};
                r.kids = {e.kids[0], Expr::make(Op::PLUS, {inner}), e.kids[2]};
            }
            if (good(r)) {
                if (opsUsed != nullptr) {
                    opsUsed->push_back("plus-piecewise-in-piece");
                }
            } else {
                r = e;
            }
        }
        if (h % 11 == 5) {
            r = Expr::make(Op::PLUS, {r});
            if (opsUsed != nullptr) {
                opsUsed->push_back("unary-plus");
            }
        }
        return r;
    }
    long excluded = 0;
};

} // namespace

Expr genValueExpr(Src &src, const std::vector<std::pair<std::string, double>> &vars, int depth, const GtOptions &opt, long *repairs, std::vector<std::string> *opsUsed)
{
    ExprGen g(src, vars, opt, opsUsed);
    Expr e = g.gen(depth);
    if (repairs != nullptr) {
        *repairs += g.repairs;
    }
    return e;
}

// ------------------------------------------------------------------------------------------------ model generator

namespace {

struct Builder
{
    Src &src;
    const GtOptions &opt;
    GtModel m;
    std::vector<std::set<std::string>> varNames; // per component
    std::set<std::string> unitsNames;
    std::vector<std::vector<std::pair<Expr, Expr>>> equations; // per component
    unsigned scalePct = 35; // chance that a new instance gets scaled units (raised while the C03 extensions create instances)

    Builder(Src &s, const GtOptions &o)
        : src(s)
        , opt(o)
    {
    }

    bool reachable(int a, int b) const
    {
        const auto &A = m.spec.comps[static_cast<size_t>(a)];
        const auto &B = m.spec.comps[static_cast<size_t>(b)];
        return A.parent == B.parent || A.parent == b || B.parent == a;
    }

    // scaled variant of units u: a user units "<prefix>_<u>" = prefix * u (exponent 1), created on demand
    std::string scaledUnits(const std::string &u, double &log10scale)
    {
        static const std::vector<std::pair<std::string, int>> prefixes = {{"milli", -3}, {"kilo", 3}, {"micro", -6}, {"centi", -2}, {"mega", 6}};
        const auto &p = src.pick(prefixes);
        std::string name = p.first + "_" + u;
        if (unitsNames.count(name) == 0) {
            UnitsSpec us;
            us.name = name;
            UnitSpec c;
            c.ref = u;
            c.prefix = src.flip(50) ? p.first : std::to_string(p.second);
            us.units.push_back(c);
            m.spec.units.push_back(us);
            unitsNames.insert(name);
        }
        log10scale = reduceUnits(m.spec, name).log10scale;
        return name;
    }

    int addVariable(int comp, const std::string &stem, const std::string &units)
    {
        std::string n = stem;
        int k = 0;
        while (varNames[static_cast<size_t>(comp)].count(n) != 0) {
            n = stem + "_" + std::to_string(++k);
        }
        varNames[static_cast<size_t>(comp)].insert(n);
        VarSpec v;
        v.name = n;
        v.units = units;
        m.spec.comps[static_cast<size_t>(comp)].vars.push_back(v);
        return static_cast<int>(m.spec.comps[static_cast<size_t>(comp)].vars.size()) - 1;
    }

    const std::string &instName(const GtInstance &i) const
    {
        return m.spec.comps[static_cast<size_t>(i.comp)].vars[static_cast<size_t>(i.var)].name;
    }

    void connect(const GtInstance &a, const GtInstance &b)
    {
        int c1 = a.comp, c2 = b.comp, v1 = a.var, v2 = b.var;
        if (c1 > c2) {
            std::swap(c1, c2);
            std::swap(v1, v2);
        }
        ConnSpec *cs = nullptr;
        for (auto &x : m.spec.conns) {
            if (x.c1 == c1 && x.c2 == c2) {
                cs = &x;
            }
        }
        if (cs == nullptr) {
            ConnSpec n;
            n.c1 = c1;
            n.c2 = c2;
            m.spec.conns.push_back(n);
            cs = &m.spec.conns.back();
        }
        MapSpec ms;
        ms.v1 = v1;
        ms.v2 = v2;
        cs->maps.push_back(ms);
    }

    // instance of class cls in component comp, created (with the connections along a reachability path) on demand
    int instanceIn(int cls, int comp)
    {
        GtClass &c = m.classes[static_cast<size_t>(cls)];
        for (size_t i = 0; i < c.inst.size(); ++i) {
            if (c.inst[i].comp == comp) {
                return static_cast<int>(i);
            }
        }
        // BFS over components from the set of components that already hold an instance
        size_t n = m.spec.comps.size();
        std::vector<int> prev(n, -2);
        std::deque<int> q;
        for (const auto &i : c.inst) {
            prev[static_cast<size_t>(i.comp)] = -1;
            q.push_back(i.comp);
        }
        while (!q.empty() && prev[static_cast<size_t>(comp)] == -2) {
            int x = q.front();
            q.pop_front();
            for (size_t y = 0; y < n; ++y) {
                if (prev[y] == -2 && reachable(x, static_cast<int>(y))) {
                    prev[y] = x;
                    q.push_back(static_cast<int>(y));
                }
            }
        }
        if (prev[static_cast<size_t>(comp)] == -2) {
            return -1; // cannot happen: the component graph is connected by construction
        }
        std::vector<int> path;
        for (int x = comp; prev[static_cast<size_t>(x)] != -1; x = prev[static_cast<size_t>(x)]) {
            path.push_back(x);
        }
        std::reverse(path.begin(), path.end());
        int fromComp = prev[static_cast<size_t>(path.front())];
        int fromInst = -1;
        for (size_t i = 0; i < c.inst.size(); ++i) {
            if (c.inst[i].comp == fromComp) {
                fromInst = static_cast<int>(i);
            }
        }
        for (int pc : path) {
            GtInstance ni;
            ni.comp = pc;
            const GtInstance &home = c.inst[0];
            ni.units = home.units;
            ni.log10scale = home.log10scale;
            if (opt.scaledUnits && src.flip(scalePct)) {
                // a compatible but scaled units definition (prefix on an exponent-1 child of the home units' base)
                std::string base = home.units;
                double baseScale = home.log10scale;
                // derive from the unscaled base name when the home units are themselves a scaled variant
                size_t us = base.find('_');
                if (us != std::string::npos && isStandardUnit(base.substr(us + 1))) {
                    base = base.substr(us + 1);
                    baseScale = reduceUnits(m.spec, base).log10scale;
                }
                (void)baseScale;
                if (isStandardUnit(base)) {
                    ni.units = scaledUnits(base, ni.log10scale);
                }
            }
            std::string stem = instName(c.inst[0]);
            if (src.flip(40)) {
                stem += "_in";
            }
            ni.var = addVariable(pc, stem, ni.units);
            c.inst.push_back(ni);
            connect(c.inst[static_cast<size_t>(fromInst)], ni);
            fromInst = static_cast<int>(c.inst.size()) - 1;
        }
        return static_cast<int>(c.inst.size()) - 1;
    }

    // variables (name -> local value) an expression in component comp may read, with the classes they stand for
    void available(int comp, const std::vector<int> &classesAllowed, std::vector<std::pair<std::string, double>> &vars, std::map<std::string, int> &nameToClass)
    {
        for (int cls : classesAllowed) {
            int i = instanceIn(cls, comp);
            if (i < 0) {
                continue;
            }
            const auto &in = m.classes[static_cast<size_t>(cls)].inst[static_cast<size_t>(i)];
            vars.emplace_back(instName(in), m.instanceValue(cls, i, 0));
            nameToClass[instName(in)] = cls;
        }
    }

    double evalAt(const Expr &e, int comp, int point, int selfCls = -1)
    {
        EvalEnv env;
        env.var = [&](const std::string &n) {
            int cls = -1, inst = -1;
            if (m.findInstance(m.spec.comps[static_cast<size_t>(comp)].name, n, cls, inst)) {
                return m.instanceValue(cls, inst, point);
            }
            return std::nan("");
        };
        env.diff = [](const std::string &, const std::string &) { return std::nan(""); };
        (void)selfCls;
        return evalExpr(e, env, nullptr);
    }
    double marginAt(const Expr &e, int comp, int point)
    {
        EvalEnv env;
        env.var = [&](const std::string &n) {
            int cls = -1, inst = -1;
            if (m.findInstance(m.spec.comps[static_cast<size_t>(comp)].name, n, cls, inst)) {
                return m.instanceValue(cls, inst, point);
            }
            return std::nan("");
        };
        env.diff = [](const std::string &, const std::string &) { return std::nan(""); };
        double mg = 0;
        double v = evalExpr(e, env, &mg);
        if (!std::isfinite(v) || std::fabs(v) > 1e4) {
            return 0;
        }
        return mg;
    }
};

} // namespace

GtModel genGroundTruthModel(Src &src, const GtOptions &opt)
{
    Builder b(src, opt);
    GtModel &m = b.m;
    // ---- plan (drawn first)
    const size_t nComps = 1 + src.below(static_cast<uint64_t>(opt.maxComps));
    const size_t nClasses = 2 + src.below(static_cast<uint64_t>(opt.maxClasses) - 1);
    const bool wantOde = opt.allowOde && src.flip(60);
    const size_t nlaSize = (opt.allowNla && src.flip(30)) ? 1 + src.below(3) : 0;
    const unsigned layout = static_cast<unsigned>(src.below(3));
    std::vector<unsigned> rolePlan(nClasses);
    std::vector<size_t> homePlan(nClasses);
    for (size_t i = 0; i < nClasses; ++i) {
        rolePlan[i] = static_cast<unsigned>(src.below(10));
        homePlan[i] = src.below(nComps);
    }
    const double statePoint2[] = {0.35, 1.75, -0.6, 2.5, 0.9, -1.2, 3.25, 0.15};

    m.spec.name = "gt_model";
    static const std::vector<std::string> compStems = {"main", "membrane", "gate", "env", "pool"};
    for (size_t i = 0; i < nComps; ++i) {
        CompSpec c;
        c.name = compStems[i % compStems.size()] + (i >= compStems.size() ? std::to_string(i) : "");
        if (i > 0) {
            switch (layout) {
            case 0: c.parent = -1; break; // all siblings at the top level
            case 1: c.parent = 0; break; // star below the first component
            default: c.parent = static_cast<int>(i) - 1; break; // chain
            }
        }
        m.spec.comps.push_back(c);
    }
    b.varNames.resize(nComps);
    b.equations.resize(nComps);
    static const std::vector<std::string> unitsPool = {"dimensionless", "volt", "second", "metre", "ampere", "mole", "kilogram", "newton", "litre", "gram"};
    static const std::vector<std::string> stems = {"x", "y", "k", "V", "g", "alpha", "n", "i_K", "q", "w", "Cm", "E"};

    auto newClass = [&](GtRole role, int comp, const std::string &stem, const std::string &units) -> int {
        GtClass c;
        c.role = role;
        GtInstance h;
        h.comp = comp;
        h.units = units;
        h.log10scale = reduceUnits(m.spec, units).log10scale;
        h.var = b.addVariable(comp, stem, units);
        c.inst.push_back(h);
        m.classes.push_back(c);
        return static_cast<int>(m.classes.size()) - 1;
    };
    auto localName = [&](int cls, int inst) -> const std::string & {
        const auto &in = m.classes[static_cast<size_t>(cls)].inst[static_cast<size_t>(inst)];
        return m.spec.comps[static_cast<size_t>(in.comp)].vars[static_cast<size_t>(in.var)].name;
    };
    auto setInitial = [&](int cls, const std::string &text) {
        const auto &in = m.classes[static_cast<size_t>(cls)].inst[0];
        m.spec.comps[static_cast<size_t>(in.comp)].vars[static_cast<size_t>(in.var)].initial = text;
    };

    bool haveOde = false;
    if (wantOde) {
        std::string u = src.flip(70) ? "second" : src.pick(unitsPool);
        m.voi = newClass(GtRole::VOI, static_cast<int>(src.below(nComps)), src.flip(50) ? "t" : "time", u);
        m.classes[static_cast<size_t>(m.voi)].varying = true;
        m.voiValue[0] = 0.0;
        m.voiValue[1] = 0.7;
    }

    static const std::vector<std::string> reals = {"1", "2.5", "-1.5", "0.3", "3.0e0", "4", "0.75", "1.25e1", "-0.2", "6"};
    for (size_t qi = 0; qi < nClasses; ++qi) {
        int comp = static_cast<int>(homePlan[qi]);
        std::string units = src.pick(unitsPool);
        std::string stem = src.pick(stems);
        unsigned r = rolePlan[qi];
        std::vector<int> earlier;
        for (size_t k = 0; k < m.classes.size(); ++k) {
            earlier.push_back(static_cast<int>(k));
        }
        if (r <= 2 || m.classes.empty() || (m.voi >= 0 && m.classes.size() == 1 && !wantOde)) {
            // constant
            int cls = newClass(GtRole::CONSTANT, comp, stem, units);
            std::string t = src.pick(reals);
            setInitial(cls, t);
            m.classes[static_cast<size_t>(cls)].value[0] = m.classes[static_cast<size_t>(cls)].value[1] = strtod(t.c_str(), nullptr);
            continue;
        }
        if (r <= 5 && m.voi >= 0) {
            // state with an ODE; the right-hand side may read every class created so far and the state itself
            int cls = newClass(GtRole::STATE, comp, stem, units);
            GtClass *c = &m.classes[static_cast<size_t>(cls)];
            c->varying = true;
            std::string t = src.pick(reals);
            c->value[0] = strtod(t.c_str(), nullptr);
            c->value[1] = statePoint2[qi % 8];
            // initial value: a literal, or a constant of identical units living in the same component
            int initBy = -1;
            if (src.flip(20)) {
                for (int e : earlier) {
                    const auto &ec = m.classes[static_cast<size_t>(e)];
                    if (ec.role == GtRole::CONSTANT && ec.inst[0].comp == comp) {
                        initBy = e;
                    }
                }
            }
            if (initBy >= 0) {
                const auto &ec = m.classes[static_cast<size_t>(initBy)];
                // give the state the units of the constant so that no conversion question arises
                auto &sv = m.spec.comps[static_cast<size_t>(comp)].vars[static_cast<size_t>(c->inst[0].var)];
                sv.units = ec.inst[0].units;
                c->inst[0].units = ec.inst[0].units;
                c->inst[0].log10scale = ec.inst[0].log10scale;
                sv.initial = localName(initBy, 0);
                c->value[0] = ec.value[0];
                c->initialisedBy = initBy;
            } else {
                setInitial(cls, t);
            }
            earlier.push_back(cls);
            std::vector<std::pair<std::string, double>> vars;
            std::map<std::string, int> n2c;
            b.available(comp, earlier, vars, n2c);
            c = &m.classes[static_cast<size_t>(cls)];
            long rep = 0;
            Expr rhs = genValueExpr(src, vars, opt.smallExprs ? 1 : opt.exprDepth, opt, &rep, &m.operatorsUsed);
            // must also be safe at the second evaluation point
            if (b.marginAt(rhs, comp, 1) < kMargin) {
                ++rep;
                rhs = Expr::make(Op::PLUS, {Expr::ci(localName(cls, 0)), Expr::cn(1.5, "dimensionless", "1.5")});
            }
            m.counters["repairs"] += rep;
            c->rhs = rhs;
            std::vector<std::string> used;
            collectVars(rhs, used);
            for (const auto &u : used) {
                c->deps.push_back(n2c[u]);
            }
            c->voiLocalInst = b.instanceIn(m.voi, comp);
            c = &m.classes[static_cast<size_t>(cls)];
            c->rate[0] = b.evalAt(rhs, comp, 0);
            c->rate[1] = b.evalAt(rhs, comp, 1);
            Expr lhs = Expr::make(Op::DIFF, {Expr::ci(localName(m.voi, c->voiLocalInst)), Expr::ci(localName(cls, 0))});
            b.equations[static_cast<size_t>(comp)].emplace_back(lhs, rhs);
            haveOde = true;
            continue;
        }
        // x = expression over earlier classes: computed constant or algebraic depending on what it reads
        int cls = newClass(GtRole::COMPUTED_CONSTANT, comp, stem, units);
        std::vector<std::pair<std::string, double>> vars;
        std::map<std::string, int> n2c;
        std::vector<int> readable = earlier;
        if (r == 6) {
            // prefer a constant-only expression
            readable.clear();
            for (int e : earlier) {
                if (!m.classes[static_cast<size_t>(e)].varying) {
                    readable.push_back(e);
                }
            }
        }
        b.available(comp, readable, vars, n2c);
        long rep = 0;
        Expr rhs = genValueExpr(src, vars, opt.smallExprs ? 1 : opt.exprDepth, opt, &rep, &m.operatorsUsed);
        if (b.marginAt(rhs, comp, 1) < kMargin) {
            ++rep;
            rhs = Expr::cn(2.5, "dimensionless", "2.5");
        }
        m.counters["repairs"] += rep;
        GtClass &c = m.classes[static_cast<size_t>(cls)];
        c.rhs = rhs;
        std::vector<std::string> used;
        collectVars(rhs, used);
        for (const auto &u : used) {
            c.deps.push_back(n2c[u]);
            c.varying = c.varying || m.classes[static_cast<size_t>(n2c[u])].varying;
        }
        c.role = c.varying ? GtRole::ALGEBRAIC : GtRole::COMPUTED_CONSTANT;
        c.value[0] = b.evalAt(rhs, comp, 0);
        c.value[1] = b.evalAt(rhs, comp, 1);
        b.equations[static_cast<size_t>(comp)].emplace_back(Expr::ci(localName(cls, 0)), rhs);
    }
    // a voi without any ODE would be an unused, undefined variable: add a trivial state
    if (m.voi >= 0 && !haveOde) {
        int comp = m.classes[static_cast<size_t>(m.voi)].inst[0].comp;
        int cls = newClass(GtRole::STATE, comp, "s", "dimensionless");
        GtClass &c = m.classes[static_cast<size_t>(cls)];
        c.varying = true;
        c.value[0] = 1.0;
        c.value[1] = 0.35;
        setInitial(cls, "1");
        c.rhs = Expr::make(Op::MINUS, {Expr::ci(localName(cls, 0))});
        c.deps.push_back(cls);
        c.voiLocalInst = 0;
        c.rate[0] = -1.0;
        c.rate[1] = -0.35;
        b.equations[static_cast<size_t>(comp)].emplace_back(Expr::make(Op::DIFF, {Expr::ci(localName(m.voi, 0)), Expr::ci(localName(cls, 0))}), c.rhs);
        haveOde = true;
    }
    // ---- NLA system: F_i(u_1..u_n) = F_i(W_1..W_n), W_j expressions of known classes, so u_j = W_j is a solution
    if (nlaSize > 0 && !m.classes.empty()) {
        GtNlaSystem sys;
        sys.comp = static_cast<int>(src.below(nComps));
        // Conventions of the library for implicit equations (learnt by probing, see DESIGN.md): with a single unknown and no
        // initial value on it, the equation is an NLA equation for that unknown whatever else it reads. Several coupled
        // unknowns are only recognised when each carries an initial value (an initial guess) - and then EVERY initialised
        // non-state variable the equations mention is taken for an unknown, so such systems must not read constants
        // (initialised variables); they read computed constants, algebraic variables, states and the voi only.
        const bool withGuesses = nlaSize > 1 || src.flip(30);
        // touchesConstant: the value is (transitively, through defining equations) derived from an initialised constant.
        // With initial guesses in play the library reads such webs of initialised variables differently from what the
        // construction intends (any initialised variable may end up as the unknown of some equation), so systems with
        // guesses read only the voi, states and what is computed from those and from literals.
        std::vector<bool> touchesConstant(m.classes.size(), false);
        for (size_t k = 0; k < m.classes.size(); ++k) {
            const GtClass &kc = m.classes[k];
            if (kc.role == GtRole::CONSTANT) {
                touchesConstant[k] = true;
            } else if (kc.role == GtRole::COMPUTED_CONSTANT || kc.role == GtRole::ALGEBRAIC) {
                for (int d : kc.deps) {
                    touchesConstant[k] = touchesConstant[k] || touchesConstant[static_cast<size_t>(d)];
                }
            }
        }
        std::vector<int> known;
        for (size_t k = 0; k < m.classes.size(); ++k) {
            if (withGuesses && touchesConstant[k]) {
                continue;
            }
            known.push_back(static_cast<int>(k));
        }
        if (opt.nlaDependents && !withGuesses) {
            // C03 extension: in a third of the single-unknown systems the solution reads constants only, so that (with a variable
            // computed from the unknown, below) a constant determined through an NLA system occurs in ODE models too
            std::string key;
            for (const auto &kc : m.classes) {
                key += std::to_string(kc.value[0]) + ";";
            }
            if (fnv("constant-system:" + key) % 3 == 0) {
                std::vector<int> steady;
                for (int k : known) {
                    if (!m.classes[static_cast<size_t>(k)].varying) {
                        steady.push_back(k);
                    }
                }
                known = steady;
                ++m.counters["nla-constant-system"];
            }
        }
        std::vector<std::pair<std::string, double>> vars;
        std::map<std::string, int> n2c;
        b.available(sys.comp, known, vars, n2c);
        std::vector<Expr> W;
        for (size_t j = 0; j < nlaSize; ++j) {
            int cls = newClass(GtRole::NLA, sys.comp, "u", src.pick(unitsPool));
            long rep = 0;
            Expr w = genValueExpr(src, vars, 2, opt, &rep, &m.operatorsUsed);
            if (b.marginAt(w, sys.comp, 1) < kMargin) {
                ++rep;
                w = Expr::cn(1.25, "dimensionless", "1.25");
            }
            m.counters["repairs"] += rep;
            GtClass &c = m.classes[static_cast<size_t>(cls)];
            c.nlaSystem = static_cast<int>(m.nla.size());
            c.rhs = w;
            std::vector<std::string> used;
            collectVars(w, used);
            for (const auto &u : used) {
                c.deps.push_back(n2c[u]);
                c.varying = c.varying || m.classes[static_cast<size_t>(n2c[u])].varying;
            }
            c.value[0] = b.evalAt(w, sys.comp, 0);
            c.value[1] = b.evalAt(w, sys.comp, 1);
            if (withGuesses) {
                setInitial(cls, (j % 2 == 0) ? "1" : "0.5");
            }
            sys.unknowns.push_back(cls);
            W.push_back(w);
        }
        // templates: sum over j of T_ij(u_j)
        std::function<Expr(const Expr &, const std::map<std::string, Expr> &)> subst = [&](const Expr &e, const std::map<std::string, Expr> &mp) -> Expr {
            if (e.op == Op::CI) {
                auto it = mp.find(e.name);
                return it != mp.end() ? it->second : e;
            }
            Expr r = e;
            for (auto &k : r.kids) {
                k = subst(k, mp);
            }
            return r;
        };
        bool sparse = false;
        if (opt.nlaSparseReads && nlaSize > 1) {
            std::string all;
            for (const auto &w : W) {
                all += exprToSexp(w);
            }
            sparse = fnv("sparse:" + all) % 4 != 0;
        }
        std::vector<int> sparseInputs;
        for (size_t i = 0; i < nlaSize; ++i) {
            std::vector<Expr> terms;
            for (size_t j = 0; j < nlaSize; ++j) {
                Expr u = Expr::ci(localName(sys.unknowns[j], 0));
                Expr coef = Expr::cn(0, "dimensionless", std::to_string(2 + static_cast<int>((i * 3 + j * 5) % 7)));
                coef.num = strtod(coef.text.c_str(), nullptr);
                Expr term;
                switch (src.below(4)) {
                case 0: term = Expr::make(Op::TIMES, {coef, u}); break;
                case 1: term = Expr::make(Op::TIMES, {coef, Expr::make(Op::POWER, {u, Expr::cn(2, "dimensionless", "2")})}); break;
                case 2: term = Expr::make(Op::PLUS, {Expr::make(Op::TIMES, {coef, u}), Expr::make(Op::SIN, {u})}); break;
                default: term = Expr::make(Op::TIMES, {coef, Expr::make(Op::EXP, {Expr::make(Op::DIVIDE, {u, Expr::cn(10, "dimensionless", "10")})})}); break;
                }
                terms.push_back(term);
            }
            Expr F = terms.size() == 1 ? Expr::make(Op::PLUS, {terms[0], Expr::cn(1, "dimensionless", "1")}) : Expr::make(Op::PLUS, terms);
            std::map<std::string, Expr> mp;
            for (size_t j = 0; j < nlaSize; ++j) {
                mp[localName(sys.unknowns[j], 0)] = W[j];
            }
            Expr rhs = subst(F, mp);
            if (b.marginAt(F, sys.comp, 0) < kMargin || b.marginAt(F, sys.comp, 1) < kMargin || b.marginAt(rhs, sys.comp, 0) < kMargin || b.marginAt(rhs, sys.comp, 1) < kMargin) {
                // fall back to a linear template
                std::vector<Expr> lin;
                for (size_t j = 0; j < nlaSize; ++j) {
                    Expr coef = Expr::cn(0, "dimensionless", std::to_string(2 + static_cast<int>((i * 3 + j * 5) % 7)));
                    coef.num = strtod(coef.text.c_str(), nullptr);
                    lin.push_back(Expr::make(Op::TIMES, {coef, Expr::ci(localName(sys.unknowns[j], 0))}));
                }
                F = lin.size() == 1 ? Expr::make(Op::PLUS, {lin[0], Expr::cn(1, "dimensionless", "1")}) : Expr::make(Op::PLUS, lin);
                rhs = subst(F, mp);
                ++m.counters["repairs"];
            }
            if (sparse) {
                // g_i = F_i(W) as a variable of its own (never alone on one side of the system's equation: with initial
                // guesses the unknowns count as known in the analyser's first passes and a bare g_i would be taken for the
                // unknown of this equation); equation i of the system then reads g_i and no sibling does.
                const uint64_t h = fnv("sparse-eq:" + exprToSexp(F));
                int g = newClass(GtRole::COMPUTED_CONSTANT, sys.comp, "g", unitsPool[h % unitsPool.size()]);
                {
                    GtClass &gc = m.classes[static_cast<size_t>(g)];
                    gc.rhs = rhs;
                    std::vector<std::string> used;
                    collectVars(rhs, used);
                    for (const auto &u : used) {
                        gc.deps.push_back(n2c[u]);
                        gc.varying = gc.varying || m.classes[static_cast<size_t>(n2c[u])].varying;
                    }
                    gc.role = gc.varying ? GtRole::ALGEBRAIC : GtRole::COMPUTED_CONSTANT;
                    gc.value[0] = b.evalAt(rhs, sys.comp, 0);
                    gc.value[1] = b.evalAt(rhs, sys.comp, 1);
                }
                Expr gi = Expr::ci(localName(g, 0));
                b.equations[static_cast<size_t>(sys.comp)].emplace_back(gi, rhs);
                sparseInputs.push_back(g);
                if ((h >> 8) % 2 == 0) {
                    F = Expr::make(Op::MINUS, {F, gi});
                    rhs = Expr::cn(0, "dimensionless", "0");
                } else {
                    rhs = Expr::make(Op::PLUS, {gi, Expr::cn(0, "dimensionless", "0")});
                }
                ++m.counters["nla-sparse-equation"];
                sys.equations.emplace_back(F, rhs);
                b.equations[static_cast<size_t>(sys.comp)].emplace_back(F, rhs);
                continue;
            }
            // With initial guesses the unknowns count as known in the analyser's first passes, so a bare k that still awaits
            // its own equation would be taken for the unknown of this one: only the voi and states qualify then.
            std::vector<std::string> bare;
            for (const auto &v : vars) {
                const GtRole r = m.classes[static_cast<size_t>(n2c[v.first])].role;
                if (!withGuesses || r == GtRole::STATE || r == GtRole::VOI) {
                    bare.push_back(v.first);
                }
            }
            if (opt.nlaBareKnown && !bare.empty() && fnv(exprToSexp(F)) % 3 != 0) {
                const std::string kn = bare[fnv(exprToSexp(rhs)) % bare.size()];
                Expr residual = Expr::make(Op::MINUS, {F, rhs});
                rhs = Expr::make(Op::PLUS, {residual, Expr::ci(kn)});
                F = Expr::ci(kn);
                ++m.counters["nla-bare-known-side"];
            }
            sys.equations.emplace_back(F, rhs);
            b.equations[static_cast<size_t>(sys.comp)].emplace_back(F, rhs);
        }
        if (sparse) {
            // what the unknowns read is now the g_i
            for (int u : sys.unknowns) {
                m.classes[static_cast<size_t>(u)].deps = sparseInputs;
            }
            ++m.counters["nla-sparse-system"];
        }
        m.nla.push_back(sys);
        // ---- variables computed from the unknowns (C03 extension)
        if (opt.nlaDependents && fnv("dependents:" + exprToSexp(W[0])) % 3 != 0) {
            const size_t nDep = 1 + fnv("dependents-n:" + exprToSexp(W[0])) % 2;
            for (size_t d = 0; d < nDep; ++d) {
                const uint64_t h = fnv("dependent:" + std::to_string(d) + exprToSexp(W[W.size() - 1]));
                const int comp = (h % 3 == 0) ? static_cast<int>((h >> 8) % nComps) : sys.comp;
                std::vector<int> readable = known;
                bool steadySystem = true;
                for (int u : sys.unknowns) {
                    steadySystem = steadySystem && !m.classes[static_cast<size_t>(u)].varying;
                }
                if (steadySystem && (h >> 3) % 4 != 0) {
                    // a constant system: mostly keep what is computed from it constant too
                    readable.clear();
                    for (int k : known) {
                        if (!m.classes[static_cast<size_t>(k)].varying) {
                            readable.push_back(k);
                        }
                    }
                }
                readable.insert(readable.end(), sys.unknowns.begin(), sys.unknowns.end());
                std::vector<std::pair<std::string, double>> dvars;
                std::map<std::string, int> dn2c;
                b.available(comp, readable, dvars, dn2c);
                long rep = 0;
                Expr rhs = genValueExpr(src, dvars, 2, opt, &rep, &m.operatorsUsed);
                std::vector<std::string> used;
                collectVars(rhs, used);
                bool readsUnknown = false;
                for (const auto &u : used) {
                    readsUnknown = readsUnknown || m.classes[static_cast<size_t>(dn2c[u])].role == GtRole::NLA;
                }
                const int u0 = sys.unknowns[(h >> 16) % sys.unknowns.size()];
                const std::string u0name = localName(u0, b.instanceIn(u0, comp));
                if (!readsUnknown) {
                    rhs = Expr::make(Op::PLUS, {rhs, Expr::make(Op::TIMES, {Expr::cn(2, "dimensionless", "2"), Expr::ci(u0name)})});
                }
                if (b.marginAt(rhs, comp, 0) < kMargin || b.marginAt(rhs, comp, 1) < kMargin) {
                    ++rep;
                    rhs = Expr::make(Op::PLUS, {Expr::ci(u0name), Expr::cn(1.5, "dimensionless", "1.5")});
                }
                m.counters["repairs"] += rep;
                int y = newClass(GtRole::ALGEBRAIC, comp, "y", unitsPool[(h >> 24) % unitsPool.size()]);
                GtClass &yc = m.classes[static_cast<size_t>(y)];
                yc.rhs = rhs;
                used.clear();
                collectVars(rhs, used);
                for (const auto &u : used) {
                    yc.deps.push_back(dn2c[u]);
                    yc.varying = yc.varying || m.classes[static_cast<size_t>(dn2c[u])].varying;
                }
                yc.value[0] = b.evalAt(rhs, comp, 0);
                yc.value[1] = b.evalAt(rhs, comp, 1);
                b.equations[static_cast<size_t>(comp)].emplace_back(Expr::ci(localName(y, 0)), rhs);
                ++m.counters["nla-dependent"];
            }
        }
    }
    // ---- C03 extensions (all off by default; see GtOptions)
    // a component in which class cls has no instance yet (one is then created, mostly scaled) or a scaled one, searched from start
    auto preferScaledComp = [&](int cls, size_t start) -> int {
        for (size_t d = 0; d < nComps; ++d) {
            const int comp = static_cast<int>((start + d) % nComps);
            const GtClass &c = m.classes[static_cast<size_t>(cls)];
            int found = -1;
            for (size_t i = 0; i < c.inst.size(); ++i) {
                if (c.inst[i].comp == comp) {
                    found = static_cast<int>(i);
                }
            }
            if (found < 0 || c.inst[static_cast<size_t>(found)].log10scale != c.inst[0].log10scale) {
                return comp;
            }
        }
        return static_cast<int>(start % nComps);
    };
    if (opt.rateReaders && m.voi >= 0) {
        // r = dx/dt: a rate read as one whole side of an equation, in a component that sees the state and the variable of
        // integration through instances of their own (mostly scaled)
        b.scalePct = 65;
        size_t made = 0;
        const size_t nBefore = m.classes.size();
        for (size_t k = 0; k < nBefore && made < 2; ++k) {
            if (m.classes[k].role != GtRole::STATE) {
                continue;
            }
            const uint64_t h = fnv("rate-reader:" + localName(static_cast<int>(k), 0) + exprToSexp(m.classes[k].rhs));
            if (h % 3 == 0) {
                continue;
            }
            const int comp = (h >> 5) % 4 == 0 ? static_cast<int>((h >> 8) % nComps) : preferScaledComp(m.voi, (h >> 8) % nComps);
            const int ti = b.instanceIn(m.voi, comp);
            const int xi = b.instanceIn(static_cast<int>(k), comp);
            if (ti < 0 || xi < 0) {
                continue;
            }
            int r = newClass(GtRole::ALGEBRAIC, comp, "r", unitsPool[(h >> 16) % unitsPool.size()]);
            GtClass &rc = m.classes[static_cast<size_t>(r)];
            const GtClass &xc = m.classes[k];
            const GtClass &vc = m.classes[static_cast<size_t>(m.voi)];
            // d(local x)/d(local t) from d(home x)/d(the voi instance the ODE is written against)
            const double f = std::pow(10.0, xc.inst[0].log10scale - xc.inst[static_cast<size_t>(xi)].log10scale) * std::pow(10.0, vc.inst[static_cast<size_t>(ti)].log10scale - vc.inst[static_cast<size_t>(xc.voiLocalInst)].log10scale);
            Expr rhs = Expr::make(Op::DIFF, {Expr::ci(localName(m.voi, ti)), Expr::ci(localName(static_cast<int>(k), xi))});
            double add = 0.0;
            if ((h >> 24) % 3 == 0) {
                rhs = Expr::make(Op::PLUS, {rhs, Expr::cn(1.5, "dimensionless", "1.5")});
                add = 1.5;
            }
            rc.varying = true;
            rc.rhs = rhs;
            rc.deps.push_back(static_cast<int>(k));
            rc.value[0] = xc.rate[0] * f + add;
            rc.value[1] = xc.rate[1] * f + add;
            b.equations[static_cast<size_t>(comp)].emplace_back(Expr::ci(localName(r, 0)), rhs);
            ++made;
            ++m.counters[f != 1.0 ? "rate-reader-scaled" : "rate-reader"];
            if (vc.inst[static_cast<size_t>(ti)].log10scale != vc.inst[0].log10scale || vc.inst[static_cast<size_t>(xc.voiLocalInst)].log10scale != vc.inst[0].log10scale) {
                ++m.counters["rate-reader-scaled-voi"];
            }
        }
        b.scalePct = 35;
    }
    if (opt.initByName) {
        std::vector<int> consts;
        for (size_t k = 0; k < m.classes.size(); ++k) {
            if (m.classes[k].role == GtRole::CONSTANT) {
                consts.push_back(static_cast<int>(k));
            }
        }
        std::string key;
        for (int k : consts) {
            key += localName(k, 0) + "=" + std::to_string(m.classes[static_cast<size_t>(k)].value[0]) + ";";
        }
        const uint64_t h = fnv("init-by-name:" + key + std::to_string(m.classes.size()));
        if (!consts.empty() && h % 4 != 0) {
            b.scalePct = 70;
            int q = consts[(h >> 8) % consts.size()];
            int comp = (h >> 5) % 4 == 0 ? static_cast<int>((h >> 16) % nComps) : preferScaledComp(q, (h >> 16) % nComps);
            if ((h >> 5) % 4 != 0) {
                // better still: a constant that already has a scaled instance somewhere
                for (size_t d = 0; d < consts.size(); ++d) {
                    const int cand = consts[((h >> 8) + d) % consts.size()];
                    const GtClass &cc = m.classes[static_cast<size_t>(cand)];
                    bool found = false;
                    for (size_t i = 1; i < cc.inst.size() && !found; ++i) {
                        if (cc.inst[i].log10scale != cc.inst[0].log10scale) {
                            q = cand;
                            comp = cc.inst[i].comp;
                            found = true;
                        }
                    }
                    if (found) {
                        break;
                    }
                }
            }
            const bool reversed = (h >> 24) % 2 == 0; // declared before what they name
            const bool chain = (h >> 25) % 2 == 0;
            const bool state = m.voi >= 0 && (h >> 26) % 2 == 0;
            const std::string placeholder = "dimensionless";
            int p = -1, p2 = -1, qi = -1;
            if (reversed) {
                if (chain) {
                    p2 = newClass(GtRole::CONSTANT, comp, "p", placeholder);
                }
                p = newClass(GtRole::CONSTANT, comp, "p", placeholder);
                qi = b.instanceIn(q, comp);
            } else {
                qi = b.instanceIn(q, comp);
                p = newClass(GtRole::CONSTANT, comp, "p", placeholder);
                if (chain) {
                    p2 = newClass(GtRole::CONSTANT, comp, "p", placeholder);
                }
            }
            const GtInstance ql = m.classes[static_cast<size_t>(q)].inst[static_cast<size_t>(qi)];
            const double v = m.instanceValue(q, qi, 0);
            // the initialised variables take the units of the instance they name, so that no conversion question arises
            auto adopt = [&](int cls, const std::string &initial) {
                GtClass &c = m.classes[static_cast<size_t>(cls)];
                auto &sv = m.spec.comps[static_cast<size_t>(comp)].vars[static_cast<size_t>(c.inst[0].var)];
                sv.units = ql.units;
                sv.initial = initial;
                c.inst[0].units = ql.units;
                c.inst[0].log10scale = ql.log10scale;
                c.value[0] = c.value[1] = v;
            };
            adopt(p, localName(q, qi));
            if (p2 >= 0) {
                adopt(p2, localName(p, 0));
            }
            ++m.counters["init-by-name-constant"];
            if (ql.log10scale != m.classes[static_cast<size_t>(q)].inst[0].log10scale) {
                ++m.counters["init-by-name-scaled"];
            }
            if (chain) {
                ++m.counters["init-by-name-chain"];
            }
            if (reversed) {
                ++m.counters["init-by-name-declared-before"];
            }
            if (state) {
                const int ti = b.instanceIn(m.voi, comp);
                int s2 = newClass(GtRole::STATE, comp, "s", placeholder);
                adopt(s2, (h >> 27) % 2 == 0 ? localName(q, qi) : localName(p, 0));
                GtClass &sc = m.classes[static_cast<size_t>(s2)];
                sc.varying = true;
                sc.value[1] = statePoint2[(h >> 28) % 8];
                sc.initialisedBy = q;
                sc.voiLocalInst = ti;
                sc.deps.push_back(s2);
                if ((h >> 31) % 2 == 0) {
                    sc.rhs = Expr::make(Op::TIMES, {Expr::cn(-0.5, "dimensionless", "-0.5"), Expr::ci(localName(s2, 0))});
                    sc.rate[0] = -0.5 * sc.value[0];
                    sc.rate[1] = -0.5 * sc.value[1];
                } else {
                    sc.rhs = Expr::make(Op::PLUS, {Expr::ci(localName(s2, 0)), Expr::cn(1.5, "dimensionless", "1.5")});
                    sc.rate[0] = sc.value[0] + 1.5;
                    sc.rate[1] = sc.value[1] + 1.5;
                }
                b.equations[static_cast<size_t>(comp)].emplace_back(Expr::make(Op::DIFF, {Expr::ci(localName(m.voi, ti)), Expr::ci(localName(s2, 0))}), sc.rhs);
                haveOde = true;
                ++m.counters["init-by-name-state"];
            }
            b.scalePct = 35;
        }
    }
    if (opt.exoticReals) {
        // numeric initial values respelled, same value: what a CellML real may look like beyond the generator's own pool
        for (auto &cs : m.spec.comps) {
            for (auto &v : cs.vars) {
                const std::string t = v.initial;
                if (t.empty() || !(std::isdigit(static_cast<unsigned char>(t[0])) != 0 || t[0] == '-' || t[0] == '.')) {
                    continue;
                }
                const uint64_t h = fnv("real:" + cs.name + "." + v.name + "=" + t);
                std::string n = t;
                const size_t e = t.find_first_of("eE");
                if (e != std::string::npos) {
                    switch (h % 3) {
                    case 0: break;
                    case 1: n[e] = 'E'; break;
                    default:
                        n[e] = 'E';
                        if (e + 1 < n.size() && std::isdigit(static_cast<unsigned char>(n[e + 1])) != 0) {
                            n.insert(e + 1, "+");
                        }
                        break;
                    }
                } else {
                    const bool neg = t[0] == '-';
                    const std::string body = neg ? t.substr(1) : t;
                    const size_t dot = body.find('.');
                    const std::string ip = dot == std::string::npos ? body : body.substr(0, dot);
                    const std::string fp = dot == std::string::npos ? "" : body.substr(dot + 1);
                    switch (h % 9) {
                    case 0:
                    case 1:
                    case 2: break;
                    case 3: n = t + "E0"; break;
                    case 4: n = t + "E+00"; break;
                    case 5: n = (dot == std::string::npos) ? t + "." : t + "0"; break;
                    case 6: n = std::string(neg ? "-" : "") + "0" + body; break;
                    case 7: n = t + "e-0"; break;
                    default: // mantissa times ten, exponent -1
                        n = std::string(neg ? "-" : "") + ip + (fp.empty() ? "0" : fp.substr(0, 1)) + (fp.size() > 1 ? "." + fp.substr(1) : "") + "E-1";
                        break;
                    }
                }
                if (n != t && strtod(n.c_str(), nullptr) == strtod(t.c_str(), nullptr)) {
                    v.initial = n;
                    ++m.counters[n.find('E') != std::string::npos ? "exotic-real-upper-e" : "exotic-real"];
                }
            }
        }
    }
    // ---- interfaces
    for (size_t ci = 0; ci < m.spec.comps.size(); ++ci) {
        auto &c = m.spec.comps[ci];
        for (size_t k = 0; k < c.vars.size(); ++k) {
            std::string req = requiredInterface(m.spec, static_cast<int>(ci), static_cast<int>(k));
            if (req == "none") {
                c.vars[k].iface = src.flip(20) ? "public_and_private" : "";
            } else {
                c.vars[k].iface = src.flip(20) ? "public_and_private" : req;
            }
        }
    }
    // ---- math blocks: equations of a component in tape-chosen order and orientation
    for (size_t ci = 0; ci < m.spec.comps.size(); ++ci) {
        auto eqs = b.equations[ci];
        if (eqs.empty()) {
            continue;
        }
        // orientation
        for (auto &e : eqs) {
            if (src.flip(30)) {
                std::swap(e.first, e.second);
            }
        }
        // order
        for (size_t i = eqs.size(); i > 1; --i) {
            std::swap(eqs[i - 1], eqs[src.below(i)]);
        }
        m.equationCount += eqs.size();
        size_t split = eqs.size() > 1 && src.flip(30) ? 1 + src.below(eqs.size() - 1) : eqs.size();
        std::vector<std::pair<Expr, Expr>> first(eqs.begin(), eqs.begin() + static_cast<long>(split)), second(eqs.begin() + static_cast<long>(split), eqs.end());
        m.spec.comps[ci].math.push_back(mathBlock(first, static_cast<int>(src.below(3))));
        if (!second.empty()) {
            m.spec.comps[ci].math.push_back(mathBlock(second, static_cast<int>(src.below(3))));
        }
        m.spec.comps[ci].equations = eqs;
    }
    bool hasNla = !m.nla.empty();
    m.expectedType = haveOde ? (hasNla ? "dae" : "ode") : (hasNla ? "nla" : "algebraic");
    return m;
}

} // namespace vp

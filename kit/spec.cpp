#include "spec.h"

#include <libxml/parser.h>
#include <libxml/tree.h>

#include <algorithm>
#include <cstdio>
#include <cstring>
#include <set>
#include <sstream>

using namespace libcellml;

namespace vp {

std::vector<int> ModelSpec::childrenOf(int parent) const
{
    std::vector<int> r;
    for (size_t i = 0; i < comps.size(); ++i) {
        if (comps[i].parent == parent) {
            r.push_back(static_cast<int>(i));
        }
    }
    return r;
}

int ModelSpec::depthOf(int c) const
{
    int d = 0;
    while (c >= 0 && comps[static_cast<size_t>(c)].parent >= 0) {
        c = comps[static_cast<size_t>(c)].parent;
        ++d;
    }
    return d;
}

// ------------------------------------------------------------------------------------------------ buildApi

Built buildApi(const ModelSpec &spec, Src *order)
{
    Built b;
    b.model = Model::create();
    if (!spec.name.empty()) {
        b.model->setName(spec.name);
    }
    if (!spec.id.empty()) {
        b.model->setId(spec.id);
    }
    if (!spec.encId.empty()) {
        b.model->setEncapsulationId(spec.encId);
    }
    for (const auto &i : spec.imports) {
        auto imp = ImportSource::create();
        imp->setUrl(i.url);
        if (!i.id.empty()) {
            imp->setId(i.id);
        }
        b.imports.push_back(imp);
    }
    bool unitsFirst = order == nullptr || !order->flip(40);
    auto makeUnits = [&]() {
        for (const auto &u : spec.units) {
            auto units = Units::create();
            if (!u.name.empty()) {
                units->setName(u.name);
            }
            if (!u.id.empty()) {
                units->setId(u.id);
            }
            if (u.import >= 0) {
                units->setImportSource(b.imports[static_cast<size_t>(u.import)]);
                units->setImportReference(u.importRef);
            }
            for (const auto &c : u.units) {
                units->addUnit(c.ref, c.prefix, c.exponent, c.multiplier, c.id);
            }
            b.units.push_back(units);
        }
    };
    auto addUnits = [&]() {
        for (const auto &u : b.units) {
            b.model->addUnits(u);
        }
    };
    makeUnits();
    if (unitsFirst) {
        addUnits();
    }
    // components
    b.comps.resize(spec.comps.size());
    b.vars.resize(spec.comps.size());
    b.resets.resize(spec.comps.size());
    for (size_t ci = 0; ci < spec.comps.size(); ++ci) {
        const auto &c = spec.comps[ci];
        auto comp = Component::create();
        if (!c.name.empty()) {
            comp->setName(c.name);
        }
        if (!c.id.empty()) {
            comp->setId(c.id);
        }
        if (!c.encId.empty()) {
            comp->setEncapsulationId(c.encId);
        }
        if (c.import >= 0) {
            comp->setImportSource(b.imports[static_cast<size_t>(c.import)]);
            comp->setImportReference(c.importRef);
        }
        for (const auto &v : c.vars) {
            auto var = Variable::create();
            if (!v.name.empty()) {
                var->setName(v.name);
            }
            if (!v.id.empty()) {
                var->setId(v.id);
            }
            if (!v.units.empty()) {
                UnitsPtr linked;
                for (size_t ui = 0; ui < spec.units.size(); ++ui) {
                    if (spec.units[ui].name == v.units) {
                        linked = b.units[ui];
                        break;
                    }
                }
                if (linked != nullptr) {
                    var->setUnits(linked);
                } else {
                    var->setUnits(v.units);
                }
            }
            if (!v.initial.empty()) {
                var->setInitialValue(v.initial);
            }
            if (!v.iface.empty()) {
                var->setInterfaceType(v.iface);
            }
            comp->addVariable(var);
            b.vars[ci].push_back(var);
        }
        for (const auto &r : c.resets) {
            auto reset = Reset::create();
            if (!r.id.empty()) {
                reset->setId(r.id);
            }
            if (r.var >= 0) {
                reset->setVariable(b.vars[ci][static_cast<size_t>(r.var)]);
            }
            if (r.testVar >= 0) {
                reset->setTestVariable(b.vars[ci][static_cast<size_t>(r.testVar)]);
            }
            if (r.hasOrder) {
                reset->setOrder(r.order);
            }
            if (!r.testValue.empty()) {
                reset->setTestValue(r.testValue);
            }
            if (!r.resetValue.empty()) {
                reset->setResetValue(r.resetValue);
            }
            if (!r.testValueId.empty()) {
                reset->setTestValueId(r.testValueId);
            }
            if (!r.resetValueId.empty()) {
                reset->setResetValueId(r.resetValueId);
            }
            comp->addReset(reset);
            b.resets[ci].push_back(reset);
        }
        for (const auto &m : c.math) {
            comp->appendMath(m);
        }
        b.comps[ci] = comp;
    }
    bool bottomUp = order != nullptr && order->flip(40);
    if (bottomUp) {
        // attach children to parents first, then top-level components to the model
        for (size_t ci = 0; ci < spec.comps.size(); ++ci) {
            if (spec.comps[ci].parent >= 0) {
                b.comps[static_cast<size_t>(spec.comps[ci].parent)]->addComponent(b.comps[ci]);
            }
        }
        for (size_t ci = 0; ci < spec.comps.size(); ++ci) {
            if (spec.comps[ci].parent < 0) {
                b.model->addComponent(b.comps[ci]);
            }
        }
    } else {
        for (size_t ci = 0; ci < spec.comps.size(); ++ci) {
            if (spec.comps[ci].parent < 0) {
                b.model->addComponent(b.comps[ci]);
            } else {
                b.comps[static_cast<size_t>(spec.comps[ci].parent)]->addComponent(b.comps[ci]);
            }
        }
    }
    if (!unitsFirst) {
        addUnits();
    }
    for (const auto &cn : spec.conns) {
        for (const auto &m : cn.maps) {
            Variable::addEquivalence(b.vars[static_cast<size_t>(cn.c1)][static_cast<size_t>(m.v1)], b.vars[static_cast<size_t>(cn.c2)][static_cast<size_t>(m.v2)], m.id, cn.id);
        }
    }
    return b;
}

// ------------------------------------------------------------------------------------------------ writeXml

std::string xmlEscape(const std::string &s)
{
    std::string o;
    for (char c : s) {
        switch (c) {
        case '&': o += "&amp;"; break;
        case '<': o += "&lt;"; break;
        case '>': o += "&gt;"; break;
        case '"': o += "&quot;"; break;
        case '\'': o += "&apos;"; break;
        default: o += c;
        }
    }
    return o;
}

namespace {

struct Writer
{
    const ModelSpec &spec;
    XmlOptions opt;
    std::ostringstream o;
    uint32_t lay;
    int depth = 0;

    Writer(const ModelSpec &s, const XmlOptions &op)
        : spec(s)
        , opt(op)
        , lay(op.layout)
    {
    }

    uint32_t bits(unsigned n)
    {
        // cheap deterministic stream derived from the layout seed
        lay = lay * 1664525u + 1013904223u;
        return (lay >> 16) % n;
    }
    void nl()
    {
        if (opt.layout == 0) {
            return;
        }
        o << "\n";
        for (int i = 0; i < depth; ++i) {
            o << "  ";
        }
        if (opt.layout % 7 == 3 && bits(6) == 0) {
            o << "<!-- note -->";
        }
    }
    using Attrs = std::vector<std::pair<std::string, std::string>>;
    void open(const std::string &name, Attrs attrs, bool selfClose, const std::string &extraNs = "")
    {
        nl();
        o << "<" << name << extraNs;
        if (opt.layout != 0 && attrs.size() > 1) {
            std::rotate(attrs.begin(), attrs.begin() + static_cast<long>(bits(static_cast<unsigned>(attrs.size()))), attrs.end());
        }
        for (const auto &a : attrs) {
            o << " " << a.first << "=\"" << xmlEscape(a.second) << "\"";
        }
        o << (selfClose ? "/>" : ">");
        if (!selfClose) {
            ++depth;
        }
    }
    void close(const std::string &name)
    {
        --depth;
        nl();
        o << "</" << name << ">";
    }
    bool v1x() const { return opt.version != 20; }
    std::string idName() const { return (v1x() && opt.cmetaId) ? "cmeta:id" : "id"; }
    void addId(Attrs &a, const std::string &id)
    {
        if (!id.empty()) {
            a.emplace_back(idName(), id);
        }
    }
    std::string spell(const std::string &u)
    {
        if (v1x() && opt.oldSpellings) {
            if (u == "litre") {
                return "liter";
            }
            if (u == "metre") {
                return "meter";
            }
        }
        return u;
    }
    std::string cellmlNs() const
    {
        return opt.version == 20 ? "http://www.cellml.org/cellml/2.0#" : (opt.version == 11 ? "http://www.cellml.org/cellml/1.1#" : "http://www.cellml.org/cellml/1.0#");
    }
    std::string fixMath(const std::string &m)
    {
        if (!v1x()) {
            return m;
        }
        std::string r = m;
        const std::string from = "http://www.cellml.org/cellml/2.0#";
        size_t p = 0;
        while ((p = r.find(from, p)) != std::string::npos) {
            r.replace(p, from.size(), cellmlNs());
            p += cellmlNs().size();
        }
        return r;
    }

    void writeUnits(const UnitsSpec &u)
    {
        Attrs a {{"name", u.name}};
        addId(a, u.id);
        if (u.units.empty()) {
            if (v1x()) {
                a.emplace_back("base_units", "yes");
            }
            open("units", a, true);
            return;
        }
        open("units", a, false);
        for (const auto &c : u.units) {
            Attrs ua {{"units", spell(c.ref)}};
            if (!c.prefix.empty()) {
                ua.emplace_back("prefix", c.prefix);
            }
            if (c.exponent != 1.0 || bits(5) == 0) {
                ua.emplace_back("exponent", numTextAttr(c.exponent));
            }
            if (c.multiplier != 1.0 || bits(5) == 0) {
                ua.emplace_back("multiplier", numTextAttr(c.multiplier));
            }
            addId(ua, c.id);
            open("unit", ua, true);
        }
        close("units");
    }
    static std::string numTextAttr(double v)
    {
        char buf[64];
        for (int prec = 1; prec <= 17; ++prec) {
            snprintf(buf, sizeof buf, "%.*g", prec, v);
            if (strtod(buf, nullptr) == v) {
                break;
            }
        }
        std::string s = buf;
        // CellML reals allow "e" notation without '+': drop a '+' in the exponent
        size_t p = s.find("e+");
        if (p != std::string::npos) {
            s.erase(p + 1, 1);
        }
        return s;
    }

    void writeVariable(const VarSpec &v)
    {
        Attrs a {{"name", v.name}};
        if (!v.units.empty()) {
            a.emplace_back("units", spell(v.units));
        }
        if (!v.initial.empty()) {
            a.emplace_back("initial_value", v.initial);
        }
        if (!v1x()) {
            if (!v.iface.empty()) {
                a.emplace_back("interface", v.iface);
            }
        } else {
            bool pub = v.iface == "public" || v.iface == "public_and_private";
            bool priv = v.iface == "private" || v.iface == "public_and_private";
            if (pub) {
                a.emplace_back("public_interface", bits(2) != 0 ? "in" : "out");
            } else if (opt.explicitNone) {
                a.emplace_back("public_interface", "none");
            }
            if (priv) {
                a.emplace_back("private_interface", bits(2) != 0 ? "in" : "out");
            } else if (opt.explicitNone) {
                a.emplace_back("private_interface", "none");
            }
        }
        addId(a, v.id);
        open("variable", a, true);
    }

    void writeReset(const CompSpec &c, const ResetSpec &r)
    {
        Attrs a;
        if (r.var >= 0) {
            a.emplace_back("variable", c.vars[static_cast<size_t>(r.var)].name);
        }
        if (r.testVar >= 0) {
            a.emplace_back("test_variable", c.vars[static_cast<size_t>(r.testVar)].name);
        }
        if (r.hasOrder) {
            a.emplace_back("order", std::to_string(r.order));
        }
        addId(a, r.id);
        bool kids = !r.testValue.empty() || !r.resetValue.empty() || !r.testValueId.empty() || !r.resetValueId.empty();
        open("reset", a, !kids);
        if (!kids) {
            return;
        }
        if (!r.testValue.empty() || !r.testValueId.empty()) {
            Attrs ta;
            addId(ta, r.testValueId);
            open("test_value", ta, r.testValue.empty());
            if (!r.testValue.empty()) {
                nl();
                o << r.testValue;
                close("test_value");
            }
        }
        if (!r.resetValue.empty() || !r.resetValueId.empty()) {
            Attrs ra;
            addId(ra, r.resetValueId);
            open("reset_value", ra, r.resetValue.empty());
            if (!r.resetValue.empty()) {
                nl();
                o << r.resetValue;
                close("reset_value");
            }
        }
        close("reset");
    }

    void writeComponent(size_t ci, bool withUnits)
    {
        const auto &c = spec.comps[ci];
        Attrs a {{"name", c.name}};
        addId(a, c.id);
        bool kids = !c.vars.empty() || !c.resets.empty() || !c.math.empty() || withUnits;
        open("component", a, !kids);
        if (!kids) {
            return;
        }
        if (withUnits) {
            for (const auto &u : spec.units) {
                if (u.import < 0) {
                    writeUnits(u);
                }
            }
        }
        for (const auto &v : c.vars) {
            writeVariable(v);
        }
        if (!v1x()) {
            for (const auto &r : c.resets) {
                writeReset(c, r);
            }
        }
        for (const auto &m : c.math) {
            nl();
            o << fixMath(m);
        }
        if (v1x() && opt.extras && bits(2) == 0) {
            nl();
            o << "<rdf:RDF xmlns:rdf=\"http://www.w3.org/1999/02/22-rdf-syntax-ns#\"><rdf:Description rdf:about=\"#x\"/></rdf:RDF>";
        }
        close("component");
    }

    void writeComponentRef(int ci)
    {
        const auto &c = spec.comps[static_cast<size_t>(ci)];
        Attrs a {{"component", c.name}};
        addId(a, c.encId);
        auto kids = spec.childrenOf(ci);
        open("component_ref", a, kids.empty());
        if (kids.empty()) {
            return;
        }
        for (int k : kids) {
            writeComponentRef(k);
        }
        close("component_ref");
    }

    std::string run()
    {
        o << "<?xml version=\"1.0\" encoding=\"UTF-8\"?>";
        Attrs a {{"name", spec.name}};
        addId(a, spec.id);
        std::string ns = " xmlns=\"" + cellmlNs() + "\"";
        if (v1x()) {
            ns += " xmlns:cmeta=\"http://www.cellml.org/metadata/1.0#\"";
            if (opt.extras) {
                a.emplace_back("cmeta:note", "dropped");
            }
        }
        if (spec.name.empty()) {
            a.erase(a.begin());
        }
        open("model", a, false, ns);
        // imports
        for (size_t ii = 0; ii < spec.imports.size(); ++ii) {
            bool used = false;
            for (const auto &u : spec.units) {
                used = used || u.import == static_cast<int>(ii);
            }
            for (const auto &c : spec.comps) {
                used = used || c.import == static_cast<int>(ii);
            }
            if (!used) {
                continue;
            }
            Attrs ia {{"xlink:href", spec.imports[ii].url}};
            addId(ia, spec.imports[ii].id);
            open("import", ia, false, " xmlns:xlink=\"http://www.w3.org/1999/xlink\"");
            for (const auto &u : spec.units) {
                if (u.import == static_cast<int>(ii)) {
                    Attrs ua {{"units_ref", u.importRef}, {"name", u.name}};
                    addId(ua, u.id);
                    open("units", ua, true);
                }
            }
            for (const auto &c : spec.comps) {
                if (c.import == static_cast<int>(ii)) {
                    Attrs ca {{"component_ref", c.importRef}, {"name", c.name}};
                    addId(ca, c.id);
                    open("component", ca, true);
                }
            }
            close("import");
        }
        bool unitsInComp = v1x() && opt.unitsInComponents;
        int firstLocalComp = -1;
        for (size_t ci = 0; ci < spec.comps.size(); ++ci) {
            if (spec.comps[ci].import < 0) {
                firstLocalComp = static_cast<int>(ci);
                break;
            }
        }
        if (firstLocalComp < 0) {
            unitsInComp = false;
        }
        bool unitsAfter = opt.layout != 0 && bits(3) == 0;
        auto writeAllUnits = [&]() {
            if (!unitsInComp) {
                for (const auto &u : spec.units) {
                    if (u.import < 0) {
                        writeUnits(u);
                    }
                }
            }
        };
        if (!unitsAfter) {
            writeAllUnits();
        }
        for (size_t ci = 0; ci < spec.comps.size(); ++ci) {
            if (spec.comps[ci].import < 0) {
                writeComponent(ci, unitsInComp && static_cast<int>(ci) == firstLocalComp);
            }
        }
        if (unitsAfter) {
            writeAllUnits();
        }
        // connections
        for (const auto &cn : spec.conns) {
            if (cn.maps.empty()) {
                continue;
            }
            const auto &c1 = spec.comps[static_cast<size_t>(cn.c1)];
            const auto &c2 = spec.comps[static_cast<size_t>(cn.c2)];
            Attrs ca {{"component_1", c1.name}, {"component_2", c2.name}};
            addId(ca, cn.id);
            if (v1x()) {
                open("connection", {}, false);
                open("map_components", ca, true);
            } else {
                open("connection", ca, false);
            }
            for (const auto &m : cn.maps) {
                Attrs ma {{"variable_1", c1.vars[static_cast<size_t>(m.v1)].name}, {"variable_2", c2.vars[static_cast<size_t>(m.v2)].name}};
                addId(ma, m.id);
                open("map_variables", ma, true);
            }
            close("connection");
        }
        // encapsulation
        std::vector<int> roots;
        for (int r : spec.childrenOf(-1)) {
            if (!spec.childrenOf(r).empty()) {
                roots.push_back(r);
            }
        }
        if (!roots.empty()) {
            if (v1x()) {
                if (opt.extras) {
                    open("group", {}, false);
                    open("relationship_ref", {{"relationship", "containment"}}, true);
                    open("component_ref", {{"component", spec.comps[static_cast<size_t>(roots[0])].name}}, true);
                    close("group");
                }
                open("group", {}, false);
                open("relationship_ref", {{"relationship", "encapsulation"}}, true);
            } else {
                Attrs ea;
                addId(ea, spec.encId);
                open("encapsulation", ea, false);
            }
            for (int r : roots) {
                writeComponentRef(r);
            }
            close(v1x() ? "group" : "encapsulation");
        }
        close("model");
        o << "\n";
        return o.str();
    }
};

} // namespace

std::string writeXml(const ModelSpec &spec, const XmlOptions &opt)
{
    Writer w(spec, opt);
    return w.run();
}

// ------------------------------------------------------------------------------------------------ dump

std::string fmtDouble(double v)
{
    char buf[64];
    snprintf(buf, sizeof buf, "%.15g", v);
    return buf;
}

namespace {

void canonNode(xmlNodePtr n, std::string &out)
{
    for (; n != nullptr; n = n->next) {
        if (n->type == XML_ELEMENT_NODE) {
            out += "{";
            out += (n->ns != nullptr && n->ns->href != nullptr) ? reinterpret_cast<const char *>(n->ns->href) : "";
            out += "}";
            out += reinterpret_cast<const char *>(n->name);
            std::vector<std::string> attrs;
            for (xmlAttrPtr a = n->properties; a != nullptr; a = a->next) {
                std::string s = "{";
                s += (a->ns != nullptr && a->ns->href != nullptr) ? reinterpret_cast<const char *>(a->ns->href) : "";
                s += "}";
                s += reinterpret_cast<const char *>(a->name);
                xmlChar *v = xmlNodeListGetString(n->doc, a->children, 1);
                s += "=";
                s += v != nullptr ? reinterpret_cast<const char *>(v) : "";
                if (v != nullptr) {
                    xmlFree(v);
                }
                attrs.push_back(s);
            }
            std::sort(attrs.begin(), attrs.end());
            out += "[";
            for (const auto &a : attrs) {
                out += a + ";";
            }
            out += "](";
            canonNode(n->children, out);
            out += ")";
        } else if (n->type == XML_TEXT_NODE || n->type == XML_CDATA_SECTION_NODE) {
            std::string t = n->content != nullptr ? reinterpret_cast<const char *>(n->content) : "";
            size_t a = t.find_first_not_of(" \t\r\n");
            if (a == std::string::npos) {
                continue;
            }
            size_t b = t.find_last_not_of(" \t\r\n");
            out += "'" + t.substr(a, b - a + 1) + "'";
        }
    }
}

void silentError(void *, const char *, ...)
{
}

} // namespace

std::string mathCanon(const std::string &math)
{
    if (math.empty()) {
        return "";
    }
    // strip XML declarations, wrap to allow several roots
    std::string body = math;
    size_t p;
    while ((p = body.find("<?xml")) != std::string::npos) {
        size_t e = body.find("?>", p);
        if (e == std::string::npos) {
            break;
        }
        body.erase(p, e + 2 - p);
    }
    std::string doc = "<vp_wrap>" + body + "</vp_wrap>";
    xmlSetGenericErrorFunc(nullptr, silentError);
    xmlSetStructuredErrorFunc(nullptr, nullptr);
    // XML_PARSE_HUGE: math that the validator accepts (256 levels on its own) must not be unparsable here because of the wrapper
    xmlDocPtr d = xmlReadMemory(doc.c_str(), static_cast<int>(doc.size()), "m.xml", nullptr, XML_PARSE_NOERROR | XML_PARSE_NOWARNING | XML_PARSE_NONET | XML_PARSE_HUGE);
    if (d == nullptr) {
        return "UNPARSABLE:" + math;
    }
    std::string out;
    xmlNodePtr root = xmlDocGetRootElement(d);
    if (root != nullptr) {
        canonNode(root->children, out);
    }
    xmlFreeDoc(d);
    return out;
}

namespace {

std::string q(const std::string &s)
{
    return "\"" + s + "\"";
}

std::string compPath(const ComponentPtr &c)
{
    std::string p = c->name();
    auto par = c->parent();
    int guard = 0;
    while (par != nullptr && guard++ < 1000) {
        auto pc = std::dynamic_pointer_cast<Component>(par);
        if (pc == nullptr) {
            break;
        }
        p = pc->name() + "/" + p;
        par = pc->parent();
    }
    return p;
}

std::string varKey(const VariablePtr &v)
{
    auto par = std::dynamic_pointer_cast<Component>(v->parent());
    return (par != nullptr ? compPath(par) : std::string("<orphan>")) + ":" + v->name();
}

std::string importStr(const ImportedEntityPtr &e, int flags, const std::map<ImportSource *, int> *ptrIds)
{
    if (!e->isImport()) {
        return "";
    }
    auto imp = e->importSource();
    std::string s = " import{url=" + q(imp->url()) + " id=" + q(imp->id()) + " ref=" + q(e->importReference());
    if ((flags & DUMP_NO_IMPORT_MODEL) == 0) {
        s += imp->hasModel() ? " resolved" : " unresolved";
    }
    if (ptrIds != nullptr) {
        auto it = ptrIds->find(imp.get());
        s += " src#" + std::to_string(it != ptrIds->end() ? it->second : -1);
    }
    return s + "}";
}

void joinSorted(std::string &out, std::vector<std::string> &items, bool ordered, const std::string &indent)
{
    if (!ordered) {
        std::sort(items.begin(), items.end());
    }
    for (const auto &i : items) {
        std::istringstream is(i);
        std::string line;
        while (std::getline(is, line)) {
            out += indent + line + "\n";
        }
    }
}

struct Dumper
{
    int flags;
    std::map<ImportSource *, int> ptrIds;
    bool ordered() const { return (flags & DUMP_ORDERED) != 0; }
    std::string math(const std::string &m) const { return (flags & DUMP_RAW_MATH) != 0 ? m : mathCanon(m); }

    std::string variable(const VariablePtr &v)
    {
        std::string s = "variable name=" + q(v->name()) + " id=" + q(v->id());
        auto u = v->units();
        s += " units=" + (u != nullptr ? q(u->name()) : std::string("<none>"));
        s += " initial=" + q(v->initialValue()) + " interface=" + q(v->interfaceType());
        return s;
    }
    std::string units(const UnitsPtr &u)
    {
        std::string s = "units name=" + q(u->name()) + " id=" + q(u->id()) + importStr(u, flags, (flags & DUMP_PTR_IMPORTS) != 0 ? &ptrIds : nullptr) + "\n";
        std::vector<std::string> kids;
        for (size_t i = 0; i < u->unitCount(); ++i) {
            std::string ref, prefix, id;
            double e = 0, m = 0;
            u->unitAttributes(i, ref, prefix, e, m, id);
            kids.push_back("unit ref=" + q(ref) + " prefix=" + q(prefix) + " exponent=" + fmtDouble(e) + " multiplier=" + fmtDouble(m) + " id=" + q(id));
        }
        joinSorted(s, kids, ordered(), "  ");
        return s;
    }
    std::string reset(const ResetPtr &r)
    {
        std::string s = "reset id=" + q(r->id());
        s += " variable=" + (r->variable() != nullptr ? q(r->variable()->name()) : std::string("<none>"));
        s += " test_variable=" + (r->testVariable() != nullptr ? q(r->testVariable()->name()) : std::string("<none>"));
        s += " order=" + (r->isOrderSet() ? std::to_string(r->order()) : std::string("<unset>"));
        s += " test_value_id=" + q(r->testValueId()) + " reset_value_id=" + q(r->resetValueId());
        s += " test_value=" + q(math(r->testValue())) + " reset_value=" + q(math(r->resetValue()));
        return s;
    }
    std::string component(const ComponentPtr &c)
    {
        std::string s = "component name=" + q(c->name()) + " id=" + q(c->id()) + " encId=" + q(c->encapsulationId()) + importStr(c, flags, (flags & DUMP_PTR_IMPORTS) != 0 ? &ptrIds : nullptr) + "\n";
        std::vector<std::string> vars, resets, kids;
        for (size_t i = 0; i < c->variableCount(); ++i) {
            vars.push_back(variable(c->variable(i)));
        }
        for (size_t i = 0; i < c->resetCount(); ++i) {
            resets.push_back(reset(c->reset(i)));
        }
        for (size_t i = 0; i < c->componentCount(); ++i) {
            kids.push_back(component(c->component(i)));
        }
        joinSorted(s, vars, ordered(), "  ");
        joinSorted(s, resets, ordered(), "  ");
        s += "  math=" + q(math(c->math())) + "\n";
        joinSorted(s, kids, ordered(), "  ");
        return s;
    }
    void collectVars(const ComponentPtr &c, std::vector<VariablePtr> &out)
    {
        for (size_t i = 0; i < c->variableCount(); ++i) {
            out.push_back(c->variable(i));
        }
        for (size_t i = 0; i < c->componentCount(); ++i) {
            collectVars(c->component(i), out);
        }
    }
    void collectImports(const ModelPtr &m)
    {
        std::function<void(const ComponentPtr &)> walk = [&](const ComponentPtr &c) {
            if (c->isImport() && ptrIds.count(c->importSource().get()) == 0) {
                int n = static_cast<int>(ptrIds.size());
                ptrIds[c->importSource().get()] = n;
            }
            for (size_t i = 0; i < c->componentCount(); ++i) {
                walk(c->component(i));
            }
        };
        // NB: numbering follows traversal order; only meaningful with DUMP_ORDERED or for sharing comparisons
        for (size_t i = 0; i < m->unitsCount(); ++i) {
            auto u = m->units(i);
            if (u->isImport() && ptrIds.count(u->importSource().get()) == 0) {
                int n = static_cast<int>(ptrIds.size());
                ptrIds[u->importSource().get()] = n;
            }
        }
        for (size_t i = 0; i < m->componentCount(); ++i) {
            walk(m->component(i));
        }
    }
    std::string model(const ModelPtr &m)
    {
        if (m == nullptr) {
            return "<null model>\n";
        }
        if ((flags & DUMP_PTR_IMPORTS) != 0) {
            collectImports(m);
        }
        std::string s = "model name=" + q(m->name()) + " id=" + q(m->id()) + " encId=" + q(m->encapsulationId()) + "\n";
        std::vector<std::string> us, cs, eqs;
        for (size_t i = 0; i < m->unitsCount(); ++i) {
            us.push_back(units(m->units(i)));
        }
        std::vector<VariablePtr> vars;
        for (size_t i = 0; i < m->componentCount(); ++i) {
            cs.push_back(component(m->component(i)));
            collectVars(m->component(i), vars);
        }
        std::set<std::pair<Variable *, Variable *>> seen;
        for (const auto &v : vars) {
            for (size_t j = 0; j < v->equivalentVariableCount(); ++j) {
                auto e = v->equivalentVariable(j);
                if (e == nullptr) {
                    eqs.push_back("equivalence " + varKey(v) + " <-> <expired>");
                    continue;
                }
                if (seen.count({e.get(), v.get()}) != 0) {
                    continue;
                }
                seen.insert({v.get(), e.get()});
                std::string a = varKey(v), b = varKey(e);
                if (b < a) {
                    std::swap(a, b);
                }
                eqs.push_back("equivalence " + a + " <-> " + b + " mapping_id=" + q(Variable::equivalenceMappingId(v, e)) + " connection_id=" + q(Variable::equivalenceConnectionId(v, e)));
            }
        }
        joinSorted(s, us, ordered(), " ");
        joinSorted(s, cs, ordered(), " ");
        joinSorted(s, eqs, false, " ");
        return s;
    }
};

} // namespace

std::string dumpModel(const ModelPtr &model, int flags)
{
    Dumper d {flags, {}};
    return d.model(model);
}
std::string dumpComponent(const ComponentPtr &c, int flags)
{
    Dumper d {flags, {}};
    return c != nullptr ? d.component(c) : "<null component>\n";
}
std::string dumpUnits(const UnitsPtr &u, int flags)
{
    Dumper d {flags, {}};
    return u != nullptr ? d.units(u) : "<null units>\n";
}
std::string dumpVariable(const VariablePtr &v, int flags)
{
    Dumper d {flags, {}};
    return v != nullptr ? d.variable(v) + "\n" : "<null variable>\n";
}
std::string dumpReset(const ResetPtr &r, int flags)
{
    Dumper d {flags, {}};
    return r != nullptr ? d.reset(r) + "\n" : "<null reset>\n";
}

std::string dumpIssues(const LoggerPtr &logger)
{
    std::string s;
    for (size_t i = 0; i < logger->issueCount(); ++i) {
        auto is = logger->issue(i);
        s += "issue level=" + std::to_string(static_cast<int>(is->level())) + " rule=" + std::to_string(static_cast<int>(is->referenceRule())) + " item=" + cellmlElementTypeAsString(is->item()->type()) + " :: " + is->description() + "\n";
    }
    return s;
}

std::string firstDiff(const std::string &a, const std::string &b)
{
    std::istringstream ia(a), ib(b);
    std::string la, lb;
    int n = 0;
    while (true) {
        bool ga = static_cast<bool>(std::getline(ia, la));
        bool gb = static_cast<bool>(std::getline(ib, lb));
        ++n;
        if (!ga && !gb) {
            return "(identical)";
        }
        if (!ga || !gb || la != lb) {
            return "line " + std::to_string(n) + ":\n  A: " + (ga ? la : "<eof>") + "\n  B: " + (gb ? lb : "<eof>");
        }
    }
}

// ------------------------------------------------------------------------------------------------ spec text

std::string specToText(const ModelSpec &spec)
{
    XmlOptions o;
    o.layout = 1;
    return writeXml(spec, o);
}

// ------------------------------------------------------------------------------------------------ C15 monitor

std::string checkLogger(const LoggerPtr &lg)
{
    size_t n = lg->issueCount(), ne = lg->errorCount(), nw = lg->warningCount(), nm = lg->messageCount();
    if (n != ne + nw + nm) {
        return "count|issueCount=" + std::to_string(n) + " != " + std::to_string(ne) + "+" + std::to_string(nw) + "+" + std::to_string(nm);
    }
    size_t ie = 0, iw = 0, im = 0;
    for (size_t i = 0; i < n; ++i) {
        auto is = lg->issue(i);
        if (is == nullptr) {
            return "null-issue|issue(" + std::to_string(i) + ") is null below issueCount";
        }
        IssuePtr byLevel;
        switch (is->level()) {
        case Issue::Level::ERROR: byLevel = lg->error(ie++); break;
        case Issue::Level::WARNING: byLevel = lg->warning(iw++); break;
        case Issue::Level::MESSAGE: byLevel = lg->message(im++); break;
        default: return "level|issue(" + std::to_string(i) + ") has a level outside the enumeration";
        }
        if (byLevel != is) {
            return "level-index|issue(" + std::to_string(i) + ") of level " + std::to_string(static_cast<int>(is->level())) + " is not the next issue of its level: " + is->description();
        }
        if (is->description().empty()) {
            return "description|issue(" + std::to_string(i) + ") has an empty description";
        }
        std::string heading = is->referenceHeading();
        std::string url = is->url();
        (void)heading;
        if (is->referenceRule() != Issue::ReferenceRule::UNDEFINED && url.empty()) {
            return "url|rule " + std::to_string(static_cast<int>(is->referenceRule())) + " has an empty url";
        }
        auto item = is->item();
        if (item == nullptr) {
            return "item|issue(" + std::to_string(i) + ") has a null item: " + is->description();
        }
        bool ok = true;
        switch (item->type()) {
        case CellmlElementType::COMPONENT:
        case CellmlElementType::COMPONENT_REF: ok = item->component() != nullptr; break;
        case CellmlElementType::MATH: ok = true; break; // no public typed accessor returns a MATH item (component() refuses the type); not judged
        case CellmlElementType::CONNECTION:
        case CellmlElementType::MAP_VARIABLES: ok = item->variablePair() != nullptr; break;
        case CellmlElementType::ENCAPSULATION:
        case CellmlElementType::MODEL: ok = item->model() != nullptr; break;
        case CellmlElementType::IMPORT: ok = item->importSource() != nullptr; break;
        case CellmlElementType::RESET:
        case CellmlElementType::RESET_VALUE:
        case CellmlElementType::TEST_VALUE: ok = item->reset() != nullptr; break;
        case CellmlElementType::UNIT: ok = item->unitsItem() != nullptr; break;
        case CellmlElementType::UNITS: ok = item->units() != nullptr; break;
        case CellmlElementType::VARIABLE: ok = item->variable() != nullptr; break;
        case CellmlElementType::UNDEFINED:
            ok = item->component() == nullptr && item->model() == nullptr && item->units() == nullptr && item->variable() == nullptr && item->reset() == nullptr && item->importSource() == nullptr && item->variablePair() == nullptr && item->unitsItem() == nullptr;
            break;
        default: return "item-type|issue(" + std::to_string(i) + ") item type outside the enumeration";
        }
        if (!ok) {
            return "item-mismatch|" + cellmlElementTypeAsString(item->type()) + "|issue(" + std::to_string(i) + "): stored object does not match the stated type: " + is->description();
        }
    }
    if (ie != ne || iw != nw || im != nm) {
        return "level-count|per-level counts disagree with the issue list";
    }
    if (lg->issue(n) != nullptr || lg->error(ne) != nullptr || lg->warning(nw) != nullptr || lg->message(nm) != nullptr || lg->issue(n + 7) != nullptr) {
        return "out-of-range|an index at or beyond the count returned a non-null issue";
    }
    return "";
}

} // namespace vp
